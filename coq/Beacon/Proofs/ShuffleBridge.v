(* Bridge C06 -> C07.
   The beacon Spec (Beacon/Spec/Helpers.v) has its own transliteration of compute_shuffled_index
   (`shuffle_rounds`); C06 (Shuffle/*.v) proves that the specification's per-index shuffle is a bijection of
   the index range.  Here:
   (1) the two transliterations agree (shuffle_rounds_is_c06_spec);
   (2) Helpers' per-index shuffle `sigma` maps [0,n) into [0,n) and is a permutation of it
       (sigma_range_c06, sigma_perm_c06) -- from C06's abstract swap-or-not lemmas, no hypotheses;
   (3) the committees of an epoch partition the active set, without any hypothesis about the shuffle
       (committees_partition_unconditional);
   (4) sigma is the function zrnt's PermuteIndex computes (sigma_is_go_permute_index). *)
From Coq Require Import NArith ZArith List Lia Permutation Bool.
From Coq Require Import ZifyN ZifyNat ZifyBool.
From V Require Import Ssz.SszCore Beacon.Config Beacon.Spec.Helpers Beacon.Proofs.CommitteePartition.
From V Require Base.U64 Base.Outcome Shuffle.ShuffleModel Shuffle.ShuffleArith Shuffle.ShuffleIndexProofs
  Shuffle.ShuffleProofs.
Import ListNotations.
Local Open Scope N_scope.

(* the byte conversions of the two developments are the same functions *)
Lemma le_bytes_uint_to_bytes k v : le_bytes k v = ShuffleModel.uint_to_bytes k v.
Proof. revert v. induction k as [|k IH]; intros v; cbn; [reflexivity|]. rewrite IH. reflexivity. Qed.
Lemma le_value_bytes_to_uint bs : le_value bs = ShuffleModel.bytes_to_uint bs.
Proof. induction bs as [|b bs IH]; cbn; [reflexivity|]. rewrite IH. reflexivity. Qed.
Lemma bytes_to_uint64_firstn8 h : bytes_to_uint64 (firstn 8 h) = ShuffleModel.bytes_to_uint (firstn 8 h).
Proof. unfold bytes_to_uint64. rewrite firstn_firstn. cbn [Nat.min]. apply le_value_bytes_to_uint. Qed.

Lemma testbit_div_mod2 a k : N.testbit a k = negb ((a / 2 ^ k) mod 2 =? 0).
Proof.
  pose proof (N.testbit_spec' a k) as E. destruct (N.testbit a k); cbn [N.b2n] in E; rewrite <- E; reflexivity.
Qed.

Section Bridge.
  Variable E : Env.
  Variable seed : bytes.

  (* one round: C06's spec_round computes the step of Helpers.shuffle_rounds *)
  Lemma spec_round_is_helpers_step n i r : r < 256 -> i < n -> n <= ShuffleIndexProofs.spec_limit ->
    ShuffleModel.spec_round (Hash E) seed n i r =
    Some (let pivot := bytes_to_uint64 (firstn 8 (Hash E (seed ++ uint_to_bytes 1 r))) mod n in
          let flip := (pivot + n - i) mod n in
          let position := N.max i flip in
          let source := Hash E (seed ++ uint_to_bytes 1 r ++ uint_to_bytes 4 (position / 256)) in
          let byte := nth (N.to_nat ((position mod 256) / 8)) source 0 in
          if N.testbit byte (position mod 8) then flip else i).
  Proof.
    intros Hr Hi Hlim. unfold ShuffleIndexProofs.spec_limit in Hlim. unfold ShuffleModel.spec_round.
    destruct (N.leb_spec 256 r) as [Hc|_]; [lia|].
    unfold uint_to_bytes. rewrite bytes_to_uint64_firstn8. change le_bytes with ShuffleModel.uint_to_bytes.
    set (p := ShuffleModel.bytes_to_uint (firstn 8 (Hash E (seed ++ ShuffleModel.uint_to_bytes 1 r))) mod n).
    cbv zeta.
    assert (Hf : (p + n - i) mod n < n) by (apply N.mod_lt; lia).
    set (f := (p + n - i) mod n) in *.
    assert (Hpos : N.max i f < n) by lia. set (pos := N.max i f) in *.
    assert (Hblk : pos / 256 < 4294967296).
    { apply N.div_lt_upper_bound; [discriminate|]. lia. }
    destruct (N.leb_spec 4294967296 (pos / 256)) as [Hc|_]; [lia|].
    rewrite testbit_div_mod2. destruct (_ =? 0); reflexivity.
  Qed.

  Lemma helpers_step_lt n i (x : N) (b : bool) : i < n -> (if b then x mod n else i) < n.
  Proof. intros Hi. destruct b; [apply N.mod_lt; lia|exact Hi]. Qed.

  (* (1) all rounds *)
  Lemma fold_spec_round_is_shuffle_rounds n : n <= ShuffleIndexProofs.spec_limit ->
    forall k r i, (r + k <= 256)%nat -> i < n ->
    fold_left (fun acc cr => match acc with Some i => ShuffleModel.spec_round (Hash E) seed n i cr | None => None end)
              (map N.of_nat (seq r k)) (Some i)
    = Some (shuffle_rounds E k (N.of_nat r) i n seed).
  Proof.
    intros Hlim. induction k as [|k IH]; intros r i Hrk Hi; [reflexivity|].
    cbn [seq map fold_left shuffle_rounds].
    rewrite spec_round_is_helpers_step by (try assumption; lia).
    cbv zeta. replace (N.of_nat r + 1) with (N.of_nat (S r)) by lia.
    apply IH; [lia|]. apply helpers_step_lt. exact Hi.
  Qed.

  Theorem c06_spec_is_shuffle_rounds R i n : R <= 256 -> i < n -> n <= ShuffleIndexProofs.spec_limit ->
    ShuffleModel.compute_shuffled_index (Hash E) seed R i n = Some (shuffle_rounds E (N.to_nat R) 0 i n seed).
  Proof.
    intros HR Hi Hlim. unfold ShuffleModel.compute_shuffled_index.
    replace (i <? n) with true by (symmetry; apply N.ltb_lt; exact Hi).
    change 0 with (N.of_nat 0). apply fold_spec_round_is_shuffle_rounds; [exact Hlim|lia|exact Hi].
  Qed.
  (* the form asked for: whenever C06's spec function returns j, so does Helpers' *)
  Corollary shuffle_rounds_is_c06_spec R i n j : R <= 255 -> n <= ShuffleIndexProofs.spec_limit ->
    ShuffleModel.compute_shuffled_index (Hash E) seed R i n = Some j ->
    shuffle_rounds E (N.to_nat R) 0 i n seed = j.
  Proof.
    intros HR Hlim Hc.
    destruct (N.ltb_spec i n) as [Hi|Hi].
    - rewrite c06_spec_is_shuffle_rounds in Hc by (try assumption; lia). injection Hc as <-. reflexivity.
    - unfold ShuffleModel.compute_shuffled_index in Hc.
      replace (i <? n) with false in Hc by (symmetry; apply N.ltb_ge; exact Hi). discriminate.
  Qed.

  (* (2) Helpers' per-index shuffle is C06's proven permutation `perm` *)
  Hypothesis Hbytes : forall m, ShuffleArith.bytes_ok (Hash E m).

  Lemma shuffle_rounds_is_perm R i n : R <= 255 -> 0 < n -> n <= ShuffleIndexProofs.spec_limit -> i < n ->
    shuffle_rounds E (N.to_nat R) 0 i n seed = ShuffleIndexProofs.perm (Hash E) seed n R i.
  Proof.
    intros HR Hn Hlim Hi.
    destruct (ShuffleIndexProofs.permute_index_is_spec (Hash E) seed Hbytes R i n HR Hn Hlim Hi) as (j & Ej & Sj & _).
    assert (Hmax : n <= ShuffleIndexProofs.max_size)
      by (unfold ShuffleIndexProofs.spec_limit, ShuffleIndexProofs.max_size in *; lia).
    rewrite ShuffleIndexProofs.permute_index_eq in Ej by assumption. injection Ej as <-.
    apply shuffle_rounds_is_c06_spec; assumption.
  Qed.
End Bridge.

Lemma seqN_NoDup s len : NoDup (seqN s len).
Proof.
  revert s. induction len as [|k IH]; intros s; cbn; constructor; [|apply IH].
  rewrite in_seqN. lia.
Qed.
Lemma seqN_length s len : length (seqN s len) = len.
Proof. revert s. induction len as [|k IH]; intros s; cbn; [reflexivity|]. rewrite IH. reflexivity. Qed.

(* ---- Helpers' per-index shuffle is a bijection of [0,n): directly from C06's abstract swap-or-not lemmas
        (sw_lt, sw_invol hold for ANY pivot < n and ANY coin function), so no hypothesis on the hash, the round
        count or the size is needed ---- *)
Section HelpersBijection.
  Variable E : Env.
  Variable seed : bytes.

  Definition hpivot (n r : N) : N := bytes_to_uint64 (firstn 8 (Hash E (seed ++ uint_to_bytes 1 r))) mod n.
  Definition hcoin (r pos : N) : bool :=
    N.testbit (nth (N.to_nat ((pos mod 256) / 8)) (Hash E (seed ++ uint_to_bytes 1 r ++ uint_to_bytes 4 (pos / 256))) 0)
              (pos mod 8).

  Lemma shuffle_rounds_S k r i n :
    shuffle_rounds E (S k) r i n seed =
    shuffle_rounds E k (r + 1) (ShuffleIndexProofs.sw n (hpivot n r) (hcoin r) i) n seed.
  Proof. reflexivity. Qed.

  Lemma hpivot_lt n r : 0 < n -> hpivot n r < n.
  Proof. intros. unfold hpivot. apply N.mod_lt. lia. Qed.

  Lemma shuffle_rounds_lt k : forall r i n, i < n -> shuffle_rounds E k r i n seed < n.
  Proof.
    induction k as [|k IH]; intros r i n Hi; [exact Hi|].
    rewrite shuffle_rounds_S. apply IH. apply ShuffleIndexProofs.sw_lt; [apply hpivot_lt; lia|exact Hi].
  Qed.
  Lemma shuffle_rounds_inj k : forall r x y n, x < n -> y < n ->
    shuffle_rounds E k r x n seed = shuffle_rounds E k r y n seed -> x = y.
  Proof.
    induction k as [|k IH]; intros r x y n Hx Hy Exy; [exact Exy|].
    rewrite !shuffle_rounds_S in Exy.
    assert (Hp : hpivot n r < n) by (apply hpivot_lt; lia).
    apply IH in Exy; try (apply ShuffleIndexProofs.sw_lt; assumption).
    rewrite <- (ShuffleIndexProofs.sw_invol n (hpivot n r) (hcoin r) x Hp Hx).
    rewrite <- (ShuffleIndexProofs.sw_invol n (hpivot n r) (hcoin r) y Hp Hy).
    rewrite Exy. reflexivity.
  Qed.
End HelpersBijection.

Section Sigma.
  Variable E : Env.
  Variable idx : list N.
  Variable seed : bytes.
  Let n := N.of_nat (length idx).

  Theorem sigma_range_c06 : forall i, i < n -> sigma E idx seed i < n.
  Proof. intros i Hi. unfold sigma. apply shuffle_rounds_lt. exact Hi. Qed.

  Theorem sigma_perm_c06 : Permutation (map (sigma E idx seed) (seqN 0 (length idx))) (seqN 0 (length idx)).
  Proof.
    apply NoDup_Permutation_bis.
    - apply ShuffleProofs.NoDup_map_inj_on; [apply seqN_NoDup|].
      intros x y Hx Hy Exy. apply in_seqN in Hx. apply in_seqN in Hy. unfold sigma in Exy.
      apply shuffle_rounds_inj in Exy; [exact Exy|lia|lia].
    - rewrite map_length. apply Nat.le_refl.
    - intros y Hy. apply in_map_iff in Hy. destruct Hy as (x & <- & Hx). apply in_seqN in Hx.
      apply in_seqN. pose proof (sigma_range_c06 x ltac:(subst n; lia)). subst n. lia.
  Qed.

  (* (3) the committees of an epoch hold every active validator exactly once: no hypothesis on the shuffle,
         the hash, the round count or the size *)
  Theorem committees_partition_unconditional count : 0 < count ->
    exists comms, all_some (map (fun k => compute_committee E idx seed k count) (seqN 0 (N.to_nat count))) = Some comms /\
                  Permutation (concat comms) idx.
  Proof.
    apply (committees_partition E idx seed sigma_range_c06 sigma_perm_c06).
  Qed.

  (* and, within the spec's limits and for a hash returning bytes, sigma IS zrnt's PermuteIndex
     (C06: permute_index = Ok (perm ..)), i.e. the Go committees use the same permutation *)
  Theorem sigma_is_go_permute_index i :
    SHUFFLE_ROUND_COUNT (cfg E) <= 255 -> n <= ShuffleIndexProofs.spec_limit ->
    (forall m, ShuffleArith.bytes_ok (Hash E m)) -> i < n ->
    ShuffleModel.permute_index (Hash E) seed (SHUFFLE_ROUND_COUNT (cfg E)) i n = Outcome.Ok (sigma E idx seed i).
  Proof.
    intros HR Hlim Hb Hi. unfold sigma. fold n.
    rewrite (shuffle_rounds_is_perm E seed Hb) by (try assumption; lia).
    apply ShuffleIndexProofs.permute_index_eq; try assumption; try lia.
    unfold ShuffleIndexProofs.spec_limit, ShuffleIndexProofs.max_size in *. lia.
  Qed.
End Sigma.
