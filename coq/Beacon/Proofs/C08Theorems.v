(* C08 (and the slot-reach part of C02): finished theorems about the Spec under stable names.
   Every entry restates the full statement and is closed by [exact <lemma>]; the lemmas live in
   Frame.v, Lengths.v, Stability.v, EpcInv.v, EpochBoundary.v, ViewExt.v (all in Beacon/Proofs). *)
From Coq Require Import String NArith List Bool.
From V Require Import Ssz.SszCore Beacon.Config Beacon.Schemas Beacon.State
  Beacon.Spec.Helpers Beacon.Spec.Epoch Beacon.Spec.Block Beacon.Spec.Transition Beacon.Run.
From V Require Export Beacon.Proofs.ListFacts Beacon.Proofs.Frame Beacon.Proofs.Lengths Beacon.Proofs.Stability
  Beacon.Proofs.EpcInv Beacon.Proofs.EpochBoundary Beacon.Proofs.ViewExt Beacon.Proofs.SyncRotation.
Import ListNotations.
Local Open Scope N_scope.

(* ================= 1. frame: slot, genesis constants ================= *)
Theorem T_process_epoch_slot : forall E f st st', process_epoch E f st = Some st' -> slot st' = slot st.
Proof. exact process_epoch_slot. Qed.
Theorem T_process_block_slot : forall E f st blk st', process_block E f st blk = Some st' -> slot st' = slot st.
Proof. exact process_block_slot. Qed.
Theorem T_slot_step_slot : forall E f st f' st', slot_step E f st = Some (f', st') ->
  slot st' = slot st + 1 /\ genesis_time st' = genesis_time st /\ genesis_validators_root st' = genesis_validators_root st.
Proof. exact slot_step_slot. Qed.
Theorem T_process_block_genesis : forall E f st blk st', process_block E f st blk = Some st' ->
  genesis_time st' = genesis_time st /\ genesis_validators_root st' = genesis_validators_root st.
Proof. exact process_block_genesis. Qed.
Theorem T_process_epoch_genesis : forall E f st st', process_epoch E f st = Some st' ->
  genesis_time st' = genesis_time st /\ genesis_validators_root st' = genesis_validators_root st.
Proof. exact process_epoch_genesis. Qed.
Theorem T_process_slots_genesis : forall E f st t f' st', process_slots E f st t = Some (f', st') ->
  genesis_time st' = genesis_time st /\ genesis_validators_root st' = genesis_validators_root st.
Proof. exact process_slots_genesis. Qed.

(* every sub-transition of process_epoch keeps slot / genesis_time / genesis_validators_root (base_frame) *)
Theorem T_epoch_subtransitions_frame : forall E f st,
  (forall st', process_justification_and_finalization E f st = Some st' -> base_frame st st') /\
  (forall st', process_inactivity_updates E st = Some st' -> base_frame st st') /\
  (forall st', process_rewards_and_penalties E f st = Some st' -> base_frame st st') /\
  (forall st', process_registry_updates E f st = Some st' -> base_frame st st') /\
  base_frame st (process_slashings E f st) /\
  base_frame st (process_eth1_data_reset E st) /\
  base_frame st (process_effective_balance_updates E st) /\
  base_frame st (process_slashings_reset E st) /\
  base_frame st (process_randao_mixes_reset E st) /\
  base_frame st (process_historical_update E f st) /\
  base_frame st (process_participation_record_updates st) /\
  base_frame st (process_participation_flag_updates st) /\
  (forall st', process_sync_committee_updates E st = Some st' -> base_frame st st').
Proof.
  intros E f st. repeat match goal with |- _ /\ _ => split end; try (intros st' H); eauto 3 with bf nocore.
Qed.

(* every step of process_block keeps them too *)
Theorem T_block_operations_frame : forall E f st,
  (forall blk st', process_block_header E f st blk = Some st' -> base_frame st st') /\
  (forall body st', process_randao E f st body = Some st' -> base_frame st st') /\
  (forall body, base_frame st (process_eth1_data E f st body)) /\
  (forall op st', process_proposer_slashing E f st op = Some st' -> base_frame st st') /\
  (forall op st', process_attester_slashing E f st op = Some st' -> base_frame st st') /\
  (forall op st', process_attestation E f st op = Some st' -> base_frame st st') /\
  (forall op st', process_deposit E f st op = Some st' -> base_frame st st') /\
  (forall op st', process_voluntary_exit E f st op = Some st' -> base_frame st st') /\
  (forall op st', process_bls_to_execution_change E st op = Some st' -> base_frame st st') /\
  (forall body st', process_operations E f st body = Some st' -> base_frame st st') /\
  (forall sa st', process_sync_aggregate E st sa = Some st' -> base_frame st st') /\
  (forall p st', process_withdrawals E f st p = Some st' -> base_frame st st') /\
  (forall body st', process_execution_payload E f st body = Some st' -> base_frame st st').
Proof.
  intros E f st. repeat match goal with |- _ /\ _ => split end; intros; eauto 3 with bf nocore.
Qed.

(* ================= 2. process_slots: reaches its target, and composes (also serves C02) ================= *)
Theorem T_process_slots_reaches : forall E f st t f' st', process_slots E f st t = Some (f', st') -> slot st' = t.
Proof. exact process_slots_reaches. Qed.
Theorem T_process_slots_compose : forall E f st t t',
  slot st < t -> t < t' -> t' - slot st <= MAX_SLOTS_PER_CALL ->
  process_slots E f st t' =
  match process_slots E f st t with
  | Some (f1, st1) => process_slots E f1 st1 t'
  | None => None
  end.
Proof. exact process_slots_compose. Qed.
(* the loop itself composes without the per-call cap *)
Theorem T_slots_loop_compose : forall E n f st t t',
  n = N.to_nat (t - slot st) -> slot st <= t -> t <= t' ->
  slots_loop E (N.to_nat (t' - slot st)) f st t' =
  match slots_loop E n f st t with
  | Some (f1, st1) => slots_loop E (N.to_nat (t' - slot st1)) f1 st1 t'
  | None => None
  end.
Proof. exact slots_loop_compose. Qed.

(* ================= 3. the list-length invariant ================= *)
Theorem T_lengths_inv_process_epoch : forall E f st st', process_epoch E f st = Some st' -> lengths_inv f st -> lengths_inv f st'.
Proof. exact li_process_epoch. Qed.
Theorem T_lengths_inv_process_block : forall E f st blk st', process_block E f st blk = Some st' -> lengths_inv f st -> lengths_inv f st'.
Proof. exact li_process_block. Qed.
Theorem T_lengths_inv_slot_step : forall E f st f' st', slot_step E f st = Some (f', st') -> lengths_inv f st -> lengths_inv f' st'.
Proof. exact li_slot_step. Qed.
Theorem T_lengths_inv_process_slots : forall E f st t f' st', process_slots E f st t = Some (f', st') -> lengths_inv f st -> lengths_inv f' st'.
Proof. exact li_process_slots. Qed.
Theorem T_lengths_inv_state_transition : forall E f st bf sb v f' st',
  state_transition E f st bf sb v = Some (f', st') -> lengths_inv f st -> lengths_inv f' st'.
Proof. exact li_state_transition. Qed.

Theorem T_lengths_inv_genesis : forall E h t deps st,
  initialize_beacon_state_from_eth1 E h t deps = Some st -> lengths_inv Phase0 st.
Proof. exact li_genesis. Qed.

(* ================= 4. validator-field stability and the mix frame (blocks) ================= *)
Theorem T_vstable_refl : forall E ce vs, vstable E ce vs vs.
Proof. exact vstable_refl. Qed.
Theorem T_vstable_trans : forall E ce a b c, vstable E ce a b -> vstable E ce b c -> vstable E ce a c.
Proof. exact vstable_trans. Qed.
Theorem T_process_block_frame : forall E f st blk st', process_block E f st blk = Some st' -> block_frame E st st'.
Proof. exact process_block_frame. Qed.
Theorem T_process_block_vstable : forall E f st blk st', process_block E f st blk = Some st' ->
  vstable E (get_current_epoch E st) (validators st) (validators st').
Proof. exact process_block_vstable. Qed.
Theorem T_process_block_mixes : forall E f st blk st', process_block E f st blk = Some st' ->
  forall j, j <> get_current_epoch E st mod EPOCHS_PER_HISTORICAL_VECTOR (cfg E) ->
  nthN (randao_mixes st') j = nthN (randao_mixes st) j.
Proof. exact process_block_mixes. Qed.
Theorem T_block_operations_block_frame : forall E f st,
  (forall blk st', process_block_header E f st blk = Some st' -> block_frame E st st') /\
  (forall body st', process_randao E f st body = Some st' -> block_frame E st st') /\
  (forall body, block_frame E st (process_eth1_data E f st body)) /\
  (forall op st', process_proposer_slashing E f st op = Some st' -> block_frame E st st') /\
  (forall op st', process_attester_slashing E f st op = Some st' -> block_frame E st st') /\
  (forall op st', process_attestation E f st op = Some st' -> block_frame E st st') /\
  (forall op st', process_deposit E f st op = Some st' -> block_frame E st st') /\
  (forall op st', process_voluntary_exit E f st op = Some st' -> block_frame E st st') /\
  (forall op st', process_bls_to_execution_change E st op = Some st' -> block_frame E st st') /\
  (forall body st', process_operations E f st body = Some st' -> block_frame E st st') /\
  (forall sa st', process_sync_aggregate E st sa = Some st' -> block_frame E st st') /\
  (forall p st', process_withdrawals E f st p = Some st' -> block_frame E st st') /\
  (forall body st', process_execution_payload E f st body = Some st' -> block_frame E st st') /\
  (forall i w st', slash_validator E f st i w = Some st' -> block_frame E st st') /\
  (forall i st', initiate_validator_exit E st i = Some st' -> block_frame E st st').
Proof.
  intros E f st. repeat match goal with |- _ /\ _ => split end; intros; eauto 3 with bk nocore.
Qed.

(* ================= 5. the invariance theorems (blocks) ================= *)
Theorem T_get_seed_block_stable : forall E st st' e dt,
  Config_wf (cfg E) -> block_frame E st st' ->
  get_current_epoch E st <= e + 1 -> e <= get_current_epoch E st + 1 ->
  get_seed E st' e dt = get_seed E st e dt.
Proof. exact get_seed_block_stable. Qed.
Theorem T_active_indices_block_stable : forall E st st' e,
  Config_wf (cfg E) -> block_frame E st st' ->
  e <= get_current_epoch E st + 1 -> get_current_epoch E st + 1 < FAR_FUTURE_EPOCH ->
  get_active_validator_indices st' e = get_active_validator_indices st e.
Proof. exact active_indices_block_stable. Qed.
Theorem T_beacon_committee_block_stable : forall E st st' s i,
  Config_wf (cfg E) -> block_frame E st st' ->
  get_current_epoch E st <= compute_epoch_at_slot E s + 1 -> compute_epoch_at_slot E s <= get_current_epoch E st + 1 ->
  get_current_epoch E st + 1 < FAR_FUTURE_EPOCH ->
  get_beacon_committee E st' s i = get_beacon_committee E st s i.
Proof. exact beacon_committee_block_stable. Qed.
Theorem T_committees_of_epoch_block_stable : forall E st st' e,
  Config_wf (cfg E) -> block_frame E st st' ->
  get_current_epoch E st <= e + 1 -> e <= get_current_epoch E st + 1 -> get_current_epoch E st + 1 < FAR_FUTURE_EPOCH ->
  committees_of_epoch E st' e = committees_of_epoch E st e.
Proof. exact committees_of_epoch_block_stable. Qed.
Theorem T_proposer_block_stable : forall E st st' s,
  Config_wf (cfg E) -> block_frame E st st' -> get_current_epoch E st + 1 < FAR_FUTURE_EPOCH ->
  proposer_at E st' s = proposer_at E st s.
Proof. exact proposer_block_stable. Qed.
Theorem T_effective_balances_block_stable : forall E st st', block_frame E st st' ->
  map v_effective_balance (validators st') =
  map v_effective_balance (validators st) ++ map v_effective_balance (skipn (length (validators st)) (validators st')).
Proof. exact effective_balances_block_stable. Qed.
Theorem T_total_active_balance_block_stable : forall E st st',
  Config_wf (cfg E) -> block_frame E st st' -> get_current_epoch E st + 1 < FAR_FUTURE_EPOCH ->
  get_total_active_balance E st' = get_total_active_balance E st.
Proof. exact total_active_balance_block_stable. Qed.
Theorem T_sync_indices_block_stable : forall E st st' sc l, block_frame E st st' ->
  sync_indices_of st sc = Some l -> sync_indices_of st' sc = Some l.
Proof. exact sync_indices_block_stable. Qed.
Theorem T_pubkeys_block_stable : forall E st st', block_frame E st st' ->
  map v_pubkey (validators st') =
  map v_pubkey (validators st) ++ map v_pubkey (skipn (length (validators st)) (validators st')).
Proof. exact pubkeys_block_stable. Qed.
Theorem T_epc_view_block_stable : forall E f st blk st',
  Config_wf (cfg E) -> get_current_epoch E st + 1 < FAR_FUTURE_EPOCH ->
  process_block E f st blk = Some st' ->
  epc_view_extends (spec_epc_view E f st) (spec_epc_view E f st')
                   (map v_effective_balance (skipn (length (validators st)) (validators st'))).
Proof. exact epc_view_block_stable. Qed.

(* ================= 6. slots and the epoch boundary ================= *)
Theorem T_epc_view_ext : forall E f st st',
  get_current_epoch E st' = get_current_epoch E st ->
  validators st' = validators st -> randao_mixes st' = randao_mixes st ->
  current_sync_committee st' = current_sync_committee st -> next_sync_committee st' = next_sync_committee st ->
  spec_epc_view E f st' = spec_epc_view E f st.
Proof. exact epc_view_ext. Qed.
Theorem T_epc_view_slot_stable : forall E f st f' st',
  0 < SLOTS_PER_EPOCH (cfg E) -> (slot st + 1) mod SLOTS_PER_EPOCH (cfg E) <> 0 ->
  slot_step E f st = Some (f', st') ->
  f' = f /\ spec_epc_view E f st' = spec_epc_view E f st.
Proof. exact epc_view_slot_stable. Qed.
Theorem T_process_epoch_frame : forall E f st st', lengths_inv f st -> process_epoch E f st = Some st' -> epoch_frame E st st'.
Proof. exact process_epoch_frame. Qed.
Theorem T_slot_step_frame : forall E f st f' st', lengths_inv f st -> slot_step E f st = Some (f', st') ->
  step_frame E (get_current_epoch E st) st st'.
Proof. exact slot_step_frame. Qed.
Theorem T_rotate_matches : forall E f st f' st',
  Config_wf (cfg E) -> lengths_inv f st -> get_current_epoch E st + 1 < FAR_FUTURE_EPOCH ->
  (slot st + 1) mod SLOTS_PER_EPOCH (cfg E) = 0 ->
  slot_step E f st = Some (f', st') ->
  let e := get_current_epoch E st in
  get_current_epoch E st' = e + 1 /\ get_previous_epoch E st' = e /\
  get_active_validator_indices st' e = get_active_validator_indices st e /\
  get_active_validator_indices st' (e + 1) = get_active_validator_indices st (e + 1) /\
  committees_of_epoch E st' e = committees_of_epoch E st e /\
  committees_of_epoch E st' (e + 1) = committees_of_epoch E st (e + 1) /\
  (forall s i, e <= compute_epoch_at_slot E s -> compute_epoch_at_slot E s <= e + 1 ->
     get_beacon_committee E st' s i = get_beacon_committee E st s i).
Proof. exact rotate_matches. Qed.

(* ================= 7. sync committees across process_epoch ================= *)
Theorem T_process_epoch_sync : forall E f st st', process_epoch E f st = Some st' ->
  match f with
  | Phase0 => current_sync_committee st' = current_sync_committee st /\ next_sync_committee st' = next_sync_committee st
  | _ =>
      if (get_current_epoch E st + 1) mod EPOCHS_PER_SYNC_COMMITTEE_PERIOD (cfg E) =? 0
      then current_sync_committee st' = next_sync_committee st /\
           exists pre, sc_same st pre /\ get_next_sync_committee E pre = Some (next_sync_committee st')
      else current_sync_committee st' = current_sync_committee st /\ next_sync_committee st' = next_sync_committee st
  end.
Proof. exact process_epoch_sync. Qed.
