(* C07: the committee slicing arithmetic of compute_committee partitions the index range. *)
From Coq Require Import NArith ZArith List Lia Permutation.
From Coq Require Import ZifyN ZifyNat ZifyBool.
From V Require Import Beacon.Spec.Helpers.
Import ListNotations.
Local Open Scope N_scope.
Ltac Zify.zify_post_hook ::= Z.div_mod_to_equations.

Definition slice_start (n count i : N) : N := n * i / count.

Lemma slice_mono n count i : 0 < count -> slice_start n count i <= slice_start n count (i + 1).
Proof. intros Hc. unfold slice_start. apply N.div_le_mono; lia. Qed.
Lemma slice_0 n count : 0 < count -> slice_start n count 0 = 0.
Proof. intros Hc. unfold slice_start. rewrite N.mul_0_r. apply N.div_0_l. lia. Qed.
Lemma slice_end n count : 0 < count -> slice_start n count count = n.
Proof. intros Hc. unfold slice_start. apply N.div_mul. lia. Qed.

Lemma seqN_length s len : length (seqN s len) = len.
Proof. revert s; induction len as [|k IH]; intros s; simpl; [reflexivity|]. now rewrite IH. Qed.
Lemma seqN_app s a b : seqN s (a + b) = seqN s a ++ seqN (s + N.of_nat a) b.
Proof.
  revert s; induction a as [|a IH]; intros s; simpl.
  - f_equal. lia.
  - f_equal. rewrite IH. f_equal. f_equal. lia.
Qed.

(* consecutive slices [start i, start (i+1)) for i = k .. k+m-1 concatenate to one interval *)
Lemma slices_concat n count : 0 < count -> forall m k,
  concat (map (fun i => seqN (slice_start n count i) (N.to_nat (slice_start n count (i + 1) - slice_start n count i)))
              (seqN k m))
  = seqN (slice_start n count k) (N.to_nat (slice_start n count (k + N.of_nat m) - slice_start n count k)).
Proof.
  intros Hc m. induction m as [|m IH]; intros k.
  - simpl. replace (k + 0) with k by lia. now rewrite N.sub_diag.
  - cbn [seqN map concat]. rewrite IH.
    pose proof (slice_mono n count k Hc) as H1.
    assert (H2 : slice_start n count (k + 1) <= slice_start n count (k + 1 + N.of_nat m)).
    { unfold slice_start. apply N.div_le_mono; lia. }
    replace (k + N.of_nat (S m)) with (k + 1 + N.of_nat m) by lia.
    set (a := slice_start n count k) in *. set (b := slice_start n count (k + 1)) in *.
    set (d := slice_start n count (k + 1 + N.of_nat m)) in *.
    replace (N.to_nat (d - a)) with (N.to_nat (b - a) + N.to_nat (d - b))%nat by lia.
    rewrite seqN_app. f_equal. f_equal. lia.
Qed.

(* all `count` committees' index slices, concatenated, are exactly 0 .. n-1 in order *)
Theorem committee_slices_partition n count : 0 < count ->
  concat (map (fun i => seqN (slice_start n count i) (N.to_nat (slice_start n count (i + 1) - slice_start n count i)))
              (seqN 0 (N.to_nat count)))
  = seqN 0 (N.to_nat n).
Proof.
  intros Hc. rewrite slices_concat by exact Hc.
  rewrite slice_0 by exact Hc. rewrite N.add_0_l, Nnat.N2Nat.id, slice_end by exact Hc.
  now rewrite N.sub_0_r.
Qed.

(* sizes follow the spec formula and differ by at most one *)
Theorem committee_size_bounds n count i : 0 < count -> i < count ->
  let sz := slice_start n count (i + 1) - slice_start n count i in
  n / count <= sz <= n / count + 1.
Proof.
  intros Hc Hi sz. unfold sz, slice_start.
  assert (Hm : slice_start n count i <= slice_start n count (i+1)) by (apply slice_mono; exact Hc).
  unfold slice_start in Hm. nia.
Qed.
