(* C13: zrnt builds the genesis deposit root from an incrementally grown list of deposit-data ROOTS
   (DepositRootsView = List[Root, 2^32]); the spec hashes List[DepositData, 2^32].  They are the same root. *)
From Coq Require Import String.
From Coq Require Import NArith List Lia Bool.
From V Require Import Ssz.SszCore Beacon.Config Beacon.Schemas Beacon.State Beacon.Spec.Helpers Beacon.Spec.Transition.
Import ListNotations.
Local Open Scope N_scope.

Section Genesis.
  Variable H : bytes -> bytes.
  Variable zh : nat -> bytes.
  Notation htr := (hash_tree_root H zh).

  Lemma chunks_of_one (bs : bytes) : length bs = 32%nat -> chunks_of 32 32 bs = [bs].
  Proof.
    intros L. destruct bs as [|b bs]; [discriminate|].
    change (chunks_of 32 32 (b :: bs)) with (firstn 32 (b :: bs) :: chunks_of 31 32 (skipn 32 (b :: bs))).
    rewrite firstn_all2 by lia. rewrite skipn_all2 by lia. reflexivity.
  Qed.

  Lemma htr_bytes32 (bs : bytes) : length bs = 32%nat -> htr (TByteVector 32) (VBytes bs) = bs.
  Proof.
    intros L. cbn [hash_tree_root]. unfold merkleize, pack_bytes, pad32. rewrite L.
    change (Nat.modulo 32 32) with 0%nat. cbn [Nat.eqb]. rewrite L.
    rewrite chunks_of_one by exact L. reflexivity.
  Qed.

  Theorem deposit_roots_list_eq (limit : N) (ds : list value) :
    (forall d, length (htr DepositDataT d) = 32%nat) ->
    htr (TList DepositDataT limit) (VSeq ds) =
    htr (TList (TByteVector 32) limit) (VSeq (map (fun d => VBytes (htr DepositDataT d)) ds)).
  Proof.
    intros Hlen.
    change (htr (TList DepositDataT limit) (VSeq ds))
      with (mix_in_length H (merkleize H zh (map (htr DepositDataT) ds) limit) (len_N ds)).
    change (htr (TList (TByteVector 32) limit) (VSeq (map (fun d => VBytes (htr DepositDataT d)) ds)))
      with (mix_in_length H (merkleize H zh (map (htr (TByteVector 32)) (map (fun d => VBytes (htr DepositDataT d)) ds)) limit)
                          (len_N (map (fun d => VBytes (htr DepositDataT d)) ds))).
    unfold len_N. rewrite map_length. rewrite map_map. f_equal. f_equal.
    apply map_ext. intros d. symmetry. apply htr_bytes32. apply Hlen.
  Qed.
End Genesis.

(* is_valid_genesis_state is exactly the spec's two conditions *)
Theorem valid_genesis_iff (E : Env) (st : BeaconState) :
  is_valid_genesis_state E st = true <->
  (MIN_GENESIS_TIME (cfg E) <= genesis_time st /\
   MIN_GENESIS_ACTIVE_VALIDATOR_COUNT (cfg E) <= N.of_nat (length (get_active_validator_indices st GENESIS_EPOCH))).
Proof.
  unfold is_valid_genesis_state. rewrite andb_true_iff, !N.leb_le. reflexivity.
Qed.
