(* C08: sync committees across the epoch boundary.  Nothing in process_epoch touches the two sync committees except
   process_sync_committee_updates, which at a period boundary moves next to current (zrnt: the epochs context
   rotates its sync-committee index caches the same way). *)
From Coq Require Import String NArith ZArith List Bool Lia.
From Coq Require Import ZifyN ZifyNat ZifyBool.
From RecordUpdate Require Import RecordSet.
From V Require Import Ssz.SszCore Beacon.Config Beacon.Schemas Beacon.State
  Beacon.Spec.Helpers Beacon.Spec.Epoch Beacon.Spec.Block Beacon.Spec.Transition Beacon.Run
  Beacon.Proofs.ListFacts Beacon.Proofs.Frame.
Import ListNotations RecordSetNotations.
Local Open Scope N_scope.

Lemma some_inj {A} (x y : A) : Some x = Some y -> x = y.
Proof. intros H. injection H as ->. reflexivity. Qed.

Definition sc_same (st st' : BeaconState) : Prop :=
  slot st' = slot st /\ current_sync_committee st' = current_sync_committee st /\ next_sync_committee st' = next_sync_committee st.
Lemma sc_refl st : sc_same st st.
Proof. repeat split. Qed.
Lemma sc_trans a b c : sc_same a b -> sc_same b c -> sc_same a c.
Proof. intros (H1 & H2 & H3) (H4 & H5 & H6). repeat split; congruence. Qed.
Lemma sc_step a b c : sc_same b c -> sc_same a b -> sc_same a c.
Proof. intros H1 H2. exact (sc_trans a b c H2 H1). Qed.
Ltac sc_set_tac := repeat split; reflexivity.
Create HintDb sc discriminated.
#[export] Hint Resolve sc_refl : sc.
#[export] Hint Extern 2 (sc_same _ (set _ _ ?t)) => (apply (sc_step _ t); [sc_set_tac|]) : sc.
#[export] Hint Extern 3 (sc_same _ (if ?c then _ else _)) => destruct c : sc.
#[export] Hint Extern 4 (sc_same _ (match ?x with _ => _ end)) => destruct x : sc.
Ltac sc := eauto 400 with sc nocore.
Ltac sc_opt F := intros; match goal with H : _ = Some _ |- _ => unfold F in H; cbv beta zeta in H end; inv_all; sc.
Ltac sc_fun F := intros; unfold F; cbv beta zeta; sc.

Lemma sc_increase_balance s st i d : sc_same s st -> sc_same s (increase_balance st i d).
Proof. sc_fun increase_balance. Qed.
Lemma sc_decrease_balance s st i d : sc_same s st -> sc_same s (decrease_balance st i d).
Proof. sc_fun decrease_balance. Qed.
#[export] Hint Resolve sc_increase_balance sc_decrease_balance : sc.
Lemma sc_initiate_validator_exit E s st i st' : initiate_validator_exit E st i = Some st' -> sc_same s st -> sc_same s st'.
Proof. sc_opt initiate_validator_exit. Qed.
#[export] Hint Resolve sc_initiate_validator_exit : sc.
Lemma sc_weigh E s st a b c st' : weigh_justification_and_finalization E st a b c = Some st' -> sc_same s st -> sc_same s st'.
Proof. sc_opt weigh_justification_and_finalization. Qed.
#[export] Hint Resolve sc_weigh : sc.
Lemma sc_process_justification_and_finalization E f s st st' :
  process_justification_and_finalization E f st = Some st' -> sc_same s st -> sc_same s st'.
Proof. sc_opt process_justification_and_finalization. Qed.
Lemma sc_process_inactivity_updates E s st st' : process_inactivity_updates E st = Some st' -> sc_same s st -> sc_same s st'.
Proof. sc_opt process_inactivity_updates. Qed.
Lemma sc_apply_deltas s st d : sc_same s st -> sc_same s (apply_deltas st d).
Proof. sc_fun apply_deltas. Qed.
#[export] Hint Resolve sc_process_justification_and_finalization sc_process_inactivity_updates sc_apply_deltas : sc.
Lemma sc_process_rewards_and_penalties E f s st st' : process_rewards_and_penalties E f st = Some st' -> sc_same s st -> sc_same s st'.
Proof. sc_opt process_rewards_and_penalties. Qed.
#[export] Hint Resolve sc_process_rewards_and_penalties : sc.
Lemma sc_process_registry_updates E f s st st' : process_registry_updates E f st = Some st' -> sc_same s st -> sc_same s st'.
Proof.
  intros H Hs. unfold process_registry_updates in H. cbv beta zeta in H.
  inv_step H. apply (fold_opt_pres sc_same sc_refl sc_trans) in Hx.
  - inv_step H. apply (sc_trans s b); [apply (sc_trans s st); assumption|].
    apply (fold_pres sc_same sc_refl sc_trans). intros x a. sc.
  - intros x a x' Hf. inv_all; sc.
Qed.
#[export] Hint Resolve sc_process_registry_updates : sc.
Lemma sc_process_slashings E f s st : sc_same s st -> sc_same s (process_slashings E f st).
Proof.
  intros Hs. unfold process_slashings. cbv beta zeta. apply (sc_trans s st); [assumption|].
  apply (fold_pres sc_same sc_refl sc_trans). intros x [? ?]. sc.
Qed.
Lemma sc_process_eth1_data_reset E s st : sc_same s st -> sc_same s (process_eth1_data_reset E st).
Proof. sc_fun process_eth1_data_reset. Qed.
Lemma sc_process_effective_balance_updates E s st : sc_same s st -> sc_same s (process_effective_balance_updates E st).
Proof. sc_fun process_effective_balance_updates. Qed.
Lemma sc_process_slashings_reset E s st : sc_same s st -> sc_same s (process_slashings_reset E st).
Proof. sc_fun process_slashings_reset. Qed.
Lemma sc_process_randao_mixes_reset E s st : sc_same s st -> sc_same s (process_randao_mixes_reset E st).
Proof. sc_fun process_randao_mixes_reset. Qed.
Lemma sc_process_historical_update E f s st : sc_same s st -> sc_same s (process_historical_update E f st).
Proof. sc_fun process_historical_update. Qed.
Lemma sc_process_participation_record_updates s st : sc_same s st -> sc_same s (process_participation_record_updates st).
Proof. sc_fun process_participation_record_updates. Qed.
Lemma sc_process_participation_flag_updates s st : sc_same s st -> sc_same s (process_participation_flag_updates st).
Proof. sc_fun process_participation_flag_updates. Qed.
#[export] Hint Resolve sc_process_slashings sc_process_eth1_data_reset sc_process_effective_balance_updates
  sc_process_slashings_reset sc_process_randao_mixes_reset sc_process_historical_update
  sc_process_participation_record_updates sc_process_participation_flag_updates : sc.

(* the state on which process_epoch runs its last step *)
Definition pre_sync_state (E : Env) (f : fork) (st1 : BeaconState) : BeaconState :=
  process_participation_flag_updates
    (process_historical_update E f (process_randao_mixes_reset E (process_slashings_reset E
       (process_effective_balance_updates E (process_eth1_data_reset E (process_slashings E f st1)))))).

Lemma sc_same_epoch E a b : sc_same a b -> get_current_epoch E b = get_current_epoch E a.
Proof. intros (H & _). unfold get_current_epoch. rewrite H. reflexivity. Qed.

Lemma sync_updates_spec E pre st' : process_sync_committee_updates E pre = Some st' ->
  if (get_current_epoch E pre + 1) mod EPOCHS_PER_SYNC_COMMITTEE_PERIOD (cfg E) =? 0
  then current_sync_committee st' = next_sync_committee pre /\ get_next_sync_committee E pre = Some (next_sync_committee st')
  else st' = pre.
Proof.
  intros H. unfold process_sync_committee_updates in H. cbv beta zeta in H.
  destruct (_ =? 0).
  - inv_step H. apply some_inj in H. rewrite <- H. cbn [set current_sync_committee next_sync_committee]. split; first [assumption|reflexivity|congruence].
  - apply some_inj in H. symmetry. exact H.
Qed.

Theorem process_epoch_sync E f st st' : process_epoch E f st = Some st' ->
  match f with
  | Phase0 => current_sync_committee st' = current_sync_committee st /\ next_sync_committee st' = next_sync_committee st
  | _ =>
      if (get_current_epoch E st + 1) mod EPOCHS_PER_SYNC_COMMITTEE_PERIOD (cfg E) =? 0
      then current_sync_committee st' = next_sync_committee st /\
           exists pre, sc_same st pre /\ get_next_sync_committee E pre = Some (next_sync_committee st')
      else current_sync_committee st' = current_sync_committee st /\ next_sync_committee st' = next_sync_committee st
  end.
Proof.
  intros H. unfold process_epoch in H. cbv beta zeta in H. do 4 inv_step H.
  assert (H2 : sc_same st b2).
  { eapply sc_process_registry_updates; [eassumption|]. eapply sc_process_rewards_and_penalties; [eassumption|].
    destruct f; inv_all;
      try (eapply sc_process_inactivity_updates; [eassumption|]);
      (eapply sc_process_justification_and_finalization; [eassumption|apply sc_refl]). }
  assert (H3 : sc_same st (process_historical_update E f (process_randao_mixes_reset E (process_slashings_reset E
                 (process_effective_balance_updates E (process_eth1_data_reset E (process_slashings E f b2))))))) by sc.
  destruct f.
  1: { apply some_inj in H. rewrite <- H. apply sc_process_participation_record_updates in H3.
       destruct H3 as (_ & H4 & H5). split; assumption. }
  all: apply sc_process_participation_flag_updates in H3; apply sync_updates_spec in H;
    rewrite (sc_same_epoch E _ _ H3) in H; destruct H3 as (H3a & H3b & H3c);
    destruct (_ =? 0);
    [ destruct H as [Ha Hb]; split; [rewrite Ha; exact H3c|]; eexists; split; [|exact Hb]; repeat split; assumption
    | rewrite H; split; assumption ].
Qed.
