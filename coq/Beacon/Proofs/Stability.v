(* C08: what a block may do to the registry, the randao mixes and the sync committees.
   [vstable]: the registry only grows, old validators keep pubkey / effective balance / activation epochs, and an
   exit epoch can only move from FAR_FUTURE_EPOCH to at least compute_activation_exit_epoch(current epoch).
   [block_frame]: vstable + "randao_mixes changes only at index current_epoch mod EPOCHS_PER_HISTORICAL_VECTOR"
   + fork record and sync committees untouched; proved for process_block and every operation, every fork. *)
From Coq Require Import String NArith List Bool Lia.
From Coq Require Import ZifyN ZifyNat ZifyBool.
From RecordUpdate Require Import RecordSet.
From V Require Import Ssz.SszCore Beacon.Config Beacon.Schemas Beacon.State
  Beacon.Spec.Helpers Beacon.Spec.Epoch Beacon.Spec.Block Beacon.Spec.Transition
  Beacon.Proofs.ListFacts Beacon.Proofs.Frame.
Import ListNotations RecordSetNotations.
Local Open Scope N_scope.

(* ---------- the validator-field frame ---------- *)
Definition vkeep (E : Env) (ce : N) (v v' : Validator) : Prop :=
  v_pubkey v' = v_pubkey v /\
  v_effective_balance v' = v_effective_balance v /\
  v_activation_eligibility_epoch v' = v_activation_eligibility_epoch v /\
  v_activation_epoch v' = v_activation_epoch v /\
  (v_exit_epoch v' = v_exit_epoch v \/
   (v_exit_epoch v = FAR_FUTURE_EPOCH /\ compute_activation_exit_epoch E ce <= v_exit_epoch v')).
(* a validator as created by get_validator_from_deposit: not yet eligible, not yet activated *)
Definition vnew (v : Validator) : Prop :=
  v_activation_eligibility_epoch v = FAR_FUTURE_EPOCH /\ v_activation_epoch v = FAR_FUTURE_EPOCH.
Definition vstable (E : Env) (ce : N) (vs vs' : list Validator) : Prop :=
  exists old' new, vs' = old' ++ new /\ Forall2 (vkeep E ce) vs old' /\ Forall vnew new.

Lemma vkeep_refl E ce v : vkeep E ce v v.
Proof. unfold vkeep. tauto. Qed.
Lemma vkeep_trans E ce a b c : vkeep E ce a b -> vkeep E ce b c -> vkeep E ce a c.
Proof.
  unfold vkeep. intros (H1 & H2 & H3 & H4 & H5) (H6 & H7 & H8 & H9 & H10).
  repeat split; try congruence.
  destruct H5 as [H5|[H5 H5']], H10 as [H10|[H10 H10']].
  - left. congruence.
  - right. split; [congruence|assumption].
  - right. split; [assumption|]. rewrite H10. assumption.
  - right. split; assumption.
Qed.
Lemma vkeep_vnew E ce v v' : vkeep E ce v v' -> vnew v -> vnew v'.
Proof. unfold vkeep, vnew. intros (_ & _ & H3 & H4 & _) (H5 & H6). split; congruence. Qed.

Theorem vstable_refl E ce vs : vstable E ce vs vs.
Proof. exists vs, []. rewrite app_nil_r. repeat split; [|constructor]. apply lf_Forall2_refl, vkeep_refl. Qed.
Theorem vstable_trans E ce a b c : vstable E ce a b -> vstable E ce b c -> vstable E ce a c.
Proof.
  intros (o1 & n1 & -> & F1 & N1) (o2 & n2 & -> & F2 & N2).
  apply Forall2_app_inv_l in F2. destruct F2 as (o2a & o2b & F2a & F2b & ->).
  exists o2a, (o2b ++ n2). rewrite app_assoc. repeat split.
  - eapply lf_Forall2_trans; [apply vkeep_trans|eassumption|eassumption].
  - apply Forall_app. split; [|assumption].
    clear - F2b N1. induction F2b; constructor.
    + inversion N1; subst. eapply vkeep_vnew; eassumption.
    + apply IHF2b. inversion N1; assumption.
Qed.
Lemma vstable_updN E ce vs i g :
  (forall v, nthN vs i = Some v -> vkeep E ce v (g v)) -> vstable E ce vs (updN vs i g).
Proof.
  intros H. exists (updN vs i g), []. rewrite app_nil_r. repeat split; [|constructor].
  apply lf_Forall2_updN; [apply vkeep_refl|exact H].
Qed.
Lemma vstable_app E ce vs v : vnew v -> vstable E ce vs (vs ++ [v]).
Proof.
  intros H. exists vs, [v]. repeat split; [apply lf_Forall2_refl, vkeep_refl|]. constructor; [exact H|constructor].
Qed.

(* ---------- the block frame ---------- *)
Record block_frame (E : Env) (st st' : BeaconState) : Prop := mkBlockFrame {
  bk_base : base_frame st st';
  bk_fork : fork_rec st' = fork_rec st;
  bk_vals : vstable E (get_current_epoch E st) (validators st) (validators st');
  bk_mixes : forall j, j <> get_current_epoch E st mod EPOCHS_PER_HISTORICAL_VECTOR (cfg E) ->
               nthN (randao_mixes st') j = nthN (randao_mixes st) j;
  bk_sync_cur : current_sync_committee st' = current_sync_committee st;
  bk_sync_next : next_sync_committee st' = next_sync_committee st;
  bk_finalized : finalized_checkpoint st' = finalized_checkpoint st
}.

Lemma bk_refl E st : block_frame E st st.
Proof. constructor; try reflexivity; [apply bf_refl|apply vstable_refl]. Qed.
Lemma bk_epoch E a b : block_frame E a b -> get_current_epoch E b = get_current_epoch E a.
Proof. intros [[Hs _] _ _ _ _ _ _]. unfold get_current_epoch. now rewrite Hs. Qed.
Lemma bk_trans E a b c : block_frame E a b -> block_frame E b c -> block_frame E a c.
Proof.
  intros Hab Hbc. pose proof (bk_epoch E a b Hab) as He.
  destruct Hab as [A1 A2 A3 A4 A5 A6 A7], Hbc as [B1 B2 B3 B4 B5 B6 B7]. rewrite He in *.
  constructor; try congruence.
  - eapply bf_trans; eassumption.
  - eapply vstable_trans; eassumption.
  - intros j Hj. rewrite B4, A4 by assumption. reflexivity.
Qed.
Lemma bk_step E a b c : block_frame E b c -> block_frame E a b -> block_frame E a c.
Proof. intros H1 H2. exact (bk_trans E a b c H2 H1). Qed.

(* updating one registry entry by a vkeep-function *)
Lemma bk_set_validators_updN E st i g :
  (forall v, nthN (validators st) i = Some v -> vkeep E (get_current_epoch E st) v (g v)) ->
  block_frame E st (st <| validators := updN (validators st) i g |>).
Proof.
  intros H. constructor; try reflexivity; [bf_set_tac|].
  cbn [set validators]. apply vstable_updN. exact H.
Qed.

Ltac vkeep_tac := intros; unfold vkeep; cbn [set v_pubkey v_effective_balance v_activation_eligibility_epoch v_activation_epoch v_exit_epoch];
  repeat split; left; reflexivity.
Ltac bk_set_tac :=
  first [ constructor; [bf_set_tac | reflexivity | exact (vstable_refl _ _ _) | intros; reflexivity | reflexivity | reflexivity | reflexivity]
        | apply bk_set_validators_updN; vkeep_tac ].

Create HintDb bk discriminated.
#[export] Hint Resolve bk_refl : bk.
#[export] Hint Extern 2 (block_frame _ _ (set _ _ ?t)) => (apply (bk_step _ _ t); [bk_set_tac|]) : bk.
#[export] Hint Extern 3 (block_frame _ _ (if ?c then _ else _)) => destruct c : bk.
#[export] Hint Extern 4 (block_frame _ _ (match ?x with _ => _ end)) => destruct x : bk.
Ltac bk := eauto 40 with bk nocore.
Ltac bk_opt F := intros; match goal with H : _ = Some _ |- _ => unfold F in H; cbv beta zeta in H end; inv_all; bk.
Ltac bk_fun F := intros; unfold F; cbv beta zeta; bk.

(* ---------- Helpers.v ---------- *)
Lemma bk_increase_balance E s st i d : block_frame E s st -> block_frame E s (increase_balance st i d).
Proof. bk_fun increase_balance. Qed.
Lemma bk_decrease_balance E s st i d : block_frame E s st -> block_frame E s (decrease_balance st i d).
Proof. bk_fun decrease_balance. Qed.
#[export] Hint Resolve bk_increase_balance bk_decrease_balance : bk.

Lemma maxl_ge_d l : forall d, d <= maxl l d.
Proof. induction l as [|x l IH]; intros d; simpl; [lia|]. specialize (IH (N.max x d)). lia. Qed.

Lemma bk_initiate_validator_exit E s st i st' :
  initiate_validator_exit E st i = Some st' -> block_frame E s st -> block_frame E s st'.
Proof.
  intros H Hs. unfold initiate_validator_exit in H. cbv beta zeta in H. inv_step H.
  destruct (v_exit_epoch v =? FAR_FUTURE_EPOCH) eqn:Hfar; cbn [negb] in H; inv_all; [|assumption].
  apply (bk_step E s st); [|assumption]. apply bk_set_validators_updN.
  intros v0 Hv0. assert (v0 = v) by congruence. subst v0.
  unfold vkeep. cbn [set v_pubkey v_effective_balance v_activation_eligibility_epoch v_activation_epoch v_exit_epoch].
  repeat split. right. split; [lia|].
  match goal with |- _ <= (if _ then ?q + 1 else ?q) => assert (compute_activation_exit_epoch E (get_current_epoch E st) <= q) by apply maxl_ge_d end.
  destruct (_ <=? _); lia.
Qed.
#[export] Hint Resolve bk_initiate_validator_exit : bk.
Lemma bk_slash_validator E f s st i w st' :
  slash_validator E f st i w = Some st' -> block_frame E s st -> block_frame E s st'.
Proof. bk_opt slash_validator. Qed.
#[export] Hint Resolve bk_slash_validator : bk.

(* ---------- Block.v ---------- *)
Lemma bk_process_block_header E f s st blk st' :
  process_block_header E f st blk = Some st' -> block_frame E s st -> block_frame E s st'.
Proof. bk_opt process_block_header. Qed.
Lemma bk_process_randao E f s st body st' :
  process_randao E f st body = Some st' -> block_frame E s st -> block_frame E s st'.
Proof.
  intros H Hs. unfold process_randao in H. cbv beta zeta in H. inv_all.
  apply (bk_step E s st); [|assumption].
  constructor; try reflexivity; [bf_set_tac|exact (vstable_refl _ _ _)|].
  intros j Hj. cbn [set randao_mixes]. apply lf_nthN_setN_other. congruence.
Qed.
Lemma bk_process_eth1_data E f s st body : block_frame E s st -> block_frame E s (process_eth1_data E f st body).
Proof. bk_fun process_eth1_data. Qed.
Lemma bk_process_proposer_slashing E f s st op st' :
  process_proposer_slashing E f st op = Some st' -> block_frame E s st -> block_frame E s st'.
Proof. bk_opt process_proposer_slashing. Qed.
#[export] Hint Resolve bk_process_block_header bk_process_randao bk_process_eth1_data bk_process_proposer_slashing : bk.
Lemma bk_process_attester_slashing E f s st op st' :
  process_attester_slashing E f st op = Some st' -> block_frame E s st -> block_frame E s st'.
Proof.
  intros H Hs. unfold process_attester_slashing in H. cbv beta zeta in H.
  do 4 inv_step H.
  apply (fold_opt_pres (fun x y : BeaconState * bool => block_frame E (fst x) (fst y))) in Hx.
  - inv_all. apply (bk_trans E s st); assumption.
  - intros x. apply bk_refl.
  - intros x y z. apply bk_trans.
  - intros [x any] a [x' any'] Hf. cbn [fst]. inv_all; bk.
Qed.
Lemma bk_process_attestation E f s st op st' :
  process_attestation E f st op = Some st' -> block_frame E s st -> block_frame E s st'.
Proof. bk_opt process_attestation. Qed.
#[export] Hint Resolve bk_process_attester_slashing bk_process_attestation : bk.

Lemma vnew_from_deposit E pk wc a : vnew (get_validator_from_deposit E pk wc a).
Proof. split; reflexivity. Qed.
Lemma bk_add_validator_to_registry E f s st pk wc a :
  block_frame E s st -> block_frame E s (add_validator_to_registry E f st pk wc a).
Proof.
  intros Hs. unfold add_validator_to_registry. cbv beta zeta.
  assert (H0 : block_frame E s (st <| validators := validators st ++ [get_validator_from_deposit E pk wc a] |>)).
  { apply (bk_trans E s st); [assumption|]. constructor; try reflexivity; [bf_set_tac|]. cbn [set validators]. apply vstable_app, vnew_from_deposit. }
  bk.
Qed.
#[export] Hint Resolve bk_add_validator_to_registry : bk.
Lemma bk_apply_deposit E f s st pk wc a sg : block_frame E s st -> block_frame E s (apply_deposit E f st pk wc a sg).
Proof. bk_fun apply_deposit. Qed.
#[export] Hint Resolve bk_apply_deposit : bk.
Lemma bk_process_deposit E f s st op st' :
  process_deposit E f st op = Some st' -> block_frame E s st -> block_frame E s st'.
Proof. bk_opt process_deposit. Qed.
Lemma bk_process_voluntary_exit E f s st op st' :
  process_voluntary_exit E f st op = Some st' -> block_frame E s st -> block_frame E s st'.
Proof. bk_opt process_voluntary_exit. Qed.
Lemma bk_process_bls_to_execution_change E s st op st' :
  process_bls_to_execution_change E st op = Some st' -> block_frame E s st -> block_frame E s st'.
Proof. bk_opt process_bls_to_execution_change. Qed.
#[export] Hint Resolve bk_process_deposit bk_process_voluntary_exit bk_process_bls_to_execution_change : bk.

Lemma bk_for_ops E fn : (forall st op st', fn st op = Some st' -> block_frame E st st') ->
  forall s ops st st', for_ops ops fn st = Some st' -> block_frame E s st -> block_frame E s st'.
Proof.
  intros Hfn s ops st st' H Hs. apply (bk_trans E s st); [assumption|].
  exact (for_ops_pres (block_frame E) (bk_refl E) (bk_trans E) fn Hfn ops st st' H).
Qed.
Ltac bk_ops := intros s ops st st' H Hs; refine (bk_for_ops _ _ _ s ops st st' H Hs); intros x op x' Hop; eauto 3 with bk nocore.
Lemma bk_for_ops_ps E f : forall s ops st st', for_ops ops (process_proposer_slashing E f) st = Some st' -> block_frame E s st -> block_frame E s st'.
Proof. bk_ops. Qed.
Lemma bk_for_ops_as E f : forall s ops st st', for_ops ops (process_attester_slashing E f) st = Some st' -> block_frame E s st -> block_frame E s st'.
Proof. bk_ops. Qed.
Lemma bk_for_ops_att E f : forall s ops st st', for_ops ops (process_attestation E f) st = Some st' -> block_frame E s st -> block_frame E s st'.
Proof. bk_ops. Qed.
Lemma bk_for_ops_dep E f : forall s ops st st', for_ops ops (process_deposit E f) st = Some st' -> block_frame E s st -> block_frame E s st'.
Proof. bk_ops. Qed.
Lemma bk_for_ops_exit E f : forall s ops st st', for_ops ops (process_voluntary_exit E f) st = Some st' -> block_frame E s st -> block_frame E s st'.
Proof. bk_ops. Qed.
Lemma bk_for_ops_bls E : forall s ops st st', for_ops ops (process_bls_to_execution_change E) st = Some st' -> block_frame E s st -> block_frame E s st'.
Proof. bk_ops. Qed.
#[export] Hint Resolve bk_for_ops_ps bk_for_ops_as bk_for_ops_att bk_for_ops_dep bk_for_ops_exit bk_for_ops_bls : bk.
Lemma bk_process_operations E f s st body st' :
  process_operations E f st body = Some st' -> block_frame E s st -> block_frame E s st'.
Proof. bk_opt process_operations. Qed.
Lemma bk_process_sync_aggregate E s st sa st' :
  process_sync_aggregate E st sa = Some st' -> block_frame E s st -> block_frame E s st'.
Proof.
  intros H Hs. unfold process_sync_aggregate in H. cbv beta zeta in H. inv_all.
  apply (bk_trans E s st); [assumption|].
  apply (fold_pres (block_frame E) (bk_refl E) (bk_trans E)). intros x [? ?]. bk.
Qed.
Lemma bk_process_execution_payload E f s st body st' :
  process_execution_payload E f st body = Some st' -> block_frame E s st -> block_frame E s st'.
Proof. bk_opt process_execution_payload. Qed.
Lemma bk_process_withdrawals E f s st p st' :
  process_withdrawals E f st p = Some st' -> block_frame E s st -> block_frame E s st'.
Proof.
  intros H Hs. unfold process_withdrawals in H. cbv beta zeta in H. inv_all.
  assert (Hf : block_frame E s (fold_left (fun st0 w => let '(_, vi, _, amt) := w in decrease_balance st0 vi amt)
                               (get_expected_withdrawals E st) st)).
  { apply (bk_trans E s st); [assumption|].
    apply (fold_pres (block_frame E) (bk_refl E) (bk_trans E)). intros x [[[? ?] ?] ?]. bk. }
  bk.
Qed.
#[export] Hint Resolve bk_process_operations bk_process_sync_aggregate bk_process_execution_payload bk_process_withdrawals : bk.
Lemma bk_process_block E f s st blk st' :
  process_block E f st blk = Some st' -> block_frame E s st -> block_frame E s st'.
Proof. bk_opt process_block. Qed.

(* ---------- the theorems of record ---------- *)
Theorem process_block_frame E f st blk st' : process_block E f st blk = Some st' -> block_frame E st st'.
Proof. intros H. exact (bk_process_block E f st st blk st' H (bk_refl E st)). Qed.
Theorem process_block_vstable E f st blk st' : process_block E f st blk = Some st' ->
  vstable E (get_current_epoch E st) (validators st) (validators st').
Proof. intros H. exact (bk_vals E st st' (process_block_frame E f st blk st' H)). Qed.
Theorem process_block_mixes E f st blk st' : process_block E f st blk = Some st' ->
  forall j, j <> get_current_epoch E st mod EPOCHS_PER_HISTORICAL_VECTOR (cfg E) ->
  nthN (randao_mixes st') j = nthN (randao_mixes st) j.
Proof. intros H. exact (bk_mixes E st st' (process_block_frame E f st blk st' H)). Qed.
