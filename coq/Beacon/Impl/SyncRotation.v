(* Implementation model of zrnt's sync-committee rotation.
     /repo/eth2/beacon/altair/sync_aggregate.go   ProcessSyncCommitteeUpdates
     /repo/eth2/beacon/common/sync_committee.go   ComputeNextSyncCommittee, IndicesToSyncCommittee, ComputeSyncCommitteeIndices
     /repo/eth2/beacon/common/randao.go           GetSeed;  phase0/randao.go GetRandomMix
     /repo/eth2/beacon/altair/state.go            RotateSyncCommittee
   MODELS ONLY (proofs: Beacon/Refine/SyncRotationRefine.v).

   What zrnt reads from its EpochsContext instead of the state is the record `SyncEpc`: the next epoch's number and
   active indices (epc.NextEpoch) and the pubkey cache.  The candidate's effective balance is read from the STATE's
   registry (vals.Validator(candidateIndex)), not from a snapshot.

   zrnt's sampling loop `for uint64(len(syncCommitteeIndices)) < SYNC_COMMITTEE_SIZE { ... i += 1 }` has NO iteration
   cap (unlike ComputeProposerIndex's 1000 x 32); it stops only because a zero random byte accepts any candidate
   (about 256 candidates per seat when every effective balance is zero).  The model is therefore fuelled and
   `OutOfFuel` stands for "still looping after `fuel` candidates".
   Conventions: Go uint64 arithmetic that can wrap is add64/mul64/sub64 (Base/U64.v); `Panic` = run-time panic,
   `Err` = Go returned an error. *)
From Coq Require Import NArith List Bool.
From RecordUpdate Require Import RecordSet.
From V Require Import Base.U64 Base.Outcome Ssz.SszCore Beacon.Config Beacon.State Beacon.Spec.Helpers.
From V Require Shuffle.ShuffleModel.
Import ListNotations RecordSetNotations.
Local Open Scope N_scope.

Record SyncEpc := mkSyncEpc {
  sy_next_epoch : N;                 (* epc.NextEpoch.Epoch *)
  sy_next_active : list N;           (* epc.NextEpoch.ActiveIndices *)
  sy_pubkey_of : N -> option bytes   (* epc.ValidatorPubkeyCache.Pubkey(idx).Compressed; None = "ok == false" *)
}.

Section SyncRotation.
  Variable E : Env.
  (* CachedPubkey.Pubkey(): the compressed key deserialises to a valid, non-identity G1 point (blsu.AggregatePubkeys
     refuses the identity).  Every registry key has passed this test when its deposit signature was verified. *)
  Variable pubkey_ok : bytes -> bool.
  Let c := cfg E.

  Definition le8 (v : N) : bytes := le_bytes 8 v.

  (* common.GetSeed(spec, mixes, epoch, domainType): mixes.GetRandomMix(epoch + EPOCHS_PER_HISTORICAL_VECTOR -
     MIN_SEED_LOOKAHEAD - 1) in uint64; GetRandomMix indexes `epoch % VectorLength` (VectorLength is the type's
     EPOCHS_PER_HISTORICAL_VECTOR); a missing element is a tree-view error *)
  Definition get_seed_go (st : BeaconState) (epoch : N) (domain_type : bytes) : outcome bytes :=
    let e := sub64 (sub64 (add64 epoch (EPOCHS_PER_HISTORICAL_VECTOR c)) (MIN_SEED_LOOKAHEAD c)) 1 in
    if EPOCHS_PER_HISTORICAL_VECTOR c =? 0 then Panic DivZero else
    match nthN (randao_mixes st) (e mod EPOCHS_PER_HISTORICAL_VECTOR c) with
    | None => Err
    | Some mix => Ok (Hash E (domain_type ++ le8 epoch ++ mix))
    end.

  (* the loop of ComputeSyncCommitteeIndices.  `h` is the cached hash, refreshed when i%32 == 0;
     `acc` is syncCommitteeIndices (append) *)
  Fixpoint sync_indices_loop (fuel : nat) (vals : list Validator) (active : list N) (seed h : bytes) (i : N) (acc : list N)
    : outcome (list N) :=
    if SYNC_COMMITTEE_SIZE c <=? N.of_nat (length acc) then Ok acc else
    match fuel with
    | O => OutOfFuel
    | S k =>
        let total := N.of_nat (length active) in
        bind (ShuffleModel.permute_index (Hash E) seed (ShuffleModel.wrap8 (SHUFFLE_ROUND_COUNT c)) (i mod total) total) (fun sh =>
          match nth_error active (N.to_nat sh) with
          | None => Panic IndexOOR                                  (* active[shuffledIndex] *)
          | Some cand =>
              match nthN vals cand with
              | None => Err                                         (* vals.Validator(candidateIndex) *)
              | Some v =>
                  let h := if i mod 32 =? 0 then Hash E (seed ++ le8 (i / 32)) else h in
                  let random_byte := nth (N.to_nat (i mod 32)) h 0 in
                  let acc := if mul64 (MAX_EFFECTIVE_BALANCE c) random_byte <=? mul64 (v_effective_balance v) 255
                             then acc ++ [cand] else acc in
                  sync_indices_loop k vals active seed h (add64 i 1) acc
              end
          end)
    end.

  (* ComputeSyncCommitteeIndices(spec, state, baseEpoch, active) *)
  Definition compute_sync_committee_indices (fuel : nat) (st : BeaconState) (base_epoch : N) (active : list N)
    : outcome (list N) :=
    if N.of_nat (length active) =? 0 then Err else
    if SLOTS_PER_EPOCH c =? 0 then Panic DivZero else                        (* spec.SlotToEpoch *)
    let epoch := slot st / SLOTS_PER_EPOCH c in
    if add64 epoch 1 <? base_epoch then Err else
    bind (get_seed_go st base_epoch DOMAIN_SYNC_COMMITTEE) (fun seed =>
      sync_indices_loop fuel (validators st) active seed (repeat 0 32) 0 []).

  (* IndicesToSyncCommittee(indices, pubCache) *)
  Fixpoint indices_to_pubkeys (pk_of : N -> option bytes) (idx : list N) : outcome (list bytes) :=
    match idx with
    | [] => Ok []
    | i :: t =>
        match pk_of i with
        | None => Err                                               (* pubkey cache is missing the index *)
        | Some pk => if pubkey_ok pk then bind (indices_to_pubkeys pk_of t) (fun r => Ok (pk :: r)) else Err
        end
    end.
  Definition indices_to_sync_committee (pk_of : N -> option bytes) (idx : list N) : outcome SyncCommittee :=
    bind (indices_to_pubkeys pk_of idx) (fun pubs =>
      match pubs with
      | [] => Err                                                   (* blsu.AggregatePubkeys: "need at least 1 pubkey" *)
      | _ => Ok (mkSyncCommittee pubs (bls_aggregate_pubkeys E pubs))
      end).

  (* ComputeNextSyncCommittee(spec, epc, state) *)
  Definition compute_next_sync_committee (fuel : nat) (epc : SyncEpc) (st : BeaconState) : outcome SyncCommittee :=
    bind (compute_sync_committee_indices fuel st (sy_next_epoch epc) (sy_next_active epc)) (fun idx =>
      indices_to_sync_committee (sy_pubkey_of epc) idx).

  (* ProcessSyncCommitteeUpdates + RotateSyncCommittee (next.View(spec) cannot fail: exactly SYNC_COMMITTEE_SIZE keys) *)
  Definition process_sync_committee_updates (fuel : nat) (epc : SyncEpc) (st : BeaconState) : outcome BeaconState :=
    if EPOCHS_PER_SYNC_COMMITTEE_PERIOD c =? 0 then Panic DivZero else
    if sy_next_epoch epc mod EPOCHS_PER_SYNC_COMMITTEE_PERIOD c =? 0 then
      bind (compute_next_sync_committee fuel epc st) (fun next =>
        Ok (st <| current_sync_committee := next_sync_committee st |> <| next_sync_committee := next |>))
    else Ok st.
End SyncRotation.
