(* Implementation model of zrnt's justification and finalization.
     /repo/eth2/beacon/phase0/justification.go   ProcessEpochJustification, JustificationStakeData
     /repo/eth2/beacon/common/justification.go   JustificationBits ([1]byte), NextEpoch, IsJustified
     /repo/eth2/beacon/common/history.go         GetBlockRoot     /repo/eth2/beacon/common/time.go  EpochStartSlot
   Called the same way by phase0, altair, bellatrix, capella and deneb ProcessEpoch (the altair-family builds the
   stake data from participation flags, see Impl/AltairAttester.v).
   The state keeps the bits as a bit list (State.v); zrnt reads them as one byte (`Raw`) and writes the byte back
   (`Set`): `byte_of_bits` / `bits_of_byte` model that load/store.  `None` = Go returned an error (or panics on a
   zero divisor). *)
From Coq Require Import NArith List Bool.
From RecordUpdate Require Import RecordSet.
From V Require Import Base.U64 Ssz.SszCore Beacon.Config Beacon.State Beacon.Spec.Helpers.
Import ListNotations RecordSetNotations.
Local Open Scope N_scope.

Record JustificationStakeData := mkJustData {
  js_current_epoch : N;      (* CurrentEpoch *)
  js_total_active_stake : N; (* TotalActiveStake *)
  js_prev_target_stake : N;  (* PrevEpochUnslashedTargetStake *)
  js_curr_target_stake : N   (* CurrEpochUnslashedTargetStake *) }.

(* little-endian bit order: bit i of the byte is justification_bits[i] *)
Definition byte_of_bits (l : list bool) : N := fold_right (fun (b : bool) acc => (if b then 1 else 0) + 2 * acc) 0 l.
Definition bits_of_byte (n : nat) (b : N) : list bool := map (N.testbit b) (seqN 0 n).

(* jb[0] = (jb[0] << 1) & 0x0f   on a uint8 *)
Definition jb_next_epoch (b : N) : N := N.land (N.shiftl b 1 mod 256) 15.
(* jb[0] & (1 << t) != 0 for every t *)
Definition jb_is_justified (b : N) (epochs_ago : list N) : bool :=
  forallb (fun t => negb (N.land b (N.shiftl 1 t mod 256) =? 0)) epochs_ago.

Section Justification.
  Variable c : Config.

  (* spec.EpochStartSlot: Slot(e) * SLOTS_PER_EPOCH with the overflow check; a zero SLOTS_PER_EPOCH panics *)
  Definition epoch_start_slot_go (e : N) : option N :=
    if SLOTS_PER_EPOCH c =? 0 then None else
    let out := mul64 e (SLOTS_PER_EPOCH c) in
    if e =? out / SLOTS_PER_EPOCH c then Some out else None.
  (* common.GetBlockRoot -> BatchRootsView.GetRoot: index slot % SLOTS_PER_HISTORICAL_ROOT, NO range check *)
  Definition get_block_root_go (st : BeaconState) (e : N) : option bytes :=
    match epoch_start_slot_go e with
    | None => None
    | Some s => if SLOTS_PER_HISTORICAL_ROOT c =? 0 then None
                else nthN (block_roots st) (s mod SLOTS_PER_HISTORICAL_ROOT c)
    end.

  (* Epoch.Previous *)
  Definition epoch_previous (e : N) : N := if e =? GENESIS_EPOCH then GENESIS_EPOCH else e - 1.

  (* "> Justification": returns (newJustifiedCheckpoint, bits) *)
  Definition justify_step (st : BeaconState) (stake total epoch bit_mask : N) (acc : option Checkpoint * N)
    : option (option Checkpoint * N) :=
    if mul64 total 2 <=? mul64 stake 3 then
      match get_block_root_go st epoch with
      | None => None
      | Some r => Some (Some (mkCheckpoint epoch r), N.lor (snd acc) bit_mask)
      end
    else Some acc.

  (* "> Finalization": the four rules, later ones overriding earlier ones *)
  Definition to_finalize (bits : N) (old_prev old_cur : Checkpoint) (ce : N) : option Checkpoint :=
    let r := None in
    let r := if jb_is_justified bits [1; 2; 3] && (add64 (cp_epoch old_prev) 3 =? ce) then Some old_prev else r in
    let r := if jb_is_justified bits [1; 2] && (add64 (cp_epoch old_prev) 2 =? ce) then Some old_prev else r in
    let r := if jb_is_justified bits [0; 1; 2] && (add64 (cp_epoch old_cur) 2 =? ce) then Some old_cur else r in
    let r := if jb_is_justified bits [0; 1] && (add64 (cp_epoch old_cur) 1 =? ce) then Some old_cur else r in
    r.

  Definition process_epoch_justification (d : JustificationStakeData) (st : BeaconState) : option BeaconState :=
    let ce := js_current_epoch d in
    let pe := epoch_previous ce in
    if ce <=? GENESIS_EPOCH + 1 then Some st else
    let old_prev := previous_justified_checkpoint st in
    let old_cur := current_justified_checkpoint st in
    let bits := byte_of_bits (justification_bits st) in
    let st := st <| previous_justified_checkpoint := old_cur |> in
    let bits := jb_next_epoch bits in
    let total := js_total_active_stake d in
    match justify_step st (js_prev_target_stake d) total pe 2 (None, bits) with
    | None => None
    | Some acc =>
        match justify_step st (js_curr_target_stake d) total ce 1 acc with
        | None => None
        | Some (newj, bits) =>
            let st := match newj with Some cp => st <| current_justified_checkpoint := cp |> | None => st end in
            let st := match to_finalize bits old_prev old_cur ce with
                      | Some cp => st <| finalized_checkpoint := cp |> | None => st end in
            Some (st <| justification_bits := bits_of_byte 4 bits |>)
        end
    end.
End Justification.
