(* Implementation models of the remaining zrnt block operations and of ProcessBlock itself (per fork, in zrnt's order).
   MODELS ONLY (proofs: Beacon/Refine/Block2*.v, BlockAssembly.v).  Conventions as in Beacon/Impl/BlockOps.v.

     phase0/randao.go             ProcessRandaoReveal          (proposer and its pubkey from the EpochsContext)
     phase0/eth1.go               ProcessEth1Vote              (full-list error, short-circuit on the vote count, votes compared
                                                                by HASH-TREE-ROOT)
     capella/bls_to_execution.go  ProcessBLSToExecutionChange
     phase0/proposer_slashing.go  ProcessProposerSlashing      (one domain for both headers; pubkey from the cache)
     phase0/indexed.go            ValidateIndexedAttestation   (count limit, sortedness + duplicate scan, LAST index in range)
     phase0|altair|deneb attestation.go  ProcessAttestation    (committee count/committee from the EpochsContext; unchecked
                                                                block-root lookups; uint64 window arithmetic)
     bellatrix|capella|deneb execution_payload.go, bellatrix/transition.go   ProcessExecutionPayload, IsExecutionEnabled
                                                               (merge completion decided by comparing hash-tree-roots)
     phase0/deposit.go            ProcessDeposits with the pubkey cache extended on AddValidator
     <fork>/block.go CheckLimits, <fork>/transition.go ProcessBlock

   The context is polled (ctx.Err()) at the top of every operation and of every iteration of the operation loops; a
   cancelled context is an error return and is the subject of C18, not modelled here. *)
From Coq Require Import String.
From Coq Require Import NArith List Bool.
From RecordUpdate Require Import RecordSet.
From V Require Import Base.U64 Base.Outcome Ssz.SszCore Beacon.Config Beacon.Schemas Beacon.State
  Beacon.Spec.Helpers Beacon.Spec.Epoch Beacon.Spec.Block Beacon.Impl.BlockOps.
Import ListNotations RecordSetNotations.
Local Open Scope string_scope.
Local Open Scope list_scope.
Local Open Scope N_scope.

(* committee data zrnt reads from its EpochsContext *)
Record BlockEpc2 := mkEpc2 {
  e2 : BlockEpc;
  (* epc.GetCommitteeCountPerSlot(epoch): indexes epochComms[0] BEFORE testing the error, so an epoch outside
     previous/current/next is a nil-slice index, i.e. a panic *)
  e2_count : N -> outcome N;
  (* epc.GetBeaconCommittee(slot, index): an error for an unknown epoch or an index >= the committee count *)
  e2_committee : N -> N -> outcome (list N)
}.

Definition mod64 (a b : N) : outcome N := if b =? 0 then Panic DivZero else Ok (a mod b).

Section Impl2.
  Variable E : Env.
  Variable f : fork.
  Let c := cfg E.
  Notation htr := (htr E).

  (* ================= phase0/randao.go ProcessRandaoReveal ================= *)
  Definition process_randao_impl (epc : BlockEpc) (st : BeaconState) (body : value) : outcome BeaconState :=
    let reveal := vbytes (body_get E f body "randao_reveal") in
    proposer <~ of_opt (be_proposer epc) ;;
    pk <~ of_opt (be_pubkey_of epc proposer) ;;
    epoch <~ div64 (slot st) (SLOTS_PER_EPOCH c) ;;
    let domain := get_domain E st DOMAIN_RANDAO epoch in
    _ <~ check (bls_verify E pk (compute_signing_root E (htr u64 (VUint epoch)) domain) reveal) ;;
    mi <~ mod64 epoch (EPOCHS_PER_HISTORICAL_VECTOR c) ;;
    mix <~ of_opt (nthN (randao_mixes st) mi) ;;
    Ok (st <| randao_mixes := setN (randao_mixes st) mi (xor_bytes mix (Hash E reveal)) |>).

  (* ================= phase0/eth1.go ProcessEth1Vote ================= *)
  Definition eth1_root (d : Eth1Data) : bytes := htr Eth1DataT (eth1_to_value d).
  (* Eth1DataVotesView.Count: equality of hash-tree-roots *)
  Definition votes_count_impl (votes : list Eth1Data) (d : Eth1Data) : N :=
    N.of_nat (length (filter (fun v => bytes_eqb (eth1_root v) (eth1_root d)) votes)).
  Definition process_eth1_vote_impl (st : BeaconState) (body : value) : outcome BeaconState :=
    let d := eth1_of_value (body_get E f body "eth1_data") in
    let vote_count := N.of_nat (length (eth1_data_votes st)) in
    let period := mul64 (EPOCHS_PER_ETH1_VOTING_PERIOD c) (SLOTS_PER_EPOCH c) in
    _ <~ check (negb (period <=? vote_count)) ;;                 (* "already voted maximum times"; then list Append *)
    let st := st <| eth1_data_votes := eth1_data_votes st ++ [d] |> in
    let vote_count := add64 vote_count 1 in
    if period <? shl64 vote_count 1
    then (let count := votes_count_impl (eth1_data_votes st) d in
          if period <? shl64 count 1 then Ok (st <| eth1_data := d |>) else Ok st)
    else Ok st.

  (* ================= capella/bls_to_execution.go ProcessBLSToExecutionChange ================= *)
  Definition process_bls_change_impl (st : BeaconState) (sc : value) : outcome BeaconState :=
    let ch := vfield sc 0 in
    let vi := vuint (vfield ch 0) in
    let from_pk := vbytes (vfield ch 1) in
    let to_addr := vbytes (vfield ch 2) in
    _ <~ check (negb (N.of_nat (length (validators st)) <=? vi)) ;;
    v <~ of_opt (nthN (validators st) vi) ;;
    let wc := v_withdrawal_credentials v in
    _ <~ check (bytes_eqb (firstn 1 wc) [BLS_WITHDRAWAL_PREFIX]) ;;
    _ <~ check (bytes_eqb (skipn 1 wc) (skipn 1 (Hash E from_pk))) ;;
    let domain := compute_domain E DOMAIN_BLS_TO_EXECUTION_CHANGE (GENESIS_FORK_VERSION c) (genesis_validators_root st) in
    _ <~ check (bls_verify E from_pk (compute_signing_root E (htr BLSToExecutionChangeT ch) domain) (vbytes (vfield sc 1))) ;;
    (* copy(new[0:1], prefix); copy(new[12:], address) into a zeroed 32-byte root *)
    Ok (st <| validators := updN (validators st) vi
           (fun v => v <| v_withdrawal_credentials := (ETH1_ADDRESS_WITHDRAWAL_PREFIX :: repeat 0 11) ++ to_addr |>) |>).

  (* ================= phase0/proposer_slashing.go ProcessProposerSlashing ================= *)
  Definition process_proposer_slashing_impl (epc : BlockEpc) (st : BeaconState) (ps : value) : outcome BeaconState :=
    let sh1 := vfield ps 0 in let sh2 := vfield ps 1 in
    let h1 := vfield sh1 0 in let h2 := vfield sh2 0 in
    _ <~ check (vuint (vfield h1 0) =? vuint (vfield h2 0)) ;;
    _ <~ check (vuint (vfield h1 1) =? vuint (vfield h2 1)) ;;
    _ <~ check (negb (value_eqb h1 h2)) ;;
    let pi := vuint (vfield h1 1) in
    _ <~ check (pi <? N.of_nat (length (validators st))) ;;                          (* IsValidIndex *)
    v <~ of_opt (nthN (validators st) pi) ;;
    _ <~ check (is_slashable_validator v (be_current_epoch epc)) ;;
    ep <~ div64 (vuint (vfield h1 0)) (SLOTS_PER_EPOCH c) ;;
    let domain := get_domain E st DOMAIN_BEACON_PROPOSER ep in                       (* ONE domain, from header 1's slot *)
    pk <~ of_opt (be_pubkey_of epc pi) ;;
    _ <~ check (bls_verify E pk (compute_signing_root E (htr BeaconBlockHeaderT h1) domain) (vbytes (vfield sh1 1))) ;;
    _ <~ check (bls_verify E pk (compute_signing_root E (htr BeaconBlockHeaderT h2) domain) (vbytes (vfield sh2 1))) ;;
    slash_validator_impl E f epc st pi None.

  (* ================= phase0/indexed.go ValidateIndexedAttestation ================= *)
  Definition validate_indexed_impl (epc : BlockEpc) (st : BeaconState) (idx : list N) (data : value) (sig : bytes) : outcome unit :=
    _ <~ check (N.of_nat (length idx) <=? MAX_VALIDATORS_PER_COMMITTEE c) ;;
    _ <~ check (negb (N.of_nat (length idx) =? 0)) ;;
    _ <~ check (strictly_sorted idx) ;;                       (* sort.IsSorted, then the adjacent-duplicate scan *)
    _ <~ check (last idx 0 <? N.of_nat (length (validators st))) ;;   (* only the LAST (largest) index is range-checked *)
    let domain := get_domain E st DOMAIN_BEACON_ATTESTER (cp_epoch (ad_target data)) in
    pks <~ of_opt (all_some (map (be_pubkey_of epc) idx)) ;;
    check (eth2_fast_aggregate_verify E pks (compute_signing_root E (htr AttestationDataT data) domain) sig).

  (* ================= ProcessAttestation: phase0, altair (..capella), deneb ================= *)
  (* spec.EpochStartSlot: multiplication with overflow test *)
  Definition epoch_start_slot_impl (e : N) : outcome N :=
    let out := mul64 e (SLOTS_PER_EPOCH c) in
    q <~ div64 out (SLOTS_PER_EPOCH c) ;;
    if e =? q then Ok out else Err.
  (* altair/deneb GetApplicableAttestationParticipationFlags, as the list of flag indices *)
  Definition applicable_flags_impl (st : BeaconState) (data : value) (delay : N) : outcome (list N) :=
    ce <~ div64 (slot st) (SLOTS_PER_EPOCH c) ;;
    let justified := if cp_epoch (ad_target data) =? ce then current_justified_checkpoint st else previous_justified_checkpoint st in
    hi <~ mod64 (ad_slot data) (SLOTS_PER_HISTORICAL_ROOT c) ;;
    expected_head <~ of_opt (nthN (block_roots st) hi) ;;                  (* GetBlockRootAtSlot: no range check *)
    start <~ epoch_start_slot_impl (cp_epoch (ad_target data)) ;;
    ti <~ mod64 start (SLOTS_PER_HISTORICAL_ROOT c) ;;
    expected_target <~ of_opt (nthN (block_roots st) ti) ;;
    let matching_source := cp_eqb (ad_source data) justified in
    let matching_target := matching_source && bytes_eqb expected_target (cp_root (ad_target data)) in
    let matching_head := matching_target && bytes_eqb expected_head (ad_beacon_block_root data) in
    _ <~ check matching_source ;;
    Ok ((if delay <=? N.sqrt (SLOTS_PER_EPOCH c) then [TIMELY_SOURCE_FLAG_INDEX] else [])
        ++ (if matching_target && (fork_ge f Deneb || (delay <=? SLOTS_PER_EPOCH c)) then [TIMELY_TARGET_FLAG_INDEX] else [])
        ++ (if matching_head && (delay =? MIN_ATTESTATION_INCLUSION_DELAY c) then [TIMELY_HEAD_FLAG_INDEX] else [])).

  Definition process_attestation_impl (epc2 : BlockEpc2) (st : BeaconState) (att : value) : outcome BeaconState :=
    let epc := e2 epc2 in
    let bits := vbits (vfield att 0) in
    let data := vfield att 1 in
    let tgt := cp_epoch (ad_target data) in
    ce <~ div64 (slot st) (SLOTS_PER_EPOCH c) ;;
    let pe := if ce =? GENESIS_EPOCH then GENESIS_EPOCH else ce - 1 in             (* Epoch.Previous *)
    _ <~ check (negb (tgt <? pe)) ;;
    _ <~ check (negb (ce <? tgt)) ;;
    te <~ div64 (ad_slot data) (SLOTS_PER_EPOCH c) ;;
    _ <~ check (tgt =? te) ;;
    _ <~ check (fork_ge f Deneb || (slot st <=? add64 (ad_slot data) (SLOTS_PER_EPOCH c))) ;;   (* "too old": not in deneb *)
    _ <~ check (add64 (ad_slot data) (MIN_ATTESTATION_INCLUSION_DELAY c) <=? slot st) ;;
    cc <~ e2_count epc2 tgt ;;                                                      (* guarded by the target checks above *)
    _ <~ check (ad_index data <? cc) ;;
    let delay := sub64 (slot st) (ad_slot data) in
    flags <~ (match f with
              | Phase0 =>
                  _ <~ check (cp_eqb (ad_source data)
                                (if tgt =? ce then current_justified_checkpoint st else previous_justified_checkpoint st)) ;;
                  Ok []
              | _ => applicable_flags_impl st data delay
              end) ;;
    committee <~ e2_committee epc2 (ad_slot data) (ad_index data) ;;
    _ <~ check (Nat.eqb (length committee) (length bits)) ;;                        (* ConvertToIndexed *)
    let participants := sort_indices (select_bits bits committee) in
    _ <~ validate_indexed_impl epc st participants data (vbytes (vfield att 2)) ;;
    match f with
    | Phase0 =>
        proposer <~ of_opt (be_proposer epc) ;;
        let pa := VCont [VBits bits; data; VUint delay; VUint proposer] in
        let limit := MAX_ATTESTATIONS c * SLOTS_PER_EPOCH c in
        if tgt =? ce
        then _ <~ check (N.of_nat (length (current_epoch_attestations st)) <? limit) ;;       (* list Append *)
             Ok (st <| current_epoch_attestations := current_epoch_attestations st ++ [pa] |>)
        else _ <~ check (N.of_nat (length (previous_epoch_attestations st)) <? limit) ;;
             Ok (st <| previous_epoch_attestations := previous_epoch_attestations st ++ [pa] |>)
    | _ => attestation_rewards_impl E epc st (tgt =? ce) participants flags
    end.

  (* ================= execution payload ================= *)
  (* spec.TimeAtSlot with its overflow guard (C19: Math/MathModel.v time_at_slot) *)
  Definition time_at_slot_impl (s genesis : N) : outcome N :=
    q <~ div64 (max64 - genesis) (SECONDS_PER_SLOT c) ;;
    if q <? s then Err else Ok (add64 (mul64 s (SECONDS_PER_SLOT c)) genesis).
  (* bellatrix IsTransitionCompleted / IsTransitionBlock / IsExecutionEnabled: roots are compared, not values *)
  Definition merge_complete_impl (st : BeaconState) : bool :=
    negb (bytes_eqb (htr (HeaderT E f) (latest_execution_payload_header st)) (htr (HeaderT E f) (default_value (HeaderT E f)))).
  Definition execution_enabled_impl (st : BeaconState) (body : value) : bool :=
    if merge_complete_impl st then true
    else negb (bytes_eqb (htr (PayloadT E f) (body_get E f body "execution_payload")) (htr (PayloadT E f) (default_value (PayloadT E f)))).
  Definition process_execution_payload_impl (st : BeaconState) (body : value) : outcome BeaconState :=
    let payload := body_get E f body "execution_payload" in
    _ <~ check ((if fork_ge f Capella then false else negb (merge_complete_impl st))
                || bytes_eqb (vbytes (pl_get E f payload "parent_hash"))
                             (vbytes (vget (HeaderT E f) (latest_execution_payload_header st) "block_hash"))) ;;
    ep <~ div64 (slot st) (SLOTS_PER_EPOCH c) ;;
    mi <~ mod64 ep (EPOCHS_PER_HISTORICAL_VECTOR c) ;;
    mix <~ of_opt (nthN (randao_mixes st) mi) ;;
    _ <~ check (bytes_eqb (vbytes (pl_get E f payload "prev_randao")) mix) ;;
    t <~ time_at_slot_impl (slot st) (genesis_time st) ;;
    _ <~ check (vuint (pl_get E f payload "timestamp") =? t) ;;
    let commitments := if fork_ge f Deneb then map vbytes (vseq (body_get E f body "blob_kzg_commitments")) else [] in
    _ <~ check (N.of_nat (length commitments) <=? (if fork_ge f Deneb then MAX_BLOBS_PER_BLOCK c else 0)) ;;
    _ <~ check (engine_accepts E payload (map (kzg_commitment_to_versioned_hash E) commitments) (h_parent_root (latest_block_header st))) ;;
    (* ExecutionPayload.Header: the same field-by-field conversion as the spec's (transactions/withdrawals replaced by their roots) *)
    Ok (st <| latest_execution_payload_header := payload_to_header E f payload |>).

  (* ================= deposits with the pubkey cache ================= *)
  (* PubkeyCache.AddValidator(index, pubkey) *)
  Definition cache_add (epc : BlockEpc) (idx : N) (pk : bytes) : BlockEpc :=
    mkBlockEpc (be_current_epoch epc) (be_active_count epc) (be_proposer epc) (be_eff_balances epc)
      (be_total_active_stake epc) (be_total_active_stake_sqrt epc) (be_sync_indices epc) (be_sync_pubkeys epc)
      (fun k => match be_pubkey_index epc k with Some i => Some i | None => if bytes_eqb pk k then Some idx else None end)
      (fun i => if i =? idx then Some pk else be_pubkey_of epc i).
  Definition process_deposit_impl2 (epc : BlockEpc) (st : BeaconState) (dep : value) : outcome (BeaconState * BlockEpc) :=
    st' <~ process_deposit_impl E f epc st dep ;;
    (* a validator was appended: the cache learns its pubkey *)
    if Nat.ltb (length (validators st)) (length (validators st'))
    then Ok (st', cache_add epc (N.of_nat (length (validators st))) (vbytes (vfield (vfield dep 1) 0)))
    else Ok (st', epc).
  Definition process_deposits_impl2 (epc : BlockEpc) (st : BeaconState) (deps : list value) : outcome (BeaconState * BlockEpc) :=
    _ <~ check (eth1_deposit_index st <=? e_deposit_count (eth1_data st)) ;;
    _ <~ check (N.of_nat (length deps) =? expected_deposit_count_impl E st) ;;
    fold_left (fun acc dep => se <~ acc ;; process_deposit_impl2 (snd se) (fst se) dep) deps (Ok (st, epc)).

  (* ================= ProcessBlock ================= *)
  Definition for_ops_impl (ops : list value) (fn : BeaconState -> value -> outcome BeaconState) (st : BeaconState) : outcome BeaconState :=
    fold_left (fun acc op => st <~ acc ;; fn st op) ops (Ok st).
  Definition lenN (body : value) (name : string) : N := N.of_nat (length (vseq (body_get E f body name))).
  (* body.CheckLimits *)
  Definition check_limits_impl (body : value) : outcome unit :=
    _ <~ check (lenN body "proposer_slashings" <=? MAX_PROPOSER_SLASHINGS c) ;;
    _ <~ check (lenN body "attester_slashings" <=? MAX_ATTESTER_SLASHINGS c) ;;
    _ <~ check (lenN body "attestations" <=? MAX_ATTESTATIONS c) ;;
    _ <~ check (lenN body "deposits" <=? MAX_DEPOSITS c) ;;
    _ <~ check (lenN body "voluntary_exits" <=? MAX_VOLUNTARY_EXITS c) ;;
    _ <~ check (if fork_ge f Bellatrix
                then N.of_nat (length (vseq (pl_get E f (body_get E f body "execution_payload") "transactions")))
                     <=? MAX_TRANSACTIONS_PER_PAYLOAD c else true) ;;
    _ <~ check (if fork_ge f Capella then lenN body "bls_to_execution_changes" <=? MAX_BLS_TO_EXECUTION_CHANGES c else true) ;;
    check (if fork_ge f Deneb then lenN body "blob_kzg_commitments" <=? MAX_BLOBS_PER_BLOCK c else true).

  Definition process_block_impl (epc2 : BlockEpc2) (st : BeaconState) (blk : value) : outcome BeaconState :=
    let epc := e2 epc2 in
    let body := vfield blk 4 in
    st <~ process_header_impl E f epc st blk ;;
    st <~ (match f with
           | Phase0 | Altair => Ok st
           | Bellatrix => if execution_enabled_impl st body then process_execution_payload_impl st body else Ok st
           | _ => st <~ process_withdrawals_impl E f st (body_get E f body "execution_payload") ;;
                  process_execution_payload_impl st body
           end) ;;
    st <~ process_randao_impl epc st body ;;
    st <~ process_eth1_vote_impl st body ;;
    _ <~ check_limits_impl body ;;
    st <~ for_ops_impl (vseq (body_get E f body "proposer_slashings")) (process_proposer_slashing_impl epc) st ;;
    st <~ for_ops_impl (vseq (body_get E f body "attester_slashings")) (process_attester_slashing_impl E f epc) st ;;
    st <~ for_ops_impl (vseq (body_get E f body "attestations")) (process_attestation_impl epc2) st ;;
    se <~ process_deposits_impl2 epc st (vseq (body_get E f body "deposits")) ;;
    let '(st, epc) := se in
    st <~ for_ops_impl (vseq (body_get E f body "voluntary_exits")) (process_voluntary_exit_impl E f epc) st ;;
    st <~ (if fork_ge f Capella
           then for_ops_impl (vseq (body_get E f body "bls_to_execution_changes")) process_bls_change_impl st
           else Ok st) ;;
    if fork_ge f Altair then process_sync_aggregate_impl E epc st (body_get E f body "sync_aggregate") else Ok st.
End Impl2.
