(* Implementation model of zrnt's in-place fork upgrades.
     /repo/eth2/beacon/fork.go            atForkBoundary, StandardUpgradeableBeaconState.UpgradeMaybe
     /repo/eth2/beacon/altair/fork.go     TranslateParticipation, UpgradeToAltair
     /repo/eth2/beacon/altair/attestation.go  GetApplicableAttestationParticipationFlags
     /repo/eth2/beacon/bellatrix/fork.go  UpgradeToBellatrix     capella/fork.go UpgradeToCapella     deneb/fork.go UpgradeToDeneb
     /repo/eth2/beacon/common/epochs_context.go  LoadSyncCommittees / hydrateSyncCommittee (error behaviour only)
   MODELS ONLY (proofs: Beacon/Refine/UpgradesRefine.v).

   The post-state is built by `FromFields(...)` from the listed views of the pre-state: here the constructor `mkState`
   applied to the same fields in State.v's order.  State.v's record is the superset of the five forks; a field that
   the TARGET fork's container does not have (e.g. latest_execution_payload_header in an altair state) is not
   observable (state_to_value ignores it) and is carried over unchanged by the model; phase0's pending-attestation
   lists, dropped by UpgradeToAltair, become [].
   What zrnt reads from the EpochsContext: `committee_of slot index` = epc.GetBeaconCommittee (None = its error), the
   `SyncEpc` of Impl/SyncRotation.v, and the pubkey cache.  UpgradeMaybe runs AFTER epc.RotateEpochs, so the context
   is the one of the first epoch of the new fork: the pending attestations' committees come from epc.PreviousEpoch.
   `Err` = Go error, `Panic` = run-time panic, OutOfFuel = the uncapped sync-committee sampling loop still running. *)
From Coq Require Import String.
From Coq Require Import NArith List Bool.
From RecordUpdate Require Import RecordSet.
From V Require Import Base.U64 Base.Outcome Ssz.SszCore Beacon.Config Beacon.Schemas Beacon.State
  Beacon.Spec.Helpers Beacon.Spec.Epoch Beacon.Spec.Transition
  Beacon.Impl.Justification Beacon.Impl.Phase0Attester Beacon.Impl.SyncRotation.
From V Require Math.MathModel.
Import ListNotations RecordSetNotations.
Local Open Scope list_scope.
Local Open Scope N_scope.

Notation "x <~ a ;; b" := (bind a (fun x => b)) (at level 61, a at next level, right associativity).
Definition of_opt {A} (o : option A) : outcome A := match o with Some a => Ok a | None => Err end.

(* bitfields.GetBit(b, i) = (b[i>>3] >> (i&7)) & 1 on the RAW bytes of a bitlist of `length bits` bits: inside the list
   the bit; at index `length bits` the delimiter bit (1); above it zero padding up to the end of the last byte
   (length bits / 8 + 1 bytes); beyond the bytes an index-out-of-range panic *)
Definition bitlist_get_bit (bits : list bool) (i : nat) : outcome bool :=
  if Nat.ltb i (length bits) then Ok (nth i bits false)
  else if Nat.eqb i (length bits) then Ok true
  else if Nat.ltb (Nat.div i 8) (Nat.div (length bits) 8 + 1) then Ok false
  else Panic IndexOOR.

Section Upgrades.
  Variable E : Env.
  Variable pubkey_ok : bytes -> bool.
  (* spec.ELECTRA_FORK_EPOCH: not in Beacon/Config.v (the electra transition is a stub in this snapshot) *)
  Variable electra_fork_epoch : N.
  Let c := cfg E.

  (* ---------- altair/attestation.go GetApplicableAttestationParticipationFlags ----------
     returns the flag WORD (TIMELY_SOURCE_FLAG = 1, TIMELY_TARGET_FLAG = 2, TIMELY_HEAD_FLAG = 4).  Both roots are
     fetched (GetBlockRootAtSlot / GetBlockRoot: no range check) before the source comparison; `==` on roots and
     checkpoints is written with the Spec's bytes_eqb / cp_eqb in the Spec's argument order (array equality is symmetric) *)
  Definition applicable_flags_go (st : BeaconState) (data : value) (inclusion_delay : N) : outcome N :=
    if SLOTS_PER_EPOCH c =? 0 then Panic DivZero else
    let current_epoch := slot st / SLOTS_PER_EPOCH c in
    let justified := if cp_epoch (ad_target data) =? current_epoch
                     then current_justified_checkpoint st else previous_justified_checkpoint st in
    expected_head <~ of_opt (block_root_at_slot_go c st (ad_slot data)) ;;
    expected_target <~ of_opt (get_block_root_go c st (cp_epoch (ad_target data))) ;;
    let is_matching_source := cp_eqb (ad_source data) justified in
    let is_matching_target := is_matching_source && bytes_eqb (cp_root (ad_target data)) expected_target in
    let is_matching_head := is_matching_target && bytes_eqb (ad_beacon_block_root data) expected_head in
    if negb is_matching_source then Err else
    sq <~ MathModel.isqrt_go (SLOTS_PER_EPOCH c) ;;
    let out := if is_matching_source && (inclusion_delay <=? sq) then 1 else 0 in
    let out := if is_matching_target && (inclusion_delay <=? SLOTS_PER_EPOCH c) then N.lor out 2 else out in
    let out := if is_matching_head && (inclusion_delay =? MIN_ATTESTATION_INCLUSION_DELAY c) then N.lor out 4 else out in
    Ok out.

  (* for i, vi := range committee { if att.AggregationBits.GetBit(uint64(i)) { participationRegistry[vi] |= applicableFlags } } *)
  Fixpoint mark_committee (bits : list bool) (i : nat) (committee : list N) (flags : N) (reg : list N) : outcome (list N) :=
    match committee with
    | [] => Ok reg
    | vi :: rest =>
        b <~ bitlist_get_bit bits i ;;
        reg' <~ (if b then match nthN reg vi with
                           | Some x => Ok (setN reg vi (N.lor x flags))
                           | None => Panic IndexOOR               (* slice index out of range *)
                           end
                 else Ok reg) ;;
        mark_committee bits (S i) rest flags reg'
    end.

  (* TranslateParticipation(spec, epc, state, pendingAtts, participationRegistry): `state` is the PHASE0 pre-state *)
  Definition translate_participation_go (committee_of : N -> N -> option (list N)) (st : BeaconState)
             (pending : list value) (reg : list N) : outcome (list N) :=
    fold_left (fun (acc : outcome (list N)) a =>
        reg <~ acc ;;
        let data := pa_data a in
        flags <~ applicable_flags_go st data (pa_inclusion_delay a) ;;
        committee <~ of_opt (committee_of (ad_slot data) (ad_index data)) ;;
        mark_committee (pa_bits a) 0 committee flags reg)
      pending (Ok reg).

  (* ---------- UpgradeToAltair ---------- *)
  Definition upgrade_to_altair (fuel : nat) (committee_of : N -> N -> option (list N)) (sepc : SyncEpc)
             (pre : BeaconState) : outcome BeaconState :=
    if SLOTS_PER_EPOCH c =? 0 then Panic DivZero else
    let epoch := slot pre / SLOTS_PER_EPOCH c in
    let fork := mkFork (f_current_version (fork_rec pre)) (ALTAIR_FORK_VERSION c) epoch in
    let val_count := length (validators pre) in
    prev_registry <~ translate_participation_go committee_of pre (previous_epoch_attestations pre) (repeat 0 val_count) ;;
    let curr_registry := repeat 0 val_count in
    let empty_scores := repeat 0 val_count in
    next_sync_committee <~ compute_next_sync_committee E pubkey_ok fuel sepc pre ;;
    Ok (mkState (genesis_time pre) (genesis_validators_root pre) (slot pre) fork (latest_block_header pre)
                (block_roots pre) (state_roots pre) (historical_roots pre) (eth1_data pre) (eth1_data_votes pre)
                (eth1_deposit_index pre) (validators pre) (balances pre) (randao_mixes pre) (slashings pre)
                [] []                                              (* pending attestations: not an altair field *)
                prev_registry curr_registry
                (justification_bits pre) (previous_justified_checkpoint pre) (current_justified_checkpoint pre)
                (finalized_checkpoint pre)
                empty_scores next_sync_committee next_sync_committee (* the view is copied: same committee twice *)
                (latest_execution_payload_header pre) (next_withdrawal_index pre) (next_withdrawal_validator_index pre)
                (historical_summaries pre)).

  (* ---------- UpgradeToBellatrix ---------- *)
  Definition upgrade_to_bellatrix (pre : BeaconState) : outcome BeaconState :=
    if SLOTS_PER_EPOCH c =? 0 then Panic DivZero else
    let epoch := slot pre / SLOTS_PER_EPOCH c in
    let fork := mkFork (f_current_version (fork_rec pre)) (BELLATRIX_FORK_VERSION c) epoch in
    Ok (mkState (genesis_time pre) (genesis_validators_root pre) (slot pre) fork (latest_block_header pre)
                (block_roots pre) (state_roots pre) (historical_roots pre) (eth1_data pre) (eth1_data_votes pre)
                (eth1_deposit_index pre) (validators pre) (balances pre) (randao_mixes pre) (slashings pre)
                (previous_epoch_attestations pre) (current_epoch_attestations pre)
                (previous_epoch_participation pre) (current_epoch_participation pre)
                (justification_bits pre) (previous_justified_checkpoint pre) (current_justified_checkpoint pre)
                (finalized_checkpoint pre)
                (inactivity_scores pre) (current_sync_committee pre) (next_sync_committee pre)
                (default_value (ExecutionPayloadHeaderT c Bellatrix))      (* ExecutionPayloadHeaderType.Default(nil) *)
                (next_withdrawal_index pre) (next_withdrawal_validator_index pre) (historical_summaries pre)).

  (* latestExecutionPayloadHeader.Raw() then the field-by-field copy into the next fork's header *)
  Definition capella_header (old : value) : outcome value :=
    match old with
    | VCont [parent_hash; fee_recipient; state_root; receipts_root; logs_bloom; prev_randao; block_number; gas_limit;
             gas_used; timestamp; extra_data; base_fee_per_gas; block_hash; transactions_root] =>
        Ok (VCont [parent_hash; fee_recipient; state_root; receipts_root; logs_bloom; prev_randao; block_number; gas_limit;
                   gas_used; timestamp; extra_data; base_fee_per_gas; block_hash; transactions_root;
                   VBytes zero32])                                         (* WithdrawalsRoot: common.Root{} *)
    | _ => Err
    end.
  Definition deneb_header (old : value) : outcome value :=
    match old with
    | VCont [parent_hash; fee_recipient; state_root; receipts_root; logs_bloom; prev_randao; block_number; gas_limit;
             gas_used; timestamp; extra_data; base_fee_per_gas; block_hash; transactions_root; withdrawals_root] =>
        Ok (VCont [parent_hash; fee_recipient; state_root; receipts_root; logs_bloom; prev_randao; block_number; gas_limit;
                   gas_used; timestamp; extra_data; base_fee_per_gas; block_hash; transactions_root; withdrawals_root;
                   VUint 0; VUint 0])                                      (* BlobGasUsed, ExcessBlobGas *)
    | _ => Err
    end.

  (* ---------- UpgradeToCapella ---------- *)
  Definition upgrade_to_capella (pre : BeaconState) : outcome BeaconState :=
    if SLOTS_PER_EPOCH c =? 0 then Panic DivZero else
    let epoch := slot pre / SLOTS_PER_EPOCH c in
    let fork := mkFork (f_current_version (fork_rec pre)) (CAPELLA_FORK_VERSION c) epoch in
    header <~ capella_header (latest_execution_payload_header pre) ;;
    Ok (mkState (genesis_time pre) (genesis_validators_root pre) (slot pre) fork (latest_block_header pre)
                (block_roots pre) (state_roots pre) (historical_roots pre) (eth1_data pre) (eth1_data_votes pre)
                (eth1_deposit_index pre) (validators pre) (balances pre) (randao_mixes pre) (slashings pre)
                (previous_epoch_attestations pre) (current_epoch_attestations pre)
                (previous_epoch_participation pre) (current_epoch_participation pre)
                (justification_bits pre) (previous_justified_checkpoint pre) (current_justified_checkpoint pre)
                (finalized_checkpoint pre)
                (inactivity_scores pre) (current_sync_committee pre) (next_sync_committee pre)
                header 0 0 []).                                            (* HistoricalSummariesType(spec).Default(nil) *)

  (* ---------- UpgradeToDeneb ---------- *)
  Definition upgrade_to_deneb (pre : BeaconState) : outcome BeaconState :=
    if SLOTS_PER_EPOCH c =? 0 then Panic DivZero else
    let epoch := slot pre / SLOTS_PER_EPOCH c in
    let fork := mkFork (f_current_version (fork_rec pre)) (DENEB_FORK_VERSION c) epoch in
    header <~ deneb_header (latest_execution_payload_header pre) ;;
    Ok (mkState (genesis_time pre) (genesis_validators_root pre) (slot pre) fork (latest_block_header pre)
                (block_roots pre) (state_roots pre) (historical_roots pre) (eth1_data pre) (eth1_data_votes pre)
                (eth1_deposit_index pre) (validators pre) (balances pre) (randao_mixes pre) (slashings pre)
                (previous_epoch_attestations pre) (current_epoch_attestations pre)
                (previous_epoch_participation pre) (current_epoch_participation pre)
                (justification_bits pre) (previous_justified_checkpoint pre) (current_justified_checkpoint pre)
                (finalized_checkpoint pre)
                (inactivity_scores pre) (current_sync_committee pre) (next_sync_committee pre)
                header (next_withdrawal_index pre) (next_withdrawal_validator_index pre) (historical_summaries pre)).

  (* ---------- fork.go ---------- *)
  (* atForkBoundary: slot%SLOTS_PER_EPOCH == 0 && SlotToEpoch(slot) == forkEpoch *)
  Definition at_fork_boundary (slot fork_epoch : N) : outcome bool :=
    if SLOTS_PER_EPOCH c =? 0 then Panic DivZero
    else Ok ((slot mod SLOTS_PER_EPOCH c =? 0) && (slot / SLOTS_PER_EPOCH c =? fork_epoch)).

  (* epc.LoadSyncCommittees(post) after the altair upgrade: every key of both committees must be in the pubkey cache
     (pubkey -> index, index -> cached key); it changes only the context *)
  Definition hydrate_ok (pk_index : bytes -> option N) (pk_of : N -> option bytes) (sc : SyncCommittee) : outcome unit :=
    fold_left (fun (acc : outcome unit) pk =>
        _ <~ acc ;;
        match pk_index pk with
        | None => Err
        | Some i => match pk_of i with Some _ => Ok tt | None => Err end
        end) (sc_pubkeys sc) (Ok tt).
  Definition load_sync_committees_go (pk_index : bytes -> option N) (pk_of : N -> option bytes) (st : BeaconState) : outcome unit :=
    _ <~ hydrate_ok pk_index pk_of (current_sync_committee st) ;; hydrate_ok pk_index pk_of (next_sync_committee st).

  (* UpgradeMaybe: five consecutive `if state is of fork F && atForkBoundary(spec, slot, NEXT_FORK_EPOCH)` blocks; `slot`
     is read once.  The type switch is the fork tag.  UpgradeToElectra is a stub that returns an error. *)
  Definition upgrade_maybe (fuel : nat) (committee_of : N -> N -> option (list N)) (sepc : SyncEpc)
             (pk_index : bytes -> option N) (fs : fork * BeaconState) : outcome (fork * BeaconState) :=
    let slot := slot (snd fs) in
    fs <~ (match fst fs with
           | Phase0 => b <~ at_fork_boundary slot (ALTAIR_FORK_EPOCH c) ;;
                       if b then post <~ upgrade_to_altair fuel committee_of sepc (snd fs) ;;
                                 _ <~ load_sync_committees_go pk_index (sy_pubkey_of sepc) post ;;
                                 Ok (Altair, post)
                       else Ok fs
           | _ => Ok fs end) ;;
    fs <~ (match fst fs with
           | Altair => b <~ at_fork_boundary slot (BELLATRIX_FORK_EPOCH c) ;;
                       if b then post <~ upgrade_to_bellatrix (snd fs) ;; Ok (Bellatrix, post) else Ok fs
           | _ => Ok fs end) ;;
    fs <~ (match fst fs with
           | Bellatrix => b <~ at_fork_boundary slot (CAPELLA_FORK_EPOCH c) ;;
                          if b then post <~ upgrade_to_capella (snd fs) ;; Ok (Capella, post) else Ok fs
           | _ => Ok fs end) ;;
    fs <~ (match fst fs with
           | Capella => b <~ at_fork_boundary slot (DENEB_FORK_EPOCH c) ;;
                        if b then post <~ upgrade_to_deneb (snd fs) ;; Ok (Deneb, post) else Ok fs
           | _ => Ok fs end) ;;
    match fst fs with
    | Deneb => b <~ at_fork_boundary slot electra_fork_epoch ;; if b then Err else Ok fs
    | _ => Ok fs
    end.
End Upgrades.
