(* Implementation model of zrnt's epoch slashings.
     /repo/eth2/beacon/phase0/slashings.go   ProcessEpochSlashings, SlashingsView.Total
     /repo/eth2/beacon/common/deltas.go      DecreaseBalance
     <fork>/state.go ForkSettings            ProportionalSlashingMultiplier per fork
   Inputs besides the state: ce = epc.CurrentEpoch.Epoch, active = epc.CurrentEpoch.ActiveIndices, flats = the snapshot
   taken at the start of ProcessEpoch (stale: registry updates ran in between).  `None` = Go error or panic. *)
From Coq Require Import NArith List Bool.
From RecordUpdate Require Import RecordSet.
From V Require Import Base.U64 Beacon.Config Beacon.State Beacon.Spec.Helpers Beacon.Impl.Flat.
Import ListNotations RecordSetNotations.
Local Open Scope N_scope.

Section Slashings.
  Variable c : Config.

  (* state.ForkSettings(spec).ProportionalSlashingMultiplier *)
  Definition proportional_slashing_multiplier_go (f : fork) : N :=
    match f with
    | Phase0 => PROPORTIONAL_SLASHING_MULTIPLIER c
    | Altair => PROPORTIONAL_SLASHING_MULTIPLIER_ALTAIR c
    | Bellatrix | Capella | Deneb => PROPORTIONAL_SLASHING_MULTIPLIER_BELLATRIX c
    end.

  (* totalActiveStake: sum of flats[v].EffectiveBalance over the active indices, clipped below at one increment *)
  Definition total_active_stake_go (active : list N) (flats : list FlatValidator) : option N :=
    match fold_left (fun (acc : option N) v =>
             match acc, nthN flats v with
             | Some a, Some fl => Some (add64 a (fl_effective_balance fl))
             | _, _ => None
             end) active (Some 0) with
    | None => None
    | Some t => Some (if t <? EFFECTIVE_BALANCE_INCREMENT c then EFFECTIVE_BALANCE_INCREMENT c else t)
    end.
  (* SlashingsView.Total *)
  Definition slashings_total_go (sl : list N) : N := fold_left add64 sl 0.

  (* common.DecreaseBalance *)
  Definition decrease_balance_go (bals : list N) (i delta : N) : option (list N) :=
    match nthN bals i with
    | None => None
    | Some b => Some (setN bals i (if delta <=? b then b - delta else 0))
    end.

  Definition slashing_step (slashings_epoch adj total : N) (acc : option (list N)) (ifl : N * FlatValidator)
    : option (list N) :=
    let '(i, fl) := ifl in
    match acc with
    | None => None
    | Some bals =>
        if fl_slashed fl && (slashings_epoch =? fl_withdrawable_epoch fl) then
          if EFFECTIVE_BALANCE_INCREMENT c =? 0 then None else       (* division by zero *)
          let numerator := fl_effective_balance fl / EFFECTIVE_BALANCE_INCREMENT c in
          let numerator := mul64 numerator adj in
          let penalty := mul64 (numerator / total) (EFFECTIVE_BALANCE_INCREMENT c) in
          decrease_balance_go bals i penalty
        else Some bals
    end.

  Definition process_epoch_slashings (f : fork) (ce : N) (active : list N) (flats : list FlatValidator)
             (st : BeaconState) : option BeaconState :=
    match total_active_stake_go active flats with
    | None => None
    | Some total =>
        let weight := mul64 (slashings_total_go (slashings st)) (proportional_slashing_multiplier_go f) in
        let adj := if total <? weight then total else weight in
        let slashings_epoch := add64 ce (EPOCHS_PER_SLASHINGS_VECTOR c / 2) in
        match fold_left (slashing_step slashings_epoch adj total) (indexed flats) (Some (balances st)) with
        | None => None
        | Some bals => Some (st <| balances := bals |>)
        end
    end.
End Slashings.
