(* Implementation model of zrnt's altair-family attester data, flag deltas, inactivity penalties and scores.
     /repo/eth2/beacon/altair/attester.go            ComputeEpochAttesterData
     /repo/eth2/beacon/altair/deltas.go              ComputeFlagDeltas, ComputeInactivityPenaltyDeltas,
                                                     AttestationRewardsAndPenalties, ProcessEpochRewardsAndPenalties
     /repo/eth2/beacon/altair/inactivity_scores.go   ProcessInactivityUpdates
     /repo/eth2/beacon/common/deltas.go              Deltas.Add, ApplyDeltas
   Used unchanged by bellatrix, capella and deneb (only ForkSettings.InactivityPenaltyQuotient differs).
   `None` = Go error or run-time panic (zero divisor, index out of range). *)
From Coq Require Import NArith List Bool.
From RecordUpdate Require Import RecordSet.
From V Require Import Base.U64 Beacon.Config Beacon.State Beacon.Spec.Helpers Beacon.Impl.Flat.
Import ListNotations RecordSetNotations.
Local Open Scope N_scope.

Definition TIMELY_SOURCE_FLAG : N := 1.
Definition TIMELY_TARGET_FLAG : N := 2.
Definition TIMELY_HEAD_FLAG : N := 4.
(* flags & mask != 0 *)
Definition flag_set (flags mask : N) : bool := negb (N.land flags mask =? 0).

Record EpochAttesterData := mkAttData {
  ad_prev_epoch : N;
  ad_cur_epoch : N;
  ad_flats : list FlatValidator;
  ad_eligible : list N;          (* EligibleIndices *)
  ad_prev_part : list N;         (* PrevParticipation (raw copy) *)
  ad_cur_part : list N;          (* CurrParticipation *)
  ad_prev_source_stake : N;      (* PrevEpochUnslashedStake.SourceStake *)
  ad_prev_target_stake : N;
  ad_prev_head_stake : N;
  ad_cur_target_stake : N }.     (* CurrEpochUnslashedTargetStake *)

Record Deltas := mkDeltas { d_rewards : list N; d_penalties : list N }.

Section Altair.
  Variable c : Config.
  Notation INC := (EFFECTIVE_BALANCE_INCREMENT c).

  Definition clip_inc (x : N) : N := if x <? INC then INC else x.

  (* eligibility check of ComputeEpochAttesterData *)
  Definition eligible_cond (pe : N) (fl : FlatValidator) : bool :=
    fl_is_active fl pe || (fl_slashed fl && (add64 pe 1 <? fl_withdrawable_epoch fl)).
  Definition eligible_indices (pe : N) (flats : list FlatValidator) : list N :=
    map fst (filter (fun ifl => eligible_cond pe (snd ifl)) (indexed flats)).

  (* the stake loop over epc.PreviousEpoch.ActiveIndices: previous-epoch source/target/head stakes *)
  Definition stake_step (flats : list FlatValidator) (prev_part : list N)
             (acc : option (N * N * N)) (vi : N) : option (N * N * N) :=
    match acc with
    | None => None
    | Some (s, t, h) =>
        match nthN flats vi with
        | None => None
        | Some fl =>
            if fl_slashed fl then acc else
            match nthN prev_part vi with
            | Some pf =>
                let eff := fl_effective_balance fl in
                Some (if flag_set pf TIMELY_SOURCE_FLAG then add64 s eff else s,
                      if flag_set pf TIMELY_TARGET_FLAG then add64 t eff else t,
                      if flag_set pf TIMELY_HEAD_FLAG then add64 h eff else h)
            | None => None
            end
        end
    end.
  (* the current-epoch target stake: over epc.CurrentEpoch.ActiveIndices (coordinator's fix dcd1587 applied) *)
  Definition cur_target_step (flats : list FlatValidator) (cur_part : list N) (acc : option N) (vi : N) : option N :=
    match acc with
    | None => None
    | Some ct =>
        match nthN flats vi with
        | None => None
        | Some fl =>
            if fl_slashed fl then acc else
            match nthN cur_part vi with
            | Some cf => Some (if flag_set cf TIMELY_TARGET_FLAG then add64 ct (fl_effective_balance fl) else ct)
            | None => None
            end
        end
    end.
  (* `cur_active` is the index list the current-epoch target stake is summed over *)
  Definition compute_epoch_attester_data_over (cur_active : list N) (epc : EpcView) (flats : list FlatValidator)
             (st : BeaconState) : option EpochAttesterData :=
    let pe := epc_prev_epoch epc in
    let prev_part := previous_epoch_participation st in
    let cur_part := current_epoch_participation st in
    match fold_left (stake_step flats prev_part) (epc_prev_active epc) (Some (0, 0, 0)),
          fold_left (cur_target_step flats cur_part) cur_active (Some 0) with
    | Some (s, t, h), Some ct =>
        Some (mkAttData pe (epc_cur_epoch epc) flats (eligible_indices pe flats) prev_part cur_part
                        (clip_inc s) (clip_inc t) (clip_inc h) (clip_inc ct))
    | _, _ => None
    end.
  Definition compute_epoch_attester_data (epc : EpcView) := compute_epoch_attester_data_over (epc_cur_active epc) epc.
  (* the pinned snapshot (commit 381eb87) summed the current-epoch target stake inside the loop over
     epc.PreviousEpoch.ActiveIndices; on in-range indices that is the same fold over the previous epoch's active set *)
  Definition compute_epoch_attester_data_orig (epc : EpcView) := compute_epoch_attester_data_over (epc_prev_active epc) epc.

  (* ---- ComputeFlagDeltas ---- *)
  Definition participating_step (ad : EpochAttesterData) (flag : N) (acc : option N) (vi : N) : option N :=
    match acc with
    | None => None
    | Some a =>
        match nthN (ad_flats ad) vi, nthN (ad_prev_part ad) vi with
        | Some fl, Some pf => if negb (fl_slashed fl) && flag_set pf flag then Some (add64 a (fl_effective_balance fl)) else Some a
        | _, _ => None
        end
    end.
  Definition flag_delta_step (ad : EpochAttesterData) (flag weight part_incr active_incr brpi : N) (leak : bool)
             (acc : option Deltas) (vi : N) : option Deltas :=
    match acc with
    | None => None
    | Some d =>
        match nthN (ad_flats ad) vi, nthN (ad_prev_part ad) vi with
        | Some fl, Some pf =>
            let increments := fl_effective_balance fl / INC in
            let base_reward := mul64 increments brpi in
            if negb (fl_slashed fl) && flag_set pf flag then
              if leak then Some d else
              let num := mul64 (mul64 base_reward weight) part_incr in
              let den := mul64 active_incr WEIGHT_DENOMINATOR in
              if den =? 0 then None
              else Some (mkDeltas (updN (d_rewards d) vi (fun r => add64 r (num / den))) (d_penalties d))
            else if flag =? TIMELY_HEAD_FLAG then Some d
            else Some (mkDeltas (d_rewards d) (updN (d_penalties d) vi (fun p => add64 p (mul64 base_reward weight / WEIGHT_DENOMINATOR))))
        | _, _ => None
        end
    end.
  Definition new_deltas (n : nat) : Deltas := mkDeltas (repeat 0 n) (repeat 0 n).
  Definition compute_flag_deltas (epc : EpcView) (ad : EpochAttesterData) (flag weight : N) (leak : bool) : option Deltas :=
    match fold_left (participating_step ad flag) (epc_prev_active epc) (Some 0) with
    | None => None
    | Some upb =>
        if INC =? 0 then None else
        let part_incr := clip_inc upb / INC in
        let active_incr := epc_total_active_stake epc / INC in
        if epc_total_active_stake_sqrt epc =? 0 then None else
        let brpi := mul64 INC (BASE_REWARD_FACTOR c) / epc_total_active_stake_sqrt epc in
        fold_left (flag_delta_step ad flag weight part_incr active_incr brpi leak) (ad_eligible ad)
                  (Some (new_deltas (length (ad_flats ad))))
    end.

  (* ---- ComputeInactivityPenaltyDeltas ---- *)
  Definition inactivity_delta_step (ad : EpochAttesterData) (scores : list N) (den : N)
             (acc : option Deltas) (vi : N) : option Deltas :=
    match acc with
    | None => None
    | Some d =>
        match nthN (ad_flats ad) vi, nthN (ad_prev_part ad) vi with
        | Some fl, Some pf =>
            if negb (negb (fl_slashed fl) && flag_set pf TIMELY_TARGET_FLAG) then
              match nthN scores vi with
              | None => None
              | Some score =>
                  if den =? 0 then None else
                  Some (mkDeltas (d_rewards d)
                                 (updN (d_penalties d) vi (fun p => add64 p (mul64 (fl_effective_balance fl) score / den))))
              end
            else Some d
        | _, _ => None
        end
    end.
  Definition inactivity_penalty_quotient_go (f : fork) : N :=
    match f with
    | Phase0 => INACTIVITY_PENALTY_QUOTIENT c
    | Altair => INACTIVITY_PENALTY_QUOTIENT_ALTAIR c
    | Bellatrix | Capella | Deneb => INACTIVITY_PENALTY_QUOTIENT_BELLATRIX c
    end.
  Definition compute_inactivity_penalty_deltas (f : fork) (ad : EpochAttesterData) (scores : list N) : option Deltas :=
    let den := mul64 (INACTIVITY_SCORE_BIAS c) (inactivity_penalty_quotient_go f) in
    fold_left (inactivity_delta_step ad scores den) (ad_eligible ad) (Some (new_deltas (length (ad_flats ad)))).

  (* finalityDelay := PrevEpoch - finalized.Epoch (uint64 subtraction, wraps); leak := delay > MIN_EPOCHS_TO_INACTIVITY_PENALTY *)
  Definition is_leak_go (ad : EpochAttesterData) (st : BeaconState) : bool :=
    MIN_EPOCHS_TO_INACTIVITY_PENALTY c <? sub64 (ad_prev_epoch ad) (cp_epoch (finalized_checkpoint st)).

  (* Deltas.Add *)
  Definition deltas_add (a b : Deltas) : Deltas :=
    mkDeltas (map (fun p => add64 (fst p) (snd p)) (combine (d_rewards a) (d_rewards b)))
             (map (fun p => add64 (fst p) (snd p)) (combine (d_penalties a) (d_penalties b))).
  (* common.ApplyDeltas *)
  Definition apply_deltas_go (bals : list N) (d : Deltas) : option (list N) :=
    if negb (Nat.eqb (length (d_penalties d)) (length bals)) || negb (Nat.eqb (length (d_rewards d)) (length bals)) then None
    else Some (map (fun x => let '(b, (r, p)) := x in
                             let b := add64 b r in if p <=? b then b - p else 0)
                   (combine bals (combine (d_rewards d) (d_penalties d)))).

  (* AttestationRewardsAndPenalties + ProcessEpochRewardsAndPenalties: the four delta sets are SUMMED, then applied once *)
  Definition process_epoch_rewards_and_penalties (f : fork) (epc : EpcView) (ad : EpochAttesterData) (st : BeaconState)
    : option BeaconState :=
    if epc_cur_epoch epc =? GENESIS_EPOCH then Some st else
    let leak := is_leak_go ad st in
    match compute_flag_deltas epc ad TIMELY_SOURCE_FLAG TIMELY_SOURCE_WEIGHT leak,
          compute_flag_deltas epc ad TIMELY_TARGET_FLAG TIMELY_TARGET_WEIGHT leak,
          compute_flag_deltas epc ad TIMELY_HEAD_FLAG TIMELY_HEAD_WEIGHT leak,
          compute_inactivity_penalty_deltas f ad (inactivity_scores st) with
    | Some ds, Some dt, Some dh, Some di =>
        let sum := new_deltas (length (ad_flats ad)) in
        let sum := deltas_add (deltas_add (deltas_add (deltas_add sum ds) dt) dh) di in
        match apply_deltas_go (balances st) sum with
        | None => None
        | Some bals => Some (st <| balances := bals |>)
        end
    | _, _, _, _ => None
    end.

  (* ---- ProcessInactivityUpdates ---- *)
  Definition inactivity_update_step (ad : EpochAttesterData) (leak : bool) (acc : option (list N)) (vi : N) : option (list N) :=
    match acc with
    | None => None
    | Some scores =>
        match nthN scores vi, nthN (ad_flats ad) vi, nthN (ad_prev_part ad) vi with
        | Some score, Some fl, Some pf =>
            let s := if negb (fl_slashed fl) && flag_set pf TIMELY_TARGET_FLAG
                     then (if 0 <? score then score - 1 else score)
                     else add64 score (INACTIVITY_SCORE_BIAS c) in
            let s := if leak then s
                     else if s <? INACTIVITY_SCORE_RECOVERY_RATE c then 0 else s - INACTIVITY_SCORE_RECOVERY_RATE c in
            if s =? score then Some scores else Some (setN scores vi s)
        | _, _, _ => None
        end
    end.
  Definition process_inactivity_updates (ad : EpochAttesterData) (st : BeaconState) : option BeaconState :=
    if ad_cur_epoch ad =? GENESIS_EPOCH then Some st else
    match fold_left (inactivity_update_step ad (is_leak_go ad st)) (ad_eligible ad) (Some (inactivity_scores st)) with
    | None => None
    | Some scores => Some (st <| inactivity_scores := scores |>)
    end.
End Altair.
