(* Implementation model of zrnt's committee and proposer computation.
     /repo/eth2/beacon/common/shuffling.go   LoadBoundedIndices, ActiveIndices, CommitteeCount, NewShufflingEpoch
     /repo/eth2/beacon/common/proposers.go   ComputeProposerIndex, ComputeProposers (proposer part)
   Models only; proofs are in Beacon/Refine/ShufflingRefine.v and ProposersRefine.v.

   zrnt does NOT compute committees index by index: NewShufflingEpoch copies the active indices, calls
   UnshuffleList on the copy (the in-place whole-list routine; its model is Shuffle/ShuffleModel.v, C06) and cuts the
   result into SLOTS_PER_EPOCH * committeesPerSlot slices.  Conventions: Go uint64 arithmetic that can wrap is written
   with add64/mul64 (Base/U64.v); results are `outcome`s (Base/Outcome.v): `Panic` = run-time panic (slice bounds,
   division by zero), `Err` = Go returned an error.  A Go slice cannot hold 2^64 elements, so the running index of
   LoadBoundedIndices is not wrapped. *)
From Coq Require Import NArith List Bool.
From V Require Import Base.U64 Base.Outcome Ssz.SszCore Beacon.Config Beacon.State Beacon.Spec.Helpers.
From V Require Math.MathModel Shuffle.ShuffleModel.
Import ListNotations.
Local Open Scope N_scope.

(* type BoundedIndex struct { Index ValidatorIndex; Activation Epoch; Exit Epoch } *)
Record BoundedIndex := mkBounded { bi_index : N; bi_activation : N; bi_exit : N }.

(* LoadBoundedIndices: i := 0; for each validator { out[i] = {i, activation, exit}; i++ } *)
Fixpoint load_bounded_from (i : N) (vals : list Validator) : list BoundedIndex :=
  match vals with
  | [] => []
  | v :: t => mkBounded i (v_activation_epoch v) (v_exit_epoch v) :: load_bounded_from (i + 1) t
  end.
Definition load_bounded_indices (vals : list Validator) : list BoundedIndex := load_bounded_from 0 vals.

(* ActiveIndices: for _, v := range indicesBounded { if v.Activation <= epoch && epoch < v.Exit { out = append(out, v.Index) } } *)
Definition active_indices_impl (bounded : list BoundedIndex) (epoch : N) : list N :=
  map bi_index (filter (fun v => (bi_activation v <=? epoch) && (epoch <? bi_exit v)) bounded).

(* s[a:b] on a slice with cap = len: panics unless a <= b <= len *)
Definition slice {A} (l : list A) (a b : N) : outcome (list A) :=
  if (a <=? b) && (b <=? N.of_nat (length l)) then Ok (firstn (N.to_nat (b - a)) (skipn (N.to_nat a) l))
  else Panic IndexOOR.

Fixpoint ok_all {A} (l : list (outcome A)) : outcome (list A) :=
  match l with
  | [] => Ok []
  | x :: t => bind x (fun a => bind (ok_all t) (fun r => Ok (a :: r)))
  end.

Record ShufflingEpoch := mkShufflingEpoch {
  se_epoch : N;
  se_active : list N;                  (* ActiveIndices *)
  se_shuffling : list N;               (* Shuffling *)
  se_committees : list (list (list N)) (* Committees: slot -> committee index -> members *) }.

Section ShufflingImpl.
  Variable E : Env.
  Let c := cfg E.

  (* CommitteeCount(spec, activeValidators): the C19 model of the same Go function *)
  Definition committee_count_impl (active : N) : N :=
    MathModel.committee_count (SLOTS_PER_EPOCH c) (TARGET_COMMITTEE_SIZE c) (MAX_COMMITTEES_PER_SLOT c) active.

  (* body of the two nested loops of NewShufflingEpoch:
       index := (slot * committeesPerSlot) + slotIndex
       startOffset := (validatorCount * index) / committeeCount
       endOffset := (validatorCount * (index + 1)) / committeeCount
       committee := shep.Shuffling[startOffset:endOffset] *)
  Definition impl_committee (shuffling : list N) (per_slot slot slot_index : N) : outcome (list N) :=
    let validator_count := N.of_nat (length shuffling) in
    let committee_count := mul64 per_slot (SLOTS_PER_EPOCH c) in
    let index := add64 (mul64 slot per_slot) slot_index in
    if committee_count =? 0 then Panic DivZero else
    let start_offset := mul64 validator_count index / committee_count in
    let end_offset := mul64 validator_count (add64 index 1) / committee_count in
    slice shuffling start_offset end_offset.

  (* NewShufflingEpoch(spec, indicesBounded, seed, epoch); uint8(spec.SHUFFLE_ROUND_COUNT) truncates *)
  Definition new_shuffling_epoch (bounded : list BoundedIndex) (seed : bytes) (epoch : N) : outcome ShufflingEpoch :=
    let active := active_indices_impl bounded epoch in
    bind (ShuffleModel.unshuffle_list (Hash E) seed (ShuffleModel.wrap8 (SHUFFLE_ROUND_COUNT c)) active) (fun shuffling =>
      let validator_count := N.of_nat (length shuffling) in
      let per_slot := committee_count_impl validator_count in
      bind (ok_all (map (fun slot =>
                      ok_all (map (fun slot_index => impl_committee shuffling per_slot slot slot_index)
                                  (seqN 0 (N.to_nat per_slot))))
                    (seqN 0 (N.to_nat (SLOTS_PER_EPOCH c)))))
           (fun comms => Ok (mkShufflingEpoch epoch active shuffling comms))).

  (* lookup shep.Committees[slot][index] *)
  Definition committee_at (she : ShufflingEpoch) (slot_in_epoch index : N) : option (list N) :=
    match nthN (se_committees she) slot_in_epoch with Some row => nthN row index | None => None end.

  (* ---------------- proposers.go ---------------- *)
  (* ComputeProposerIndex(spec, registry, active, seed):
       if len(active) == 0 { error }
       for i := 0; i < 1000; i++ { h := hash(seed ++ le8(i))
         for j := 0; j < 32; j++ { randomByte := h[j]
           absI := ((i << 5) | j) % len(active)
           shuffledI := PermuteIndex(uint8(SHUFFLE_ROUND_COUNT), absI, len(active), seed)
           candidateIndex := active[shuffledI]                       (index out of range panics)
           effectiveBalance of registry.Validator(candidateIndex)    (unknown validator: error)
           if effectiveBalance*0xff >= MAX_EFFECTIVE_BALANCE*Gwei(randomByte) { return candidateIndex } } }
       error *)
  Definition le8 (v : N) : bytes := le_bytes 8 v.
  Fixpoint proposer_inner (fuel : nat) (vals : list Validator) (active : list N) (seed h : bytes) (i j : N)
    : outcome (option N) :=                      (* Ok None = inner loop finished without a proposer *)
    match fuel with
    | O => Ok None
    | S k =>
        let random_byte := nth (N.to_nat j) h 0 in
        let total := N.of_nat (length active) in
        let abs_i := (N.lor (shl64 i 5) j) mod total in
        bind (ShuffleModel.permute_index (Hash E) seed (ShuffleModel.wrap8 (SHUFFLE_ROUND_COUNT c)) abs_i total) (fun sh =>
          match nth_error active (N.to_nat sh) with
          | None => Panic IndexOOR
          | Some cand =>
              match nthN vals cand with
              | None => Err
              | Some v =>
                  if mul64 (MAX_EFFECTIVE_BALANCE c) random_byte <=? mul64 (v_effective_balance v) 255
                  then Ok (Some cand)
                  else proposer_inner k vals active seed h i (j + 1)
              end
          end)
    end.
  Fixpoint proposer_outer (fuel : nat) (vals : list Validator) (active : list N) (seed : bytes) (i : N) : outcome N :=
    match fuel with
    | O => Err                                   (* "should always find a proposer" *)
    | S k =>
        let h := Hash E (seed ++ le8 i) in
        bind (proposer_inner 32 vals active seed h i 0) (fun r =>
          match r with
          | Some cand => Ok cand
          | None => proposer_outer k vals active seed (i + 1)
          end)
    end.
  Definition compute_proposer_index_impl (vals : list Validator) (active : list N) (seed : bytes) : outcome N :=
    if N.of_nat (length active) =? 0 then Err else proposer_outer 1000 vals active seed 0.

  (* ComputeProposers, proposer part: seed_i = hash(epochSeed ++ le8(startSlot + i)) for i < SLOTS_PER_EPOCH *)
  Definition compute_proposers_impl (vals : list Validator) (active : list N) (epoch_seed : bytes) (start_slot : N)
    : outcome (list N) :=
    if N.of_nat (length active) =? 0 then Err else
    ok_all (map (fun i => compute_proposer_index_impl vals active (Hash E (epoch_seed ++ le8 (add64 start_slot i))))
                (seqN 0 (N.to_nat (SLOTS_PER_EPOCH c)))).
  (* ---------------- sync_committee.go ---------------- *)
  (* ComputeSyncCommitteeIndices(spec, state, baseEpoch, active), the sampling loop (seed = GetSeed(.., DOMAIN_SYNC_COMMITTEE)):
       i := 0 ; var h [32]byte
       for len(out) < SYNC_COMMITTEE_SIZE {
         shuffledIndex := PermuteIndex(uint8(SHUFFLE_ROUND_COUNT), i % len(active), len(active), seed)
         candidateIndex := active[shuffledIndex] ; effectiveBalance of vals.Validator(candidateIndex)
         if i%32 == 0 { h = hash(seed ++ le8(i/32)) }             (the hash is CACHED for 32 candidates)
         randomByte := h[i%32]
         if effectiveBalance*0xff >= MAX_EFFECTIVE_BALANCE*randomByte { out = append(out, candidateIndex) }
         i += 1 }
     The Go loop has no iteration cap; `fuel` is the model's (OutOfFuel = "has not returned yet").
     Not modelled: the baseEpoch > epoch+1 guard (the seed is a parameter here). *)
  Fixpoint sync_indices_loop (fuel : nat) (vals : list Validator) (active : list N) (seed h : bytes) (i : N)
           (acc : list N) (size : N) : outcome (list N) :=
    match fuel with
    | O => if N.of_nat (length acc) <? size then OutOfFuel else Ok acc
    | S k =>
        if N.of_nat (length acc) <? size then
          let total := N.of_nat (length active) in
          bind (ShuffleModel.permute_index (Hash E) seed (ShuffleModel.wrap8 (SHUFFLE_ROUND_COUNT c)) (i mod total) total) (fun sh =>
            match nth_error active (N.to_nat sh) with
            | None => Panic IndexOOR
            | Some cand =>
                match nthN vals cand with
                | None => Err
                | Some v =>
                    let h' := if i mod 32 =? 0 then Hash E (seed ++ le8 (i / 32)) else h in
                    let random_byte := nth (N.to_nat (i mod 32)) h' 0 in
                    let acc' := if mul64 (MAX_EFFECTIVE_BALANCE c) random_byte <=? mul64 (v_effective_balance v) 255
                                then acc ++ [cand] else acc in
                    sync_indices_loop k vals active seed h' (add64 i 1) acc' size
                end
            end)
        else Ok acc
    end.
  Definition compute_sync_committee_indices_impl (fuel : nat) (vals : list Validator) (active : list N) (seed : bytes)
    : outcome (list N) :=
    if N.of_nat (length active) =? 0 then Err
    else sync_indices_loop fuel vals active seed (repeat 0 32) 0 [] (SYNC_COMMITTEE_SIZE c).
End ShufflingImpl.
