(* zrnt `common.FlatValidator` (eth2/beacon/common/flat.go): the flat snapshot of the validator registry that
   every zrnt epoch sub-transition reads instead of the state tree.  The snapshot is taken ONCE, at the start of
   `ProcessEpoch` (`common.FlattenValidators(vals)`), and is NOT refreshed between the sub-transitions: registry
   updates, slashings and effective-balance updates all read the snapshot taken before justification. *)
From Coq Require Import NArith List Bool.
From V Require Import Base.U64 Beacon.Config Beacon.State.
Import ListNotations.
Local Open Scope N_scope.

Record FlatValidator := mkFlat {
  fl_effective_balance : N;
  fl_slashed : bool;
  fl_activation_eligibility_epoch : N;
  fl_activation_epoch : N;
  fl_exit_epoch : N;
  fl_withdrawable_epoch : N }.

(* phase0 ValidatorView.Flatten *)
Definition flatten (v : Validator) : FlatValidator :=
  mkFlat (v_effective_balance v) (v_slashed v) (v_activation_eligibility_epoch v) (v_activation_epoch v)
         (v_exit_epoch v) (v_withdrawable_epoch v).
(* common.FlattenValidators *)
Definition flatten_validators (vs : list Validator) : list FlatValidator := map flatten vs.

(* func (v *FlatValidator) IsActive(epoch Epoch) bool *)
Definition fl_is_active (fl : FlatValidator) (epoch : N) : bool :=
  (fl_activation_epoch fl <=? epoch) && (epoch <? fl_exit_epoch fl).

(* Go `for i, x := range xs` index supply: positions 0.. as uint64 (a slice cannot be longer than 2^63). *)
Fixpoint indexed_from {A} (start : N) (l : list A) : list (N * A) :=
  match l with [] => [] | x :: l' => (start, x) :: indexed_from (start + 1) l' end.
Definition indexed {A} (l : list A) : list (N * A) := indexed_from 0 l.

(* slice/list element access `xs[i]` is `nthN` of Spec/Helpers.v (a list utility, not a spec function);
   None models the Go index-out-of-range panic (or the tree view's error); `updN` likewise is `xs[i] = f(xs[i])`. *)

(* The part of zrnt's `common.EpochsContext` that the epoch sub-transitions read (besides committees):
   PreviousEpoch/CurrentEpoch/NextEpoch .Epoch and .ActiveIndices, TotalActiveStake, TotalActiveStakeSqRoot. *)
Record EpcView := mkEpcView {
  epc_prev_epoch : N;
  epc_cur_epoch : N;
  epc_next_epoch : N;
  epc_prev_active : list N;
  epc_cur_active : list N;
  epc_total_active_stake : N;
  epc_total_active_stake_sqrt : N }.
