(* Implementation model of zrnt's slot / epoch pipeline: the ORDER in which zrnt runs its sub-transitions and what each
   of them is handed.
     /repo/eth2/beacon/common/transition.go      ProcessSlot, ProcessSlots
     /repo/eth2/beacon/phase0/transition.go      BeaconStateView.ProcessEpoch
     /repo/eth2/beacon/altair/transition.go, bellatrix/, capella/, deneb/   ProcessEpoch
   MODELS ONLY (proofs: Beacon/Refine/EpochAssembly.v).  The sub-transition models are those of Impl/{Registry,
   Justification, Final, Slashings, AltairAttester, Phase0Attester, SyncRotation, Upgrades}.v.

   Every ProcessEpoch starts with `flats := common.FlattenValidators(vals)` and the attester data, both computed ONCE
   from the state as it is before justification, and hands the same `flats` to registry updates, slashings and
   effective-balance updates, and the same attester data to justification, inactivity updates and rewards.

   The epochs context is not threaded as a mutable object: `EpochCtx` is what zrnt's (rotated, live) context holds when
   the state is consulted; `ctx_of f st` supplies it for the state at hand.  That the live context equals the one
   computed from the state is C08's theorem and is a hypothesis (`CtxOk`) of the refinement theorems.
   A sub-model returning `None` (Go error, or a run-time panic: the sub-models do not distinguish) is `Err` here. *)
From Coq Require Import NArith List Bool.
From RecordUpdate Require Import RecordSet.
From V Require Import Base.U64 Base.Outcome Ssz.SszCore Beacon.Config Beacon.Schemas Beacon.State
  Beacon.Spec.Helpers Beacon.Spec.Epoch Beacon.Spec.Transition.
From V Require Import Beacon.Impl.Flat Beacon.Impl.Registry Beacon.Impl.Justification Beacon.Impl.Final Beacon.Impl.Slashings
  Beacon.Impl.AltairAttester Beacon.Impl.Phase0Attester Beacon.Impl.SyncRotation Beacon.Impl.Upgrades.
Import ListNotations RecordSetNotations.
Local Open Scope N_scope.

Record EpochCtx := mkEpochCtx {
  cx_epc : EpcView;                              (* epochs, previous/current active indices, total active stake (+ sqrt) *)
  cx_committee_of : N -> N -> option (list N);   (* epc.GetBeaconCommittee(slot, index); None = its error *)
  cx_sync : SyncEpc;                             (* epc.NextEpoch (epoch, active indices), ValidatorPubkeyCache.Pubkey *)
  cx_pk_index : bytes -> option N                (* ValidatorPubkeyCache.ValidatorIndex *)
}.

Section Pipeline.
  Variable E : Env.
  Variable pubkey_ok : bytes -> bool.
  Variable electra_fork_epoch : N.
  Variable fuel : nat.                           (* bound on the candidates the sync-committee sampling may examine *)
  Let c := cfg E.

  (* ---------- common.ProcessSlot ---------- *)
  (* BatchRootsView.SetRoot(slot, r): i := slot % VectorLength (the type's SLOTS_PER_HISTORICAL_ROOT); Set(i, r) *)
  Definition set_root_go (roots : list bytes) (s : N) (r : bytes) : outcome (list bytes) :=
    if SLOTS_PER_HISTORICAL_ROOT c =? 0 then Panic DivZero else
    match nthN roots (s mod SLOTS_PER_HISTORICAL_ROOT c) with
    | Some _ => Ok (setN roots (s mod SLOTS_PER_HISTORICAL_ROOT c) r)
    | None => Err
    end.
  (* state.HashTreeRoot / latestHeader.HashTreeRoot: the SSZ roots (C05) *)
  Definition process_slot (f : fork) (st : BeaconState) : outcome BeaconState :=
    let previous_state_root := state_root E f st in
    sr <~ set_root_go (state_roots st) (slot st) previous_state_root ;;
    let st := st <| state_roots := sr |> in
    let h := latest_block_header st in
    let is_zero := bytes_eqb (h_state_root h) zero32 in                   (* latestHeader.StateRoot == (Root{}) *)
    let h := if is_zero then mkHeader (h_slot h) (h_proposer_index h) (h_parent_root h) previous_state_root (h_body_root h) else h in
    let st := if is_zero then st <| latest_block_header := h |> else st in  (* SetLatestBlockHeader only then *)
    let previous_block_root := htr E BeaconBlockHeaderT (header_to_value h) in
    br <~ set_root_go (block_roots st) (slot st) previous_block_root ;;
    Ok (st <| block_roots := br |>).

  (* ---------- ProcessEpoch ---------- *)
  Definition just_data (epc : EpcView) (prev_target cur_target : N) : JustificationStakeData :=
    mkJustData (epc_cur_epoch epc) (epc_total_active_stake epc) prev_target cur_target.

  (* the part shared by all forks after rewards: registry, slashings, eth1 reset, effective balances, slashings reset,
     randao reset, historical accumulator *)
  Definition process_epoch_tail (f : fork) (cx : EpochCtx) (flats : list FlatValidator) (st : BeaconState) : outcome BeaconState :=
    let epc := cx_epc cx in
    st <~ of_opt (Registry.process_registry_updates c f (epc_cur_epoch epc) flats st) ;;   (* deneb: its own variant *)
    st <~ of_opt (process_epoch_slashings c f (epc_cur_epoch epc) (epc_cur_active epc) flats st) ;;
    st <~ of_opt (Final.process_eth1_data_reset E (epc_next_epoch epc) st) ;;
    st <~ of_opt (Final.process_effective_balance_updates E flats st) ;;
    st <~ of_opt (Final.process_slashings_reset E (epc_next_epoch epc) st) ;;
    st <~ of_opt (Final.process_randao_mixes_reset E (epc_next_epoch epc) st) ;;
    (* phase0, altair, bellatrix: ProcessHistoricalRootsUpdate; capella, deneb: ProcessHistoricalSummariesUpdate *)
    of_opt (Final.process_historical_update E f (epc_next_epoch epc) st).

  Definition process_epoch_phase0 (cx : EpochCtx) (st : BeaconState) : outcome BeaconState :=
    let epc := cx_epc cx in
    let flats := flatten_validators (validators st) in
    ad <~ of_opt (compute_epoch_attester_data0 c (cx_committee_of cx) epc flats st) ;;
    st <~ of_opt (process_epoch_justification c (just_data epc (p0_prev_target_stake ad) (p0_cur_target_stake ad)) st) ;;
    st <~ of_opt (process_epoch_rewards_and_penalties0 c epc ad st) ;;
    st <~ process_epoch_tail Phase0 cx flats st ;;
    Ok (Final.process_participation_record_updates st).

  (* altair, bellatrix, capella, deneb: the same sequence (f selects the quotients/multipliers, the deneb activation
     churn limit and the historical accumulator) *)
  Definition process_epoch_altair (f : fork) (cx : EpochCtx) (st : BeaconState) : outcome BeaconState :=
    let epc := cx_epc cx in
    let flats := flatten_validators (validators st) in
    ad <~ of_opt (compute_epoch_attester_data c epc flats st) ;;
    st <~ of_opt (process_epoch_justification c (just_data epc (ad_prev_target_stake ad) (ad_cur_target_stake ad)) st) ;;
    st <~ of_opt (AltairAttester.process_inactivity_updates c ad st) ;;
    st <~ of_opt (process_epoch_rewards_and_penalties c f epc ad st) ;;
    st <~ process_epoch_tail f cx flats st ;;
    let st := Final.process_participation_flag_updates st in
    SyncRotation.process_sync_committee_updates E pubkey_ok fuel (cx_sync cx) st.

  Definition process_epoch (f : fork) (cx : EpochCtx) (st : BeaconState) : outcome BeaconState :=
    match f with Phase0 => process_epoch_phase0 cx st | _ => process_epoch_altair f cx st end.

  (* ---------- one iteration of the loop of ProcessSlots ----------
     ProcessSlot; isEpochEnd := SlotToEpoch(currentSlot+1) != SlotToEpoch(currentSlot); ProcessEpoch; SetSlot(currentSlot+1);
     (RotateEpochs: context only); UpgradeMaybe.  `ctx_of` gives the context for ProcessEpoch (the live one) and the one
     for UpgradeMaybe (the rotated one) from the state each is consulted at. *)
  Variable ctx_of : fork -> BeaconState -> EpochCtx.

  Definition slot_step (f : fork) (st : BeaconState) : outcome (fork * BeaconState) :=
    let current_slot := slot st in
    st <~ process_slot f st ;;
    if SLOTS_PER_EPOCH c =? 0 then Panic DivZero else
    let is_epoch_end := negb (add64 current_slot 1 / SLOTS_PER_EPOCH c =? current_slot / SLOTS_PER_EPOCH c) in
    st <~ (if is_epoch_end then process_epoch f (ctx_of f st) st else Ok st) ;;
    let st := st <| slot := add64 current_slot 1 |> in
    let cx := ctx_of f st in
    Upgrades.upgrade_maybe E pubkey_ok electra_fork_epoch fuel (cx_committee_of cx) (cx_sync cx) (cx_pk_index cx) (f, st).

  (* ProcessSlots: `if currentSlot >= slot { error }; for currentSlot < slot { ... }`; n bounds the iterations *)
  Fixpoint slots_loop (n : nat) (f : fork) (st : BeaconState) (target : N) : outcome (fork * BeaconState) :=
    if target <=? slot st then Ok (f, st) else
    match n with
    | O => OutOfFuel
    | S k => fs <~ slot_step f st ;; slots_loop k (fst fs) (snd fs) target
    end.
  Definition process_slots (f : fork) (st : BeaconState) (target : N) : outcome (fork * BeaconState) :=
    if target <=? slot st then Err else slots_loop (N.to_nat (target - slot st)) f st target.
End Pipeline.
