(* Implementation model of zrnt's "final updates" of an epoch.
     /repo/eth2/beacon/phase0/final.go       ProcessEffectiveBalanceUpdates, ProcessEth1DataReset, ProcessSlashingsReset,
                                             ProcessRandaoMixesReset, ProcessHistoricalRootsUpdate,
                                             ProcessParticipationRecordUpdates
     /repo/eth2/beacon/common/history.go     UpdateHistoricalRoots ("emulating HistoricalBatch": tree.Hash of the two vector roots)
     /repo/eth2/beacon/common/randao.go      PrepareRandao
     /repo/eth2/beacon/capella/transition.go ProcessHistoricalSummariesUpdate, UpdateHistoricalSummaries
     /repo/eth2/beacon/altair/participation.go ProcessParticipationFlagUpdates
   `next_epoch` is epc.NextEpoch.Epoch.  `None` = Go error, or a run-time panic (zero divisor, slice index out of
   range); the refinement theorems show `Some` under their hypotheses. *)
From Coq Require Import NArith List Bool.
From RecordUpdate Require Import RecordSet.
From V Require Import Base.U64 Ssz.SszCore Beacon.Config Beacon.Schemas Beacon.State Beacon.Spec.Helpers Beacon.Impl.Flat.
Import ListNotations RecordSetNotations.
Local Open Scope N_scope.

Section Final.
  Variable E : Env.
  Notation c := (cfg E).

  (* ---- ProcessEffectiveBalanceUpdates: iterate the balances; effective balance comes from the SNAPSHOT ---- *)
  Definition hysteresis_thresholds : option (N * N) :=
    if HYSTERESIS_QUOTIENT c =? 0 then None else
    let hyst := EFFECTIVE_BALANCE_INCREMENT c / HYSTERESIS_QUOTIENT c in
    Some (mul64 hyst (HYSTERESIS_DOWNWARD_MULTIPLIER c), mul64 hyst (HYSTERESIS_UPWARD_MULTIPLIER c)).
  Definition eff_balance_step (down up : N) (flats : list FlatValidator) (acc : option (list Validator)) (ib : N * N)
    : option (list Validator) :=
    let '(i, balance) := ib in
    match acc with
    | None => None
    | Some vals =>
        match nthN flats i with
        | None => None                                         (* flats[i] out of range: panic *)
        | Some fl =>
            let eff := fl_effective_balance fl in
            if (add64 balance down <? eff) || (add64 eff up <? balance) then
              if EFFECTIVE_BALANCE_INCREMENT c =? 0 then None   (* balance % 0: panic *)
              else
                let eff' := balance - balance mod EFFECTIVE_BALANCE_INCREMENT c in
                let eff' := if MAX_EFFECTIVE_BALANCE c <? eff' then MAX_EFFECTIVE_BALANCE c else eff' in
                match nthN vals i with
                | None => None                                  (* vals.Validator(i) error *)
                | Some _ => Some (updN vals i (fun v => v <| v_effective_balance := eff' |>))
                end
            else Some vals
        end
    end.
  Definition process_effective_balance_updates (flats : list FlatValidator) (st : BeaconState) : option BeaconState :=
    match hysteresis_thresholds with
    | None => None
    | Some (down, up) =>
        match fold_left (eff_balance_step down up flats) (indexed (balances st)) (Some (validators st)) with
        | None => None
        | Some vals => Some (st <| validators := vals |>)
        end
    end.

  (* ---- ProcessEth1DataReset ---- *)
  Definition process_eth1_data_reset (next_epoch : N) (st : BeaconState) : option BeaconState :=
    if EPOCHS_PER_ETH1_VOTING_PERIOD c =? 0 then None else
    if next_epoch mod EPOCHS_PER_ETH1_VOTING_PERIOD c =? 0 then Some (st <| eth1_data_votes := [] |>) else Some st.

  (* ---- ProcessSlashingsReset: SlashingsView.ResetSlashings(epoch): i = epoch % VectorLength; Set(i, 0) ---- *)
  Definition process_slashings_reset (next_epoch : N) (st : BeaconState) : option BeaconState :=
    if EPOCHS_PER_SLASHINGS_VECTOR c =? 0 then None else
    let i := next_epoch mod EPOCHS_PER_SLASHINGS_VECTOR c in
    match nthN (slashings st) i with
    | None => None
    | Some _ => Some (st <| slashings := setN (slashings st) i 0 |>)
    end.

  (* ---- ProcessRandaoMixesReset -> common.PrepareRandao(mixes, epoch) ---- *)
  Definition epoch_previous (e : N) : N := if e =? GENESIS_EPOCH then GENESIS_EPOCH else e - 1.
  Definition process_randao_mixes_reset (next_epoch : N) (st : BeaconState) : option BeaconState :=
    if EPOCHS_PER_HISTORICAL_VECTOR c =? 0 then None else
    match nthN (randao_mixes st) (epoch_previous next_epoch mod EPOCHS_PER_HISTORICAL_VECTOR c) with
    | None => None
    | Some prev =>
        let i := next_epoch mod EPOCHS_PER_HISTORICAL_VECTOR c in
        match nthN (randao_mixes st) i with
        | None => None
        | Some _ => Some (st <| randao_mixes := setN (randao_mixes st) i prev |>)
        end
    end.

  (* ---- historical accumulators ----
     `blockRoots.HashTreeRoot(hFn)` is the Merkle root of the tree-backed vector view, i.e. the SSZ hash-tree-root
     of Vector[Root, SLOTS_PER_HISTORICAL_ROOT] (that the view's root is the SSZ root is property C05's subject). *)
  Definition roots_vector_root (roots : list bytes) : bytes :=
    hash_tree_root (Hash E) (zero_hashes E) (TVector B32 (SLOTS_PER_HISTORICAL_ROOT c)) (VSeq (map VBytes roots)).
  Definition historical_period : option N :=
    if SLOTS_PER_EPOCH c =? 0 then None else
    let p := SLOTS_PER_HISTORICAL_ROOT c / SLOTS_PER_EPOCH c in
    if p =? 0 then None else Some p.
  (* phase0.ProcessHistoricalRootsUpdate (phase0, altair, bellatrix) *)
  Definition process_historical_roots_update (next_epoch : N) (st : BeaconState) : option BeaconState :=
    match historical_period with
    | None => None
    | Some p =>
        if next_epoch mod p =? 0 then
          if HISTORICAL_ROOTS_LIMIT c <=? N.of_nat (length (historical_roots st)) then None   (* Append: list full *)
          else Some (st <| historical_roots := historical_roots st ++
                             [Hash E (roots_vector_root (block_roots st) ++ roots_vector_root (state_roots st))] |>)
        else Some st
    end.
  (* capella.ProcessHistoricalSummariesUpdate (capella, deneb) *)
  Definition process_historical_summaries_update (next_epoch : N) (st : BeaconState) : option BeaconState :=
    match historical_period with
    | None => None
    | Some p =>
        if next_epoch mod p =? 0 then
          if HISTORICAL_ROOTS_LIMIT c <=? N.of_nat (length (historical_summaries st)) then None
          else Some (st <| historical_summaries := historical_summaries st ++
                             [(roots_vector_root (block_roots st), roots_vector_root (state_roots st))] |>)
        else Some st
    end.
  Definition process_historical_update (f : fork) (next_epoch : N) (st : BeaconState) : option BeaconState :=
    match f with
    | Capella | Deneb => process_historical_summaries_update next_epoch st
    | _ => process_historical_roots_update next_epoch st
    end.

  (* ---- participation rotation ---- *)
  (* phase0.ProcessParticipationRecordUpdates *)
  Definition process_participation_record_updates (st : BeaconState) : BeaconState :=
    st <| previous_epoch_attestations := current_epoch_attestations st |> <| current_epoch_attestations := [] |>.
  (* altair.ProcessParticipationFlagUpdates: previous := current; current.FillZeroes(current.Length()) *)
  Definition process_participation_flag_updates (st : BeaconState) : BeaconState :=
    let cur := current_epoch_participation st in
    st <| previous_epoch_participation := cur |> <| current_epoch_participation := repeat 0 (length cur) |>.
End Final.
