(* Implementation model of zrnt's registry updates.
     /repo/eth2/beacon/phase0/registry.go   ComputeRegistryProcessData, ProcessEpochRegistryUpdates
     /repo/eth2/beacon/deneb/registry.go    ProcessEpochRegistryUpdates (activation churn limit variant)
   Models only; proofs are in Beacon/Refine/RegistryRefine.v.

   Conventions: Go uint64 arithmetic that can wrap is written with add64 (Base/U64.v).  `None` is "Go returned a
   non-nil error" (or would panic: a division by CHURN_LIMIT_QUOTIENT = 0, an out-of-range slice index); the
   refinement theorem shows `Some` under its hypotheses.  A Go function mutating the validators tree returns the
   new validator list. *)
From Coq Require Import NArith List Bool.
From RecordUpdate Require Import RecordSet.
From V Require Import Base.U64 Beacon.Config Beacon.State Beacon.Spec.Helpers Beacon.Impl.Flat.
Import ListNotations RecordSetNotations.
Local Open Scope N_scope.

Record RegistryProcessData := mkRegData {
  rd_to_set_activation_eligibility : list N;   (* IndicesToSetActivationEligibility *)
  rd_to_maybe_activate : list N;               (* IndicesToMaybeActivate, sorted by (eligibility epoch, index) *)
  rd_to_eject : list N;                        (* IndicesToEject *)
  rd_exit_queue_end : N;                       (* ExitQueueEnd *)
  rd_exit_queue_end_churn : N;                 (* ExitQueueEndChurn *)
  rd_churn_limit : N }.                        (* ChurnLimit *)

Section Registry.
  Variable c : Config.

  (* spec.ComputeActivationExitEpoch(e) = e + 1 + MAX_SEED_LOOKAHEAD on uint64 *)
  Definition activation_exit_epoch64 (e : N) : N := add64 (add64 e 1) (MAX_SEED_LOOKAHEAD c).

  (* ---- first loop of ComputeRegistryProcessData: one pass over the snapshot ---- *)
  Record scan_acc := mkScan { sa_active : N; sa_elig : list N; sa_maybe : list N; sa_eject : list N }.
  Definition scan_step (ce : N) (a : scan_acc) (ifl : N * FlatValidator) : scan_acc :=
    let '(i, fl) := ifl in
    let active := fl_is_active fl ce in
    mkScan
      (if active then add64 (sa_active a) 1 else sa_active a)
      (if (fl_activation_eligibility_epoch fl =? FAR_FUTURE_EPOCH) && (fl_effective_balance fl =? MAX_EFFECTIVE_BALANCE c)
       then sa_elig a ++ [i] else sa_elig a)
      (if (fl_activation_epoch fl =? FAR_FUTURE_EPOCH) && (fl_activation_eligibility_epoch fl <=? ce)
       then sa_maybe a ++ [i] else sa_maybe a)
      (if active && (fl_effective_balance fl <=? EJECTION_BALANCE c) && (fl_exit_epoch fl =? FAR_FUTURE_EPOCH)
       then sa_eject a ++ [i] else sa_eject a).
  Definition scan (flats : list FlatValidator) (ce : N) : scan_acc :=
    fold_left (scan_step ce) (indexed flats) (mkScan 0 [] [] []).

  (* ---- sort.Slice(out.IndicesToMaybeActivate, less) ----
     `less` is a strict total order on the (distinct) indices, so the result of Go's (unstable) sort.Slice is the
     unique sorted permutation; it is produced here by insertion sort. *)
  Definition elig_of (flats : list FlatValidator) (i : N) : N :=
    match nthN flats i with Some fl => fl_activation_eligibility_epoch fl | None => 0 end.
  Definition act_less (flats : list FlatValidator) (a b : N) : bool :=
    let ea := elig_of flats a in
    let eb := elig_of flats b in
    if ea =? eb then a <? b else ea <? eb.
  Fixpoint insert_idx (flats : list FlatValidator) (x : N) (l : list N) : list N :=
    match l with
    | [] => [x]
    | y :: l' => if act_less flats x y then x :: l else y :: insert_idx flats x l'
    end.
  Definition sort_idx (flats : list FlatValidator) (l : list N) : list N := fold_right (insert_idx flats) [] l.

  (* ---- second loop: the exit queue end and its churn (with the coordinator's fix applied: the churn counter is
          reset when a later exit epoch becomes the queue end) ---- *)
  Definition exit_scan_step (acc : N * N) (fl : FlatValidator) : N * N :=
    let '(e, ch) := acc in
    let exit := fl_exit_epoch fl in
    if exit =? FAR_FUTURE_EPOCH then acc else
    let '(e, ch) := if e <? exit then (exit, 0) else (e, ch) in
    if exit =? e then (e, add64 ch 1) else (e, ch).
  Definition exit_scan (flats : list FlatValidator) (ce : N) : N * N :=
    fold_left exit_scan_step flats (activation_exit_epoch64 ce, 0).

  (* the pinned snapshot (commit 381eb87): no reset of the counter *)
  Definition exit_scan_step_orig (acc : N * N) (fl : FlatValidator) : N * N :=
    let '(e, ch) := acc in
    let exit := fl_exit_epoch fl in
    if exit =? FAR_FUTURE_EPOCH then acc else
    let e := if e <? exit then exit else e in
    if exit =? e then (e, add64 ch 1) else (e, ch).
  Definition exit_scan_orig (flats : list FlatValidator) (ce : N) : N * N :=
    fold_left exit_scan_step_orig flats (activation_exit_epoch64 ce, 0).

  (* spec.GetChurnLimit(activeCount); Go panics on a zero CHURN_LIMIT_QUOTIENT *)
  Definition churn_limit_go (active_count : N) : option N :=
    if CHURN_LIMIT_QUOTIENT c =? 0 then None
    else Some (N.max (MIN_PER_EPOCH_CHURN_LIMIT c) (active_count / CHURN_LIMIT_QUOTIENT c)).

  (* the tail of ComputeRegistryProcessData, parametric in the exit scan *)
  Definition compute_registry_process_data_with (xscan : list FlatValidator -> N -> N * N)
             (flats : list FlatValidator) (ce : N) : option RegistryProcessData :=
    let s := scan flats ce in
    let maybe := sort_idx flats (sa_maybe s) in
    let '(qend, qchurn) := xscan flats ce in
    match churn_limit_go (sa_active s) with
    | None => None
    | Some limit =>
        if limit <=? qchurn then
          if qend =? max64 then None        (* "exitQueueEnd overflowing" *)
          else Some (mkRegData (sa_elig s) maybe (sa_eject s) (add64 qend 1) 0 limit)
        else Some (mkRegData (sa_elig s) maybe (sa_eject s) qend qchurn limit)
    end.
  Definition compute_registry_process_data := compute_registry_process_data_with exit_scan.
  Definition compute_registry_process_data_orig := compute_registry_process_data_with exit_scan_orig.

  (* ---- ProcessEpochRegistryUpdates ---- *)
  (* "process ejections": running (exitEnd, endChurn) *)
  Definition eject_step (limit : N) (acc : option (list Validator * N * N)) (index : N)
    : option (list Validator * N * N) :=
    match acc with
    | None => None
    | Some (vals, exit_end, end_churn) =>
        match nthN vals index with
        | None => None
        | Some _ =>
            let withdraw := add64 exit_end (MIN_VALIDATOR_WITHDRAWABILITY_DELAY c) in
            if withdraw <? exit_end then None        (* "exit epoch overflow" *)
            else
              let vals := updN vals index (fun v => v <| v_exit_epoch := exit_end |> <| v_withdrawable_epoch := withdraw |>) in
              let end_churn := add64 end_churn 1 in
              if limit <=? end_churn then Some (vals, add64 exit_end 1, 0)
              else Some (vals, exit_end, end_churn)
        end
    end.
  Definition eject_batch (rd : RegistryProcessData) (vals : list Validator) : option (list Validator) :=
    match fold_left (eject_step (rd_churn_limit rd)) (rd_to_eject rd)
                    (Some (vals, rd_exit_queue_end rd, rd_exit_queue_end_churn rd)) with
    | Some (vals, _, _) => Some vals
    | None => None
    end.

  (* "Process activation eligibility" *)
  Definition elig_step (eligibility_epoch : N) (acc : option (list Validator)) (index : N) : option (list Validator) :=
    match acc with
    | None => None
    | Some vals =>
        match nthN vals index with
        | None => None
        | Some _ => Some (updN vals index (fun v => v <| v_activation_eligibility_epoch := eligibility_epoch |>))
        end
    end.
  Definition set_eligibility (rd : RegistryProcessData) (ce : N) (vals : list Validator) : option (list Validator) :=
    fold_left (elig_step (add64 ce 1)) (rd_to_set_activation_eligibility rd) (Some vals).

  (* "Process activations": `dequeued[:churn]`, then the loop with the early break *)
  Definition cut {A} (l : list A) (limit : N) : list A :=
    if limit <? N.of_nat (length l) then firstn (N.to_nat limit) l else l.
  Fixpoint activate_loop (flats : list FlatValidator) (finalized_epoch activation_epoch : N)
           (dequeued : list N) (vals : list Validator) : option (list Validator) :=
    match dequeued with
    | [] => Some vals
    | index :: rest =>
        match nthN flats index with
        | None => None
        | Some fl =>
            if finalized_epoch <? fl_activation_eligibility_epoch fl then Some vals   (* break *)
            else match nthN vals index with
                 | None => None
                 | Some _ =>
                     activate_loop flats finalized_epoch activation_epoch rest
                       (updN vals index (fun v => v <| v_activation_epoch := activation_epoch |>))
                 end
        end
    end.

  (* deneb.getValidatorActivationChurnLimit *)
  Definition activation_churn_limit (f : fork) (churn_limit : N) : N :=
    match f with
    | Deneb => N.min (MAX_PER_EPOCH_ACTIVATION_CHURN_LIMIT c) churn_limit
    | _ => churn_limit
    end.

  Definition apply_registry_updates (f : fork) (rd : RegistryProcessData) (ce finalized_epoch : N)
             (flats : list FlatValidator) (vals : list Validator) : option (list Validator) :=
    match eject_batch rd vals with
    | None => None
    | Some vals =>
        match set_eligibility rd ce vals with
        | None => None
        | Some vals =>
            let dequeued := cut (rd_to_maybe_activate rd) (activation_churn_limit f (rd_churn_limit rd)) in
            activate_loop flats finalized_epoch (activation_exit_epoch64 ce) dequeued vals
        end
    end.

  (* ce = epc.CurrentEpoch.Epoch, flats = the snapshot taken at the start of ProcessEpoch *)
  Definition process_registry_updates_with (xscan : list FlatValidator -> N -> N * N) (f : fork) (ce : N)
             (flats : list FlatValidator) (st : BeaconState) : option BeaconState :=
    match compute_registry_process_data_with xscan flats ce with
    | None => None
    | Some rd =>
        match apply_registry_updates f rd ce (cp_epoch (finalized_checkpoint st)) flats (validators st) with
        | None => None
        | Some vals => Some (st <| validators := vals |>)
        end
    end.
  Definition process_registry_updates := process_registry_updates_with exit_scan.
  Definition process_registry_updates_orig := process_registry_updates_with exit_scan_orig.
End Registry.
