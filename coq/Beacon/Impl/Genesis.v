(* C13 — Implementation model of zrnt's genesis construction.  MODEL ONLY (proofs: Beacon/Refine/GenesisRefine.v).

     phase0/genesis.go    GenesisFromEth1, IsValidGenesisState, DepositRootsView
     phase0/deposit.go    ProcessDeposit as called from genesis (pubkey cache threaded, `ignoreSignatureAndProof`)
     phase0/kickstart.go  KickStartState
     phase0/randao.go     SeedRandao          phase0/state.go  NewBeaconStateView / AddValidator (= BlockOps.add_validator_impl)

   What zrnt does differently from the spec text, and what is therefore modelled here:
     * the state starts as the DEFAULT value of the state type (`NewBeaconStateView`) and fields are then set one by one;
     * the deposit root is the hash-tree-root of a `List[Root, 2^32]` VIEW to which the hash-tree-root of each deposit's data
       is appended (ztyp `Append` refuses a full list), written into eth1_data BEFORE each ProcessDeposit and once more after
       the loop;
     * ProcessDeposit decides "known validator" by the PUBKEY CACHE of the epochs context: `exists := found && index < count`;
       a new validator is appended to the registry AND registered in the cache (`AddValidator(count, pubkey)`, whose error is
       returned).  The cache is the Impl model of C16 (Pubkeys/CacheModel.v: heap of cache objects, handle variable 0);
       its keys are numbers: a 48-byte pubkey is keyed by its little-endian value `pubkey_key`;
     * an undecodable pubkey or signature skips the deposit (`Pubkey()` / `Signature()` return an error) — also when
       `ignoreSignatureAndProof` is set, which only drops the Merkle-branch check and the pairing check;
     * uint64 arithmetic wraps (`add64`): genesis time, deposit index, balance top-ups; `%` by zero panics;
     * the refusal `valCount < SLOTS_PER_EPOCH` (documented API limit of zrnt);
     * the activation loop reads validator i and balance i through the views (out-of-range = error) and writes back;
     * after the validators root, `epc.LoadShuffling` / `epc.LoadProposers` (`load_epc`): the C07 Impl models
       (Impl/Shuffling.v: LoadBoundedIndices, NewShufflingEpoch for the current = previous and the next epoch,
       ComputeProposers) run on the new state; only their outcome matters here (the context itself is C08's business).
       GenesisRefine.load_epc_genesis proves that for a state built here the only error they add is "no active
       validators" (every active validator has the maximal effective balance: the proposer sampling accepts its first
       candidate).

   Oracles.  `bls_verify E` is the pairing check of the Spec; `pk_ok` / `sig_ok` say whether the 48 / 96 bytes decode
   (deserialize + KeyValidate / subgroup check).  The refinement assumes that the Spec's `bls_verify` refuses undecodable
   inputs (IETF BLS `Verify` returns INVALID for them). *)
From Coq Require Import String.
From Coq Require Import NArith List Bool.
From RecordUpdate Require Import RecordSet.
From V Require Import Base.U64 Base.Outcome Ssz.SszCore Beacon.Config Beacon.Schemas Beacon.State
  Beacon.Spec.Helpers Beacon.Spec.Epoch Beacon.Spec.Block Beacon.Spec.Transition Beacon.Impl.BlockOps Beacon.Impl.Shuffling.
From V Require Pubkeys.CacheSpec Pubkeys.CacheModel.
Import ListNotations RecordSetNotations.
Local Open Scope list_scope.
Local Open Scope N_scope.

(* ---------- the pubkey cache of the (single) genesis context: handle variable 0 of the C16 Impl model ---------- *)
Definition pubkey_cache := CacheModel.istate.
(* Go: map key = the [48]byte array; the C16 model keys by a number *)
Definition pubkey_key (pk : bytes) : N := le_value pk.
(* common.NewPubkeyCache(vals) on the empty registry *)
Definition pc_empty : pubkey_cache := CacheModel.i_init [].
(* epc.ValidatorPubkeyCache.ValidatorIndex(pubkey): (index, found) *)
Definition pc_lookup (pc : pubkey_cache) (pk : bytes) : outcome (option nat) :=
  match snd (CacheModel.i_step pc (CacheSpec.OIdx 0 (pubkey_key pk))) with
  | Ok (CacheSpec.VIdx o) => Ok o
  | Ok _ => Panic NilDeref
  | Err => Err
  | Panic p => Panic p
  | Blocked => Blocked
  | OutOfFuel => OutOfFuel
  end.
(* pc, err := epc.ValidatorPubkeyCache.AddValidator(index, pubkey); epc.ValidatorPubkeyCache = pc *)
Definition pc_add (pc : pubkey_cache) (i : nat) (pk : bytes) : outcome pubkey_cache :=
  let r := CacheModel.i_step pc (CacheSpec.OAdd 0 0 i (pubkey_key pk)) in
  match snd r with
  | Ok (CacheSpec.VAdd _) => Ok (fst r)
  | Ok _ => Panic NilDeref
  | Err => Err
  | Panic p => Panic p
  | Blocked => Blocked
  | OutOfFuel => OutOfFuel
  end.

Section Impl.
  Variable E : Env.
  Variable pk_ok : bytes -> bool.        (* BLSPubkey.Pubkey() returned no error *)
  Variable sig_ok : bytes -> bool.       (* BLSSignature.Signature() returned no error *)
  Let c := cfg E.
  Notation htr := (htr E).

  (* DepositRootsType = ComplexListType(RootType, 1 << DEPOSIT_CONTRACT_TREE_DEPTH) *)
  Definition DEPOSIT_ROOTS_LIMIT : N := 2 ^ DEPOSIT_CONTRACT_TREE_DEPTH.
  Definition DepositRootsT : ty := TList (TByteVector 32) DEPOSIT_ROOTS_LIMIT.

  (* NewBeaconStateView(spec) = BeaconStateType(spec).New(): every field at its default *)
  Definition empty_state : BeaconState := {|
    genesis_time := 0;
    genesis_validators_root := zero32;
    slot := 0;
    fork_rec := mkFork (repeat 0 4) (repeat 0 4) 0;
    latest_block_header := mkHeader 0 0 zero32 zero32 zero32;
    block_roots := repeat zero32 (N.to_nat (SLOTS_PER_HISTORICAL_ROOT c));
    state_roots := repeat zero32 (N.to_nat (SLOTS_PER_HISTORICAL_ROOT c));
    historical_roots := [];
    eth1_data := mkEth1Data zero32 0 zero32;
    eth1_data_votes := [];
    eth1_deposit_index := 0;
    validators := [];
    balances := [];
    randao_mixes := repeat zero32 (N.to_nat (EPOCHS_PER_HISTORICAL_VECTOR c));
    slashings := repeat 0 (N.to_nat (EPOCHS_PER_SLASHINGS_VECTOR c));
    previous_epoch_attestations := [];
    current_epoch_attestations := [];
    previous_epoch_participation := [];
    current_epoch_participation := [];
    justification_bits := repeat false 4;
    previous_justified_checkpoint := mkCheckpoint 0 zero32;
    current_justified_checkpoint := mkCheckpoint 0 zero32;
    finalized_checkpoint := mkCheckpoint 0 zero32;
    (* not part of a phase0 state: the typed record's placeholders *)
    inactivity_scores := [];
    current_sync_committee := empty_sc;
    next_sync_committee := empty_sc;
    latest_execution_payload_header := VCont [];
    next_withdrawal_index := 0;
    next_withdrawal_validator_index := 0;
    historical_summaries := [] |}.

  (* SeedRandao: every mix = the seed (tree.SubtreeFillToLength of one node) *)
  Definition seed_randao (st : BeaconState) (seed : bytes) : BeaconState :=
    st <| randao_mixes := repeat seed (N.to_nat (EPOCHS_PER_HISTORICAL_VECTOR c)) |>.

  (* updateDepTreeRoot: eth1Dat := state.Eth1Data(); eth1Dat.DepositRoot = depRootsView.HashTreeRoot(); state.SetEth1Data *)
  Definition update_dep_tree_root (st : BeaconState) (roots : list bytes) : BeaconState :=
    st <| eth1_data := mkEth1Data (htr DepositRootsT (VSeq (map VBytes roots)))
                                  (e_deposit_count (eth1_data st)) (e_block_hash (eth1_data st)) |>.

  (* ---------- phase0.ProcessDeposit with the context's pubkey cache ---------- *)
  Definition deposit_signing_root (pubkey wc : bytes) (amount : N) : bytes :=
    compute_signing_root E (htr DepositMessageT (VCont [VBytes pubkey; VBytes wc; VUint amount]))
                         (compute_domain E DOMAIN_DEPOSIT (GENESIS_FORK_VERSION c) zero32).

  Definition process_deposit_go (ignore : bool) (pc : pubkey_cache) (st : BeaconState) (dep : value)
    : outcome (BeaconState * pubkey_cache) :=
    let proof := map vbytes (vseq (vfield dep 0)) in
    let data := vfield dep 1 in
    let pubkey := vbytes (vfield data 0) in
    let wc := vbytes (vfield data 1) in
    let amount := vuint (vfield data 2) in
    let sig := vbytes (vfield data 3) in
    (* !ignoreSignatureAndProof && !merkle.VerifyMerkleBranch(...) -> error *)
    _ <~ check (ignore || is_valid_merkle_branch E (htr DepositDataT data) proof (DEPOSIT_CONTRACT_TREE_DEPTH + 1)
                            (eth1_deposit_index st) (e_deposit_root (eth1_data st))) ;;
    let st := st <| eth1_deposit_index := add64 (eth1_deposit_index st) 1 |> in
    let val_count := length (validators st) in
    found <~ pc_lookup pc pubkey ;;
    (* exists := ok && uint64(valIndex) < valCount *)
    match (match found with Some j => if Nat.ltb j val_count then Some j else None | None => None end) with
    | None =>
        if negb (pk_ok pubkey) then Ok (st, pc) else                 (* deposit is skipped *)
        if negb (sig_ok sig) then Ok (st, pc) else                   (* deposit is skipped *)
        if negb ignore && negb (bls_verify E pubkey (deposit_signing_root pubkey wc amount) sig)
        then Ok (st, pc) else                                        (* invalid proof of possession: skipped *)
        st' <~ add_validator_impl E Phase0 st pubkey wc amount ;;    (* state.AddValidator *)
        pc' <~ pc_add pc val_count pubkey ;;                         (* cache.AddValidator(valCount, pubkey) *)
        Ok (st', pc')
    | Some j =>
        bals <~ go_increase_balance (balances st) (N.of_nat j) amount ;;
        Ok (st <| balances := bals |>, pc)
    end.

  (* ---------- the deposit loop of GenesisFromEth1 ---------- *)
  (* accumulator: the state, the content of depRootsView, the cache *)
  Definition gen_acc : Type := BeaconState * list bytes * pubkey_cache.
  Definition deposit_step (ignore : bool) (acc : gen_acc) (dep : value) : outcome gen_acc :=
    let '(st, roots, pc) := acc in
    (* depRootsView.Append: refused when the list is at its limit *)
    _ <~ check (N.of_nat (length roots) <? DEPOSIT_ROOTS_LIMIT) ;;
    let roots := roots ++ [htr DepositDataT (vfield dep 1)] in
    let st := update_dep_tree_root st roots in
    sp <~ process_deposit_go ignore pc st dep ;;
    Ok (fst sp, roots, snd sp).
  Definition deposit_loop (ignore : bool) (deps : list value) (acc : gen_acc) : outcome gen_acc :=
    fold_left (fun a dep => x <~ a ;; deposit_step ignore x dep) deps (Ok acc).

  (* ---------- the activation loop ---------- *)
  Definition activation_step (bals : list N) (acc : outcome (list Validator)) (i : N) : outcome (list Validator) :=
    vals <~ acc ;;
    v <~ of_opt (nthN vals i) ;;                                     (* vals.Validator(i) *)
    b <~ of_opt (nthN bals i) ;;                                     (* bals.GetBalance(i) *)
    if EFFECTIVE_BALANCE_INCREMENT c =? 0 then Panic DivZero else
    let eff := b - b mod EFFECTIVE_BALANCE_INCREMENT c in
    let eff := if MAX_EFFECTIVE_BALANCE c <? eff then MAX_EFFECTIVE_BALANCE c else eff in
    let v := v <| v_effective_balance := eff |> in
    let v := if eff =? MAX_EFFECTIVE_BALANCE c
             then v <| v_activation_eligibility_epoch := GENESIS_EPOCH |> <| v_activation_epoch := GENESIS_EPOCH |>
             else v in
    Ok (setN vals i v).
  (* for i := uint64(0); i < valCount; i++ *)
  Definition activation_loop (vals : list Validator) (bals : list N) : outcome (list Validator) :=
    fold_left (activation_step bals) (seqN 0 (length vals)) (Ok vals).

  (* common.GetSeed: mixes.GetRandomMix(epoch + EPOCHS_PER_HISTORICAL_VECTOR - MIN_SEED_LOOKAHEAD - 1) in uint64,
     index `% VectorLength` (a zero vector length panics), then hash(domain ++ le8(epoch) ++ mix) *)
  Definition go_get_seed (st : BeaconState) (epoch : N) (domain_type : bytes) : outcome bytes :=
    if EPOCHS_PER_HISTORICAL_VECTOR c =? 0 then Panic DivZero else
    let e := sub64 (sub64 (add64 epoch (EPOCHS_PER_HISTORICAL_VECTOR c)) (MIN_SEED_LOOKAHEAD c)) 1 in
    mix <~ of_opt (nthN (randao_mixes st) (e mod EPOCHS_PER_HISTORICAL_VECTOR c)) ;;
    Ok (Hash E (domain_type ++ uint_to_bytes 8 epoch ++ mix)).

  (* epc.LoadShuffling(state) at slot 0: CurrentEpoch (= PreviousEpoch: "in case of genesis"), loadCurrentStake (no error
     path on a well-formed view), NextEpoch;  epc.LoadProposers(state): ComputeProposers(spec, state, 0, active) *)
  Definition load_epc (st : BeaconState) : outcome unit :=
    let bounded := load_bounded_indices (validators st) in
    seed0 <~ go_get_seed st GENESIS_EPOCH DOMAIN_BEACON_ATTESTER ;;
    cur <~ new_shuffling_epoch E bounded seed0 GENESIS_EPOCH ;;
    seed1 <~ go_get_seed st (GENESIS_EPOCH + 1) DOMAIN_BEACON_ATTESTER ;;
    _ <~ new_shuffling_epoch E bounded seed1 (GENESIS_EPOCH + 1) ;;
    pseed <~ go_get_seed st GENESIS_EPOCH DOMAIN_BEACON_PROPOSER ;;
    _ <~ compute_proposers_impl E (validators st) (se_active cur) pseed 0 ;;
    Ok tt.

  (* ---------- GenesisFromEth1 ---------- *)
  Definition genesis_pre_state (eth1_block_hash : bytes) (time : N) (ndeps : nat) : BeaconState :=
    let st := empty_state in
    let st := st <| genesis_time := add64 time (GENESIS_DELAY c) |> in
    let st := st <| fork_rec := mkFork (GENESIS_FORK_VERSION c) (GENESIS_FORK_VERSION c) GENESIS_EPOCH |> in
    let st := st <| eth1_data := mkEth1Data zero32 (N.of_nat ndeps) eth1_block_hash |> in
    let st := st <| latest_block_header := mkHeader 0 0 zero32 zero32 (genesis_body_root E) |> in
    seed_randao st eth1_block_hash.

  (* returns the state and the epochs context; of the context the model keeps the pubkey cache (the rest is recomputed by
     LoadShuffling / LoadProposers from the state: C07 / C08) *)
  Definition genesis_from_eth1_ctx (eth1_block_hash : bytes) (time : N) (deps : list value) (ignore : bool)
    : outcome (BeaconState * pubkey_cache) :=
    let st := genesis_pre_state eth1_block_hash time (length deps) in
    acc <~ deposit_loop ignore deps (st, [], pc_empty) ;;
    let '(st, roots, pc) := acc in
    let st := update_dep_tree_root st roots in
    (* if common.Slot(valCount) < spec.SLOTS_PER_EPOCH: "not enough validators to init full featured BeaconState" *)
    _ <~ check (negb (N.of_nat (length (validators st)) <? SLOTS_PER_EPOCH c)) ;;
    vals <~ activation_loop (validators st) (balances st) ;;
    let st := st <| validators := vals |> in
    let st := st <| genesis_validators_root :=
                      htr (TList ValidatorT (VALIDATOR_REGISTRY_LIMIT c)) (VSeq (map validator_to_value vals)) |> in
    _ <~ load_epc st ;;
    Ok (st, pc).
  (* the state alone *)
  Definition genesis_from_eth1 (eth1_block_hash : bytes) (time : N) (deps : list value) (ignore : bool)
    : outcome BeaconState :=
    x <~ genesis_from_eth1_ctx eth1_block_hash time deps ignore ;; Ok (fst x).

  (* ---------- IsValidGenesisState ---------- *)
  (* the iteration over the registry counting IsActive(val, GENESIS_EPOCH): activationEpoch > epoch -> no; epoch >= exitEpoch -> no *)
  Definition go_is_active (v : Validator) (epoch : N) : bool :=
    if epoch <? v_activation_epoch v then false else if v_exit_epoch v <=? epoch then false else true.
  Definition count_active_go (vals : list Validator) : N :=
    fold_left (fun n v => if go_is_active v GENESIS_EPOCH then add64 n 1 else n) vals 0.
  Definition is_valid_genesis_state_go (st : BeaconState) : bool :=
    if genesis_time st <? MIN_GENESIS_TIME c then false
    else MIN_GENESIS_ACTIVE_VALIDATOR_COUNT c <=? count_active_go (validators st).

  (* ---------- KickStartState ---------- *)
  (* KickstartValidatorData: pubkey, withdrawal credentials, balance *)
  Definition kick_data : Type := bytes * bytes * N.
  (* deps[i] = Deposit{Proof: zero, Data: {pubkey, credentials, amount, placeholder signature}} *)
  Definition kick_deposit (placeholder_sig : bytes) (proof : list bytes) (v : kick_data) : value :=
    let '(pk, wc, bal) := v in
    VCont [VSeq (map VBytes proof); VCont [VBytes pk; VBytes wc; VUint bal; VBytes placeholder_sig]].
  Definition zero_proof : list bytes := repeat zero32 33.
  Definition kickstart_state (placeholder_sig : bytes) (eth1_block_hash : bytes) (time : N) (vs : list kick_data)
    : outcome BeaconState :=
    st <~ genesis_from_eth1 eth1_block_hash 0 (map (kick_deposit placeholder_sig zero_proof) vs) true ;;
    Ok (st <| genesis_time := time |>).
End Impl.

(* ---------- entry point for the extracted driver (ocaml/modelrun.ml): bytes in, bytes out ----------
   Same interface as Beacon/Run.run_genesis (SSZ List[Deposit, 2^32] in, SSZ phase0 state out), so that the Impl model can
   be run on every recorded `genesis` case next to the Spec.  With the driver's table oracle (a signature absent from the
   table is invalid, an undecodable key has no table entry) pass `pk_ok = sig_ok = fun _ => true`: the three skips of
   ProcessDeposit collapse into the table lookup. *)
Inductive genesis_run := GenBadInput | GenErr | GenPanic | GenOk (post : bytes).
Definition run_genesis_impl (E : Env) (pk_ok sig_ok : bytes -> bool) (eth1_block_hash : bytes) (time : N)
                            (deposits : bytes) (ignore : bool) : genesis_run :=
  match deserialize (TList DepositT (2 ^ 32)) deposits with
  | None => GenBadInput
  | Some v =>
      match genesis_from_eth1 E pk_ok sig_ok eth1_block_hash time (vseq v) ignore with
      | Ok st => GenOk (serialize (BeaconStateT (cfg E) Phase0) (state_to_value (cfg E) Phase0 st))
      | Err => GenErr
      | _ => GenPanic
      end
  end.

(* KickStartState on a `kickstart` record: validators = concatenation of 88-byte entries pubkey48 ‖ credentials32 ‖ balance_u64_le *)
Fixpoint parse_kick_data (fuel : nat) (bs : bytes) : list kick_data :=
  match fuel with
  | O => []
  | S k =>
      match bs with
      | [] => []
      | _ => (firstn 48 bs, firstn 32 (skipn 48 bs), le_value (firstn 8 (skipn 80 bs))) :: parse_kick_data k (skipn 88 bs)
      end
  end.
Definition run_kickstart_impl (E : Env) (pk_ok sig_ok : bytes -> bool) (placeholder_sig eth1_block_hash : bytes) (time : N)
                              (validators_blob : bytes) : genesis_run :=
  match kickstart_state E pk_ok sig_ok placeholder_sig eth1_block_hash time
          (parse_kick_data (length validators_blob) validators_blob) with
  | Ok st => GenOk (serialize (BeaconStateT (cfg E) Phase0) (state_to_value (cfg E) Phase0 st))
  | Err => GenErr
  | _ => GenPanic
  end.
