(* Implementation model of zrnt's EpochsContext and of the algorithm that maintains it.  Model only; proofs are in
   Beacon/Refine/EpcRefine.v.
     /repo/eth2/beacon/common/epochs_context.go  EpochsContext, NewEpochsContext, LoadShuffling, loadCurrentStake, LoadProposers,
                                                 LoadSyncCommittees, hydrateSyncCommittee, RotateEpochs, Clone
     /repo/eth2/beacon/common/shuffling.go       ComputeShufflingEpoch (NewShufflingEpoch itself: Impl/Shuffling.v)
     /repo/eth2/beacon/common/proposers.go       ComputeProposers (ComputeProposerIndex and the slot loop: Impl/Shuffling.v)
     /repo/eth2/beacon/common/randao.go          GetSeed;   phase0/randao.go GetRandomMix
     /repo/eth2/beacon/common/time.go            SlotToEpoch, EpochStartSlot, Epoch.Previous
     /repo/eth2/beacon/common/transition.go      ProcessSlots: RotateEpochs after ProcessEpoch and SetSlot, then UpgradeMaybe
     /repo/eth2/beacon/fork.go                   UpgradeMaybe: LoadSyncCommittees(post) after UpgradeToAltair only
     /repo/eth2/beacon/phase0/deposit.go         ProcessDeposit: ValidatorPubkeyCache.AddValidator + EffectiveBalances extension

   Conventions (DESIGN 2.2): Go uint64 arithmetic that can wrap is written add64/sub64/mul64, `/` and `%` by zero are
   `Panic DivZero`, a returned error is `Err`.  A Go function that mutates the context returns the new context.
   The state is read through the typed `BeaconState` record: the epochs context only ever reads slot, validators,
   randao_mixes and the two sync committees.  The state's own evolution (ProcessSlot, ProcessEpoch, blocks, upgrades) is
   NOT modelled here: the drivers at the end of this file take the states from the Spec functions (that zrnt computes
   the same states is C01/C02) and record which context operation zrnt performs at which point.

   ValidatorPubkeyCache: a handle of the C16 cache; by Pubkeys/CacheProofs.v (cache_refines, lookup_exact) a handle
   denotes a plain list of pubkeys, ValidatorIndex(pk) is the position of the first occurrence and AddValidator is
   CacheSpec.s_add.  The model carries that list (`epc_pubkeys`).
   Clone: a shallow struct copy; values are immutable here, so Clone is the identity (every update below builds new
   lists, as the Go code does: RotateEpochs allocates, the deposit path copies EffectiveBalances before extending). *)
From Coq Require Import NArith List Bool.
From RecordUpdate Require Import RecordSet.
From V Require Import Base.U64 Base.Outcome Ssz.SszCore Beacon.Config Beacon.Schemas Beacon.State
  Beacon.Spec.Helpers Beacon.Spec.Epoch Beacon.Spec.Block Beacon.Spec.Transition Beacon.Impl.Shuffling.
From V Require Math.MathModel.
Import ListNotations RecordSetNotations.
Local Open Scope N_scope.

(* type EpochsContext struct (Spec omitted: it is the Env) *)
Record epc := mkEpc {
  epc_prev : ShufflingEpoch;             (* PreviousEpoch *)
  epc_cur : ShufflingEpoch;              (* CurrentEpoch *)
  epc_next : ShufflingEpoch;             (* NextEpoch *)
  epc_proposers_epoch : N;               (* Proposers.Epoch *)
  epc_proposers : list N;                (* Proposers.Proposers, SLOTS_PER_EPOCH entries *)
  epc_effective_balances : list N;       (* EffectiveBalances *)
  epc_total_active_stake : N;            (* TotalActiveStake *)
  epc_total_active_stake_sqrt : N;       (* TotalActiveStakeSqRoot *)
  epc_sync_current : option (list N);    (* CurrentSyncCommittee.Indices; None = nil pointer (pre-altair) *)
  epc_sync_next : option (list N);       (* NextSyncCommittee.Indices *)
  epc_pubkeys : list bytes               (* what the ValidatorPubkeyCache handle denotes: index -> pubkey *)
}.

Definition set_sync (e : epc) (cur nxt : option (list N)) : epc :=
  mkEpc (epc_prev e) (epc_cur e) (epc_next e) (epc_proposers_epoch e) (epc_proposers e) (epc_effective_balances e)
        (epc_total_active_stake e) (epc_total_active_stake_sqrt e) cur nxt (epc_pubkeys e).

(* PubkeyCache.ValidatorIndex: first occurrence *)
Fixpoint index_of_pubkey (pk : bytes) (l : list bytes) (i : N) : option N :=
  match l with
  | [] => None
  | k :: l' => if bytes_eqb k pk then Some i else index_of_pubkey pk l' (i + 1)
  end.

(* PubkeyCache.AddValidator(index, pubkey) on the denoted list (CacheSpec.s_add): the pair is already there -> same list;
   index = length and the key is new -> append; a conflict before the key's registration / inside the list -> a forked
   handle denoting firstn index ++ [pubkey]; a gap or a second registration of the key -> error *)
Definition pubkeys_add (l : list bytes) (i : N) (pk : bytes) : outcome (list bytes) :=
  match nthN l i with
  | Some k => if bytes_eqb k pk then Ok l
              else match index_of_pubkey pk l 0 with
                   | Some j => if i <? j then Ok (firstn (N.to_nat i) l ++ [pk]) else Err
                   | None => Ok (firstn (N.to_nat i) l ++ [pk])
                   end
  | None => match index_of_pubkey pk l 0 with
            | Some j => Err                                   (* j < length <= i *)
            | None => if i =? N.of_nat (length l) then Ok (l ++ [pk]) else Err
            end
  end.

Section EpcImpl.
  Variable E : Env.
  Let c := cfg E.

  (* ---------------- time.go ---------------- *)
  Definition slot_to_epoch_impl (s : N) : outcome N :=
    if SLOTS_PER_EPOCH c =? 0 then Panic DivZero else Ok (s / SLOTS_PER_EPOCH c).
  Definition epoch_previous (e : N) : N := if e =? GENESIS_EPOCH then GENESIS_EPOCH else e - 1.
  (* out := Slot(e) * SLOTS_PER_EPOCH; if e != SlotToEpoch(out) { error } *)
  Definition epoch_start_slot_impl (e : N) : outcome N :=
    let out := mul64 e (SLOTS_PER_EPOCH c) in
    bind (slot_to_epoch_impl out) (fun e' => if e' =? e then Ok out else Err).

  (* ---------------- randao.go ---------------- *)
  (* GetSeed: mix := mixes.GetRandomMix(epoch + EPOCHS_PER_HISTORICAL_VECTOR - MIN_SEED_LOOKAHEAD - 1), uint64 arithmetic;
     GetRandomMix: i := epoch % mixes.VectorLength (the vector type has EPOCHS_PER_HISTORICAL_VECTOR entries, so Get(i)
     is in range; the model reads the list with the Spec's default for a malformed shorter list) *)
  Definition get_seed_impl (mixes : list bytes) (epoch : N) (domain_type : bytes) : outcome bytes :=
    let x := sub64 (sub64 (add64 epoch (EPOCHS_PER_HISTORICAL_VECTOR c)) (MIN_SEED_LOOKAHEAD c)) 1 in
    if EPOCHS_PER_HISTORICAL_VECTOR c =? 0 then Panic DivZero else
    let mix := match nthN mixes (x mod EPOCHS_PER_HISTORICAL_VECTOR c) with Some m => m | None => zero32 end in
    Ok (Hash E (domain_type ++ le8 epoch ++ mix)).

  (* ---------------- shuffling.go ---------------- *)
  Definition compute_shuffling_epoch (mixes : list bytes) (bounded : list BoundedIndex) (epoch : N) : outcome ShufflingEpoch :=
    bind (get_seed_impl mixes epoch DOMAIN_BEACON_ATTESTER) (fun seed => new_shuffling_epoch E bounded seed epoch).

  (* ---------------- proposers.go ---------------- *)
  (* ComputeProposers(spec, state, epoch, active): result = (Epoch, Proposers) *)
  Definition compute_proposers_epoch (vals : list Validator) (mixes : list bytes) (epoch : N) (active : list N)
    : outcome (N * list N) :=
    if N.of_nat (length active) =? 0 then Err else
    bind (epoch_start_slot_impl epoch) (fun start_slot =>
    bind (get_seed_impl mixes epoch DOMAIN_BEACON_PROPOSER) (fun epoch_seed =>
    bind (compute_proposers_impl E vals active epoch_seed start_slot) (fun ps => Ok (epoch, ps)))).

  (* ---------------- epochs_context.go ---------------- *)
  (* loadCurrentStake: for i, v := range indicesBounded { val := vals.Validator(i) (error if absent); eff := val.EffectiveBalance();
       EffectiveBalances[i] = eff; if v.Activation <= currentEpoch && currentEpoch < v.Exit { TotalActiveStake += eff } } *)
  Fixpoint stake_loop (ce : N) (vals : list Validator) (bounded : list BoundedIndex) (i : N) (effs : list N) (total : N)
    : outcome (list N * N) :=
    match bounded with
    | [] => Ok (effs, total)
    | b :: t =>
        match nthN vals i with
        | None => Err
        | Some v =>
            let eff := v_effective_balance v in
            stake_loop ce vals t (i + 1) (effs ++ [eff])
                       (if (bi_activation b <=? ce) && (ce <? bi_exit b) then add64 total eff else total)
        end
    end.
  (* result: EffectiveBalances, TotalActiveStake (floored at EFFECTIVE_BALANCE_INCREMENT), TotalActiveStakeSqRoot *)
  Definition load_current_stake (vals : list Validator) (bounded : list BoundedIndex) (ce : N) : outcome (list N * N * N) :=
    bind (stake_loop ce vals bounded 0 [] 0) (fun r =>
      let total := if snd r <? EFFECTIVE_BALANCE_INCREMENT c then EFFECTIVE_BALANCE_INCREMENT c else snd r in
      bind (MathModel.isqrt_go total) (fun sq => Ok (fst r, total, sq))).

  (* hydrateSyncCommittee: every pubkey must have an index in the cache *)
  Definition hydrate_sync_committee (pubkeys : list bytes) (sc : SyncCommittee) : outcome (list N) :=
    match all_some (map (fun pk => index_of_pubkey pk pubkeys 0) (sc_pubkeys sc)) with
    | Some l => Ok l
    | None => Err
    end.
  (* LoadSyncCommittees(state) *)
  Definition load_sync_committees (e : epc) (st : BeaconState) : outcome epc :=
    bind (hydrate_sync_committee (epc_pubkeys e) (current_sync_committee st)) (fun cur =>
    bind (hydrate_sync_committee (epc_pubkeys e) (next_sync_committee st)) (fun nxt =>
      Ok (set_sync e (Some cur) (Some nxt)))).

  (* NewEpochsContext(spec, state) = NewPubkeyCache; LoadShuffling (current shuffling, stake, previous, next);
     LoadProposers; LoadSyncCommittees when the (unwrapped) state has sync committees, i.e. from altair on *)
  Definition new_epochs_context (f : fork) (st : BeaconState) : outcome epc :=
    let vals := validators st in
    let mixes := randao_mixes st in
    let pubkeys := map v_pubkey vals in
    let bounded := load_bounded_indices vals in
    bind (slot_to_epoch_impl (slot st)) (fun ce =>
    bind (compute_shuffling_epoch mixes bounded ce) (fun cur =>
    bind (load_current_stake vals bounded (se_epoch cur)) (fun stake =>
    let pe := epoch_previous ce in
    bind (if pe =? ce then Ok cur else compute_shuffling_epoch mixes bounded pe) (fun prev =>
    bind (compute_shuffling_epoch mixes bounded (add64 ce 1)) (fun next =>
    bind (compute_proposers_epoch vals mixes (se_epoch cur) (se_active cur)) (fun props =>
    let e := mkEpc prev cur next (fst props) (snd props) (fst (fst stake)) (snd (fst stake)) (snd stake) None None pubkeys in
    if fork_ge f Altair then load_sync_committees e st else Ok e)))))).

  (* RotateEpochs(state): `f` is the fork of the state the caller passes (ProcessSlots calls it BEFORE UpgradeMaybe) *)
  Definition rotate_epochs (f : fork) (st : BeaconState) (e : epc) : outcome epc :=
    let prev := epc_cur e in
    let cur := epc_next e in
    let next_epoch := add64 (se_epoch cur) 1 in
    let vals := validators st in
    let mixes := randao_mixes st in
    let bounded := load_bounded_indices vals in
    bind (compute_shuffling_epoch mixes bounded next_epoch) (fun next =>
    bind (compute_proposers_epoch vals mixes (se_epoch cur) (se_active cur)) (fun props =>
    bind (load_current_stake vals bounded (se_epoch cur)) (fun stake =>
    let e1 := mkEpc prev cur next (fst props) (snd props) (fst (fst stake)) (snd (fst stake)) (snd stake)
                    (epc_sync_current e) (epc_sync_next e) (epc_pubkeys e) in
    if fork_ge f Altair then
      if EPOCHS_PER_SYNC_COMMITTEE_PERIOD c =? 0 then Panic DivZero else
      if se_epoch cur mod EPOCHS_PER_SYNC_COMMITTEE_PERIOD c =? 0 then
        bind (match epc_sync_next e with
              | Some l => Ok l                                  (* CurrentSyncCommittee = NextSyncCommittee (from the cache) *)
              | None => hydrate_sync_committee (epc_pubkeys e) (current_sync_committee st)
              end) (fun cur_sc =>
        bind (hydrate_sync_committee (epc_pubkeys e) (next_sync_committee st)) (fun next_sc =>
          Ok (set_sync e1 (Some cur_sc) (Some next_sc))))
      else Ok e1
    else Ok e1))).

  (* ---------------- deposit.go: the context side of ProcessDeposit ---------------- *)
  (* effBalance := balance - balance % EFFECTIVE_BALANCE_INCREMENT; capped at MAX_EFFECTIVE_BALANCE *)
  Definition deposit_effective_balance (amount : N) : outcome N :=
    if EFFECTIVE_BALANCE_INCREMENT c =? 0 then Panic DivZero else
    let eb := amount - amount mod EFFECTIVE_BALANCE_INCREMENT c in
    Ok (if MAX_EFFECTIVE_BALANCE c <? eb then MAX_EFFECTIVE_BALANCE c else eb).
  (* after state.AddValidator: pc := cache.AddValidator(valCount, pubkey) (error -> return it);
     if len(EffectiveBalances) == valCount { EffectiveBalances = copy ++ [effBalance] } *)
  Definition on_new_validator (e : epc) (val_count : N) (pubkey : bytes) (amount : N) : outcome epc :=
    bind (pubkeys_add (epc_pubkeys e) val_count pubkey) (fun pks =>
    bind (if N.of_nat (length (epc_effective_balances e)) =? val_count
          then bind (deposit_effective_balance amount) (fun eb => Ok (epc_effective_balances e ++ [eb]))
          else Ok (epc_effective_balances e)) (fun effs =>
      Ok (mkEpc (epc_prev e) (epc_cur e) (epc_next e) (epc_proposers_epoch e) (epc_proposers e) effs
                (epc_total_active_stake e) (epc_total_active_stake_sqrt e) (epc_sync_current e) (epc_sync_next e) pks))).
  (* the decision of ProcessDeposit: exists := ok && valIndex < valCount; a new key with a valid proof of possession is added *)
  Definition epc_apply_deposit (e : epc) (st : BeaconState) (pubkey wc : bytes) (amount : N) (sig : bytes) : outcome epc :=
    let val_count := N.of_nat (length (validators st)) in
    match (match index_of_pubkey pubkey (epc_pubkeys e) 0 with Some i => if i <? val_count then Some i else None | None => None end) with
    | Some _ => Ok e
    | None =>
        let msg := VCont [VBytes pubkey; VBytes wc; VUint amount] in
        let domain := compute_domain E DOMAIN_DEPOSIT (GENESIS_FORK_VERSION c) zero32 in
        if bls_verify E pubkey (compute_signing_root E (htr E DepositMessageT msg) domain) sig
        then on_new_validator e val_count pubkey amount
        else Ok e
    end.

  (* `_orig`: the pinned snapshot, before fix 8e640f4: the cache is extended, EffectiveBalances is not *)
  Definition on_new_validator_orig (e : epc) (val_count : N) (pubkey : bytes) : outcome epc :=
    bind (pubkeys_add (epc_pubkeys e) val_count pubkey) (fun pks =>
      Ok (mkEpc (epc_prev e) (epc_cur e) (epc_next e) (epc_proposers_epoch e) (epc_proposers e) (epc_effective_balances e)
                (epc_total_active_stake e) (epc_total_active_stake_sqrt e) (epc_sync_current e) (epc_sync_next e) pks)).
  Definition epc_apply_deposit_orig (e : epc) (st : BeaconState) (pubkey wc : bytes) (amount : N) (sig : bytes) : outcome epc :=
    let val_count := N.of_nat (length (validators st)) in
    match (match index_of_pubkey pubkey (epc_pubkeys e) 0 with Some i => if i <? val_count then Some i else None | None => None end) with
    | Some _ => Ok e
    | None =>
        let msg := VCont [VBytes pubkey; VBytes wc; VUint amount] in
        let domain := compute_domain E DOMAIN_DEPOSIT (GENESIS_FORK_VERSION c) zero32 in
        if bls_verify E pubkey (compute_signing_root E (htr E DepositMessageT msg) domain) sig
        then on_new_validator_orig e val_count pubkey
        else Ok e
    end.

  (* ---------------- fork.go: the context side of UpgradeMaybe ---------------- *)
  (* the chain of `if` blocks of UpgradeMaybe, read along the Spec's upgrade_maybe: only the altair block touches the
     context (LoadSyncCommittees on the upgraded state) *)
  Fixpoint epc_upgrade_maybe (fuel : nat) (f : fork) (st : BeaconState) (e : epc) : outcome epc :=
    match fuel with
    | O => Ok e
    | S k =>
        match next_fork f with
        | Some fn =>
            if (slot st mod SLOTS_PER_EPOCH c =? 0) && (compute_epoch_at_slot E (slot st) =? fork_epoch_of E fn)
            then match upgrade_to E fn st with
                 | Some st' =>
                     bind (match fn with Altair => load_sync_committees e st' | _ => Ok e end) (fun e' =>
                       epc_upgrade_maybe k fn st' e')
                 | None => Err
                 end
            else Ok e
        | None => Ok e
        end
    end.

  (* ---------------- transition.go: ProcessSlots / StateTransition, context side ---------------- *)
  (* one iteration of the ProcessSlots loop: ProcessSlot; ProcessEpoch at an epoch end; SetSlot(slot+1);
     RotateEpochs at an epoch end; UpgradeMaybe.  The states are the Spec's. *)
  Definition epc_slot_step (f : fork) (st : BeaconState) (e : epc) : outcome epc :=
    let st0 := process_slot E f st in
    if (slot st0 + 1) mod SLOTS_PER_EPOCH c =? 0 then
      match process_epoch E f st0 with
      | Some st1 =>
          let st2 := st1 <| slot := slot st1 + 1 |> in
          bind (rotate_epochs f st2 e) (fun e' => epc_upgrade_maybe 5 f st2 e')
      | None => Err
      end
    else epc_upgrade_maybe 5 f (st0 <| slot := slot st0 + 1 |>) e.

  Fixpoint epc_slots_loop (fuel : nat) (f : fork) (st : BeaconState) (e : epc) (target : N) : outcome epc :=
    if target <=? slot st then Ok e else
    match fuel with
    | O => Err
    | S k =>
        match slot_step E f st with
        | Some (f1, st1) => bind (epc_slot_step f st e) (fun e1 => epc_slots_loop k f1 st1 e1 target)
        | None => Err
        end
    end.
  Definition epc_process_slots (f : fork) (st : BeaconState) (e : epc) (target : N) : outcome epc :=
    if (slot st <? target) && (target - slot st <=? MAX_SLOTS_PER_CALL)
    then epc_slots_loop (N.to_nat (target - slot st)) f st e target else Err.

  (* what a block does to the context: ProcessDeposit is the only writer (see the grep in design/C08-impl.md); per
     validator appended to the registry it appends the pubkey and the effective balance *)
  Definition epc_extend (e : epc) (pks : list bytes) (effs : list N) : epc :=
    mkEpc (epc_prev e) (epc_cur e) (epc_next e) (epc_proposers_epoch e) (epc_proposers e) (epc_effective_balances e ++ effs)
          (epc_total_active_stake e) (epc_total_active_stake_sqrt e) (epc_sync_current e) (epc_sync_next e)
          (epc_pubkeys e ++ pks).
  Definition epc_after_block (e : epc) (st st' : BeaconState) : epc :=
    let new := skipn (length (validators st)) (validators st') in
    epc_extend e (map v_pubkey new) (map v_effective_balance new).
  (* the deposits of a block one by one, as ProcessDeposits runs them (states from the Spec's process_deposit) *)
  Fixpoint epc_process_deposits (f : fork) (st : BeaconState) (e : epc) (deps : list value) : outcome epc :=
    match deps with
    | [] => Ok e
    | dep :: t =>
        let data := vfield dep 1 in
        match process_deposit E f st dep with
        | Some st' =>
            bind (epc_apply_deposit e (st <| eth1_deposit_index := eth1_deposit_index st + 1 |>)
                    (vbytes (vfield data 0)) (vbytes (vfield data 1)) (vuint (vfield data 2)) (vbytes (vfield data 3)))
                 (fun e' => epc_process_deposits f st' e' t)
        | None => Err
        end
    end.

  (* StateTransition: ProcessSlots to the block's slot, then the block *)
  Definition epc_state_transition (f : fork) (st : BeaconState) (e : epc) (bf : fork) (signed_block : value) (validate : bool)
    : outcome epc :=
    let blk := vfield signed_block 0 in
    match process_slots E f st (vuint (vfield blk 0)) with
    | Some (f', st1) =>
        bind (epc_process_slots f st e (vuint (vfield blk 0))) (fun e1 =>
          match process_block E f' st1 blk with
          | Some st2 => Ok (epc_after_block e1 st1 st2)
          | None => Err
          end)
    | None => Err
    end.

  (* a chain: empty-slot advances and signed blocks *)
  Inductive chain_step := CSlots (target : N) | CBlock (bf : fork) (signed_block : value) (validate : bool).
  Definition spec_chain_step (f : fork) (st : BeaconState) (s : chain_step) : option (fork * BeaconState) :=
    match s with
    | CSlots t => process_slots E f st t
    | CBlock bf sb v => state_transition E f st bf sb v
    end.
  Definition epc_chain_step (f : fork) (st : BeaconState) (e : epc) (s : chain_step) : outcome epc :=
    match s with
    | CSlots t => epc_process_slots f st e t
    | CBlock bf sb v => epc_state_transition f st e bf sb v
    end.
  Fixpoint spec_chain (steps : list chain_step) (f : fork) (st : BeaconState) : option (fork * BeaconState) :=
    match steps with
    | [] => Some (f, st)
    | s :: t => match spec_chain_step f st s with Some (f1, st1) => spec_chain t f1 st1 | None => None end
    end.
  Fixpoint epc_chain (steps : list chain_step) (f : fork) (st : BeaconState) (e : epc) : outcome epc :=
    match steps with
    | [] => Ok e
    | s :: t =>
        match spec_chain_step f st s with
        | Some (f1, st1) => bind (epc_chain_step f st e s) (fun e1 => epc_chain t f1 st1 e1)
        | None => Err
        end
    end.
End EpcImpl.
