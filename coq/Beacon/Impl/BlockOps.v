(* Implementation models of zrnt's block processing, where zrnt's algorithm is NOT the pyspec text.  MODELS ONLY
   (proofs: Beacon/Refine/Block*Refine.v).

     altair/sync_aggregate.go     ProcessSyncAggregate        (cached committee indices; `_orig` = pinned snapshot: batched proposer reward)
     phase0/voluntary_exit.go     InitiateValidatorExit       (one pass: running maximum + its churn)
     phase0/slashings.go          SlashValidator
     phase0/attester_slashing.go  ProcessAttesterSlashing     (ZigZagJoin, validators view taken before the loop)
     altair/attestation.go        ProcessAttestation          (flag word OR-ed at once, numerator accumulation)
     phase0/deposit.go            ProcessDeposits/ProcessDeposit (pubkey cache lookup; `_orig` = pinned snapshot: wrapping deposit count)
     capella/transition.go        GetExpectedWithdrawals / ProcessWithdrawals
     common/header.go             ProcessHeader

   Conventions.  Go uint64 arithmetic that can wrap is add64/mul64 (Base/U64.v); `x / y` is `div64` which is
   `Panic DivZero` for y = 0.  A tree-view read/write with an out-of-range index is an *error* in ztyp (`Err`); a Go
   slice index out of range is `Panic IndexOOR`.  The data zrnt reads from its EpochsContext instead of the state
   is the record `BlockEpc`; that it agrees with the state (`epc_ok`, Refine/BlockEpc) is property C08's business
   and is a hypothesis of every refinement theorem here.  Signature checks call the same oracles as the Spec on
   arguments built by the model; an undecodable key or signature is an oracle `false` (Go: an error). *)
From Coq Require Import String.
From Coq Require Import NArith List Bool.
From RecordUpdate Require Import RecordSet.
From V Require Import Base.U64 Base.Outcome Ssz.SszCore Beacon.Config Beacon.Schemas Beacon.State
  Beacon.Spec.Helpers Beacon.Spec.Epoch Beacon.Spec.Block.
Import ListNotations RecordSetNotations.
Local Open Scope string_scope.
Local Open Scope list_scope.
Local Open Scope N_scope.

Notation "x <~ a ;; b" := (bind a (fun x => b)) (at level 61, a at next level, right associativity).
Definition div64 (a b : N) : outcome N := if b =? 0 then Panic DivZero else Ok (a / b).
Definition of_opt {A} (o : option A) : outcome A := match o with Some a => Ok a | None => Err end.
Definition check (b : bool) : outcome unit := if b then Ok tt else Err.

(* what the block operations read from zrnt's EpochsContext *)
Record BlockEpc := mkBlockEpc {
  be_current_epoch : N;                 (* epc.CurrentEpoch.Epoch *)
  be_active_count : N;                  (* len(epc.CurrentEpoch.ActiveIndices) *)
  be_proposer : option N;               (* epc.GetBeaconProposer(state.slot); None = lookup error *)
  be_eff_balances : list N;             (* epc.EffectiveBalances *)
  be_total_active_stake : N;            (* epc.TotalActiveStake *)
  be_total_active_stake_sqrt : N;       (* epc.TotalActiveStakeSqRoot *)
  be_sync_indices : list N;             (* epc.CurrentSyncCommittee.Indices *)
  be_sync_pubkeys : list bytes;         (* epc.CurrentSyncCommittee.CachedPubkeys *)
  be_pubkey_index : bytes -> option N;  (* epc.ValidatorPubkeyCache.ValidatorIndex *)
  be_pubkey_of : N -> option bytes      (* epc.ValidatorPubkeyCache.Pubkey *)
}.

(* ---------- common.IncreaseBalance / DecreaseBalance on the balances tree view ---------- *)
Definition go_increase_balance (bals : list N) (i delta : N) : outcome (list N) :=
  match nthN bals i with Some b => Ok (setN bals i (add64 b delta)) | None => Err end.
Definition go_decrease_balance (bals : list N) (i delta : N) : outcome (list N) :=
  match nthN bals i with Some b => Ok (setN bals i (if delta <=? b then b - delta else 0)) | None => Err end.

Section Impl.
  Variable E : Env.
  Variable f : fork.
  Let c := cfg E.
  Notation htr := (htr E).

  (* ================= altair/sync_aggregate.go ProcessSyncAggregate ================= *)
  (* first loop: participant pubkeys, CachedPubkeys[i] for the set bits *)
  Fixpoint sync_select (bits : list bool) (pks : list bytes) : outcome (list bytes) :=
    match bits with
    | [] => Ok []
    | b :: bits' =>
        match pks with
        | [] => if b then Panic IndexOOR else sync_select bits' []
        | pk :: pks' => r <~ sync_select bits' pks' ;; Ok (if b then pk :: r else r)
        end
    end.
  (* PINNED SNAPSHOT (before fix 74b46c6): second loop, reward or penalise each committee position; the proposer is
     NOT touched here and is credited once after the loop *)
  Fixpoint sync_loop_orig (bits : list bool) (idxs : list N) (pr : N) (bals : list N) : outcome (list N) :=
    match bits with
    | [] => Ok bals
    | b :: bits' =>
        match idxs with
        | [] => Panic IndexOOR
        | i :: idxs' =>
            bals' <~ (if b then go_increase_balance bals i pr else go_decrease_balance bals i pr) ;;
            sync_loop_orig bits' idxs' pr bals'
        end
    end.
  (* participant and proposer reward, uint64 arithmetic *)
  Definition sync_rewards_impl (epc : BlockEpc) : outcome (N * N) :=
    tai <~ div64 (be_total_active_stake epc) (EFFECTIVE_BALANCE_INCREMENT c) ;;
    brpi <~ div64 (mul64 (EFFECTIVE_BALANCE_INCREMENT c) (BASE_REWARD_FACTOR c)) (be_total_active_stake_sqrt epc) ;;
    let total_base_rewards := mul64 brpi tai in
    mpr <~ div64 (mul64 total_base_rewards SYNC_REWARD_WEIGHT / WEIGHT_DENOMINATOR) (SLOTS_PER_EPOCH c) ;;
    pr <~ div64 mpr (SYNC_COMMITTEE_SIZE c) ;;
    Ok (pr, mul64 pr PROPOSER_WEIGHT / (WEIGHT_DENOMINATOR - PROPOSER_WEIGHT)).
  (* blsu.Eth2FastAggregateVerify: no participants verify only the point at infinity *)
  Definition eth2_fast_aggregate_verify (pks : list bytes) (msg sig : bytes) : bool :=
    match pks with [] => bytes_eqb sig G2_POINT_AT_INFINITY | _ => bls_fast_aggregate_verify E pks msg sig end.

  Definition process_sync_aggregate_orig (epc : BlockEpc) (st : BeaconState) (sa : value) : outcome BeaconState :=
    let bits := vbits (vfield sa 0) in
    let sig := vbytes (vfield sa 1) in
    _ <~ check (N.of_nat (length bits) =? SYNC_COMMITTEE_SIZE c) ;;            (* bitfields.BitvectorCheck *)
    participants <~ sync_select bits (be_sync_pubkeys epc) ;;
    let prev_slot := if slot st =? GENESIS_SLOT then GENESIS_SLOT else slot st - 1 in   (* Slot.Previous *)
    ep <~ div64 prev_slot (SLOTS_PER_EPOCH c) ;;
    let domain := get_domain E st DOMAIN_SYNC_COMMITTEE ep in
    ri <~ (if SLOTS_PER_HISTORICAL_ROOT c =? 0 then Panic DivZero else Ok (prev_slot mod SLOTS_PER_HISTORICAL_ROOT c)) ;;
    root <~ of_opt (nthN (block_roots st) ri) ;;                               (* BatchRootsView.GetRoot: NO range check *)
    _ <~ check (eth2_fast_aggregate_verify participants (compute_signing_root E root domain) sig) ;;
    rw <~ sync_rewards_impl epc ;;
    let '(pr, propr) := rw in
    bals <~ sync_loop_orig bits (be_sync_indices epc) pr (balances st) ;;
    proposer <~ of_opt (be_proposer epc) ;;
    bals <~ go_increase_balance bals proposer (mul64 propr (N.of_nat (length participants))) ;;   (* batched *)
    Ok (st <| balances := bals |>).


  (* the code as repaired by fixes/C01-sync-aggregate-proposer-reward-order.diff (/repo 74b46c6): the proposer is looked
     up before the loop and credited per participant, in committee order *)
  Fixpoint sync_loop (bits : list bool) (idxs : list N) (p pr propr : N) (bals : list N) : outcome (list N) :=
    match bits with
    | [] => Ok bals
    | b :: bits' =>
        match idxs with
        | [] => Panic IndexOOR
        | i :: idxs' =>
            bals' <~ (if b then b1 <~ go_increase_balance bals i pr ;; go_increase_balance b1 p propr
                      else go_decrease_balance bals i pr) ;;
            sync_loop bits' idxs' p pr propr bals'
        end
    end.
  Definition process_sync_aggregate_impl (epc : BlockEpc) (st : BeaconState) (sa : value) : outcome BeaconState :=
    let bits := vbits (vfield sa 0) in
    let sig := vbytes (vfield sa 1) in
    _ <~ check (N.of_nat (length bits) =? SYNC_COMMITTEE_SIZE c) ;;
    participants <~ sync_select bits (be_sync_pubkeys epc) ;;
    let prev_slot := if slot st =? GENESIS_SLOT then GENESIS_SLOT else slot st - 1 in
    ep <~ div64 prev_slot (SLOTS_PER_EPOCH c) ;;
    let domain := get_domain E st DOMAIN_SYNC_COMMITTEE ep in
    ri <~ (if SLOTS_PER_HISTORICAL_ROOT c =? 0 then Panic DivZero else Ok (prev_slot mod SLOTS_PER_HISTORICAL_ROOT c)) ;;
    root <~ of_opt (nthN (block_roots st) ri) ;;
    _ <~ check (eth2_fast_aggregate_verify participants (compute_signing_root E root domain) sig) ;;
    rw <~ sync_rewards_impl epc ;;
    let '(pr, propr) := rw in
    proposer <~ of_opt (be_proposer epc) ;;
    bals <~ sync_loop bits (be_sync_indices epc) proposer pr propr (balances st) ;;
    Ok (st <| balances := bals |>).

  (* ================= phase0/voluntary_exit.go InitiateValidatorExit ================= *)
  (* one pass over the registry: running queue end and the number of validators exiting at it *)
  Definition exit_scan_step (acc : N * N) (v : Validator) : N * N :=
    let '(q, ch) := acc in
    let e := v_exit_epoch v in
    if e =? FAR_FUTURE_EPOCH then acc
    else if e =? q then (q, add64 ch 1)
    else if q <? e then (e, 1)
    else acc.
  Definition initiate_validator_exit_impl (epc : BlockEpc) (st : BeaconState) (index : N) : outcome BeaconState :=
    v <~ of_opt (nthN (validators st) index) ;;
    if negb (v_exit_epoch v =? FAR_FUTURE_EPOCH) then Ok st else
    let start := add64 (add64 (be_current_epoch epc) 1) (MAX_SEED_LOOKAHEAD c) in     (* ComputeActivationExitEpoch *)
    let '(q, ch) := fold_left exit_scan_step (validators st) (start, 0) in
    quot <~ div64 (be_active_count epc) (CHURN_LIMIT_QUOTIENT c) ;;
    let churn_limit := N.max (MIN_PER_EPOCH_CHURN_LIMIT c) quot in                   (* spec.GetChurnLimit *)
    let q := if churn_limit <=? ch then add64 q 1 else q in
    Ok (st <| validators := updN (validators st) index
                 (fun v => v <| v_exit_epoch := q |>
                             <| v_withdrawable_epoch := add64 q (MIN_VALIDATOR_WITHDRAWABILITY_DELAY c) |>) |>).


  (* ================= phase0/voluntary_exit.go, deneb/voluntary_exit.go ProcessVoluntaryExit ================= *)
  Definition process_voluntary_exit_impl (epc : BlockEpc) (st : BeaconState) (sve : value) : outcome BeaconState :=
    let ve := vfield sve 0 in
    let ve_epoch := vuint (vfield ve 0) in
    let vi := vuint (vfield ve 1) in
    let ce := be_current_epoch epc in
    _ <~ check (vi <? N.of_nat (length (validators st))) ;;                   (* IsValidIndex *)
    v <~ of_opt (nthN (validators st) vi) ;;
    _ <~ check (is_active_validator v ce) ;;
    _ <~ check (v_exit_epoch v =? FAR_FUTURE_EPOCH) ;;
    _ <~ check (negb (ce <? ve_epoch)) ;;
    (* registeredActivationEpoch + SHARD_COMMITTEE_PERIOD in uint64: cannot wrap once IsActive has passed *)
    _ <~ check (negb (ce <? add64 (v_activation_epoch v) (SHARD_COMMITTEE_PERIOD c))) ;;
    pk <~ of_opt (be_pubkey_of epc vi) ;;                                     (* ValidatorPubkeyCache.Pubkey *)
    let domain := if fork_ge f Deneb
                  then compute_domain E DOMAIN_VOLUNTARY_EXIT (CAPELLA_FORK_VERSION c) (genesis_validators_root st)
                  else get_domain E st DOMAIN_VOLUNTARY_EXIT ve_epoch in
    _ <~ check (bls_verify E pk (compute_signing_root E (htr VoluntaryExitT ve) domain) (vbytes (vfield sve 1))) ;;
    initiate_validator_exit_impl epc st vi.

  (* ================= phase0/slashings.go SlashValidator ================= *)
  Definition calc_proposer_share (whistleblower_reward : N) : outcome N :=   (* ForkSettings.CalcProposerShare *)
    match f with
    | Phase0 => div64 whistleblower_reward (PROPOSER_REWARD_QUOTIENT c)
    | _ => Ok (mul64 whistleblower_reward PROPOSER_WEIGHT / WEIGHT_DENOMINATOR)
    end.
  Definition slash_validator_impl (epc : BlockEpc) (st : BeaconState) (slashed_index : N) (whistleblower : option N)
    : outcome BeaconState :=
    let epoch := be_current_epoch epc in
    st <~ initiate_validator_exit_impl epc st slashed_index ;;
    v <~ of_opt (nthN (validators st) slashed_index) ;;
    let wd := add64 epoch (EPOCHS_PER_SLASHINGS_VECTOR c) in
    let v' := (v <| v_slashed := true |>)
                <| v_withdrawable_epoch := if v_withdrawable_epoch v <? wd then wd else v_withdrawable_epoch v |> in
    let st := st <| validators := setN (validators st) slashed_index v' |> in
    let eff := v_effective_balance v in
    (* SlashingsView.AddSlashing *)
    si <~ (if EPOCHS_PER_SLASHINGS_VECTOR c =? 0 then Panic DivZero else Ok (epoch mod EPOCHS_PER_SLASHINGS_VECTOR c)) ;;
    prev <~ of_opt (nthN (slashings st) si) ;;
    let st := st <| slashings := setN (slashings st) si (add64 prev eff) |> in
    pen <~ div64 eff (min_slashing_penalty_quotient E f) ;;
    bals <~ go_decrease_balance (balances st) slashed_index pen ;;
    proposer <~ of_opt (be_proposer epc) ;;
    let wb := match whistleblower with Some w => w | None => proposer end in
    wr <~ div64 eff (WHISTLEBLOWER_REWARD_QUOTIENT c) ;;
    pshare <~ calc_proposer_share wr ;;
    bals <~ go_increase_balance bals proposer pshare ;;
    bals <~ go_increase_balance bals wb (sub64 wr pshare) ;;
    Ok (st <| balances := bals |>).

  (* ================= phase0/attester_slashing.go ProcessAttesterSlashing: the join loop ================= *)
  (* common.ValidatorSet.ZigZagJoin restricted to onIn: walk two sorted index lists; `fuel` bounds the steps *)
  Fixpoint zigzag (fuel : nat) (a b : list N) : list N :=
    match fuel with
    | O => []
    | S k =>
        match a, b with
        | [], _ => []
        | x :: a', [] => zigzag k a' []                    (* jV is the marker 2^64-1: iV < jV, i++ *)
        | x :: a', y :: b' =>
            if x =? y then x :: zigzag k a' b'
            else if x <? y then zigzag k a' b
            else zigzag k a b'
        end
    end.
  (* `validators` is the view obtained BEFORE the loop: slashability is read from the pre-loop registry *)
  Fixpoint attester_slash_loop (epc : BlockEpc) (vals0 : list Validator) (l : list N) (st : BeaconState) (any : bool)
    : outcome (BeaconState * bool) :=
    match l with
    | [] => Ok (st, any)
    | i :: l' =>
        v <~ of_opt (nthN vals0 i) ;;
        if is_slashable_validator v (be_current_epoch epc)
        then st' <~ slash_validator_impl epc st i None ;; attester_slash_loop epc vals0 l' st' true
        else attester_slash_loop epc vals0 l' st any
    end.
  Definition process_attester_slashing_impl (epc : BlockEpc) (st : BeaconState) (asl : value) : outcome BeaconState :=
    let a1 := vfield asl 0 in let a2 := vfield asl 1 in
    _ <~ check (is_slashable_attestation_data (vfield a1 1) (vfield a2 1)) ;;
    _ <~ check (is_valid_indexed_attestation E st a1) ;;
    _ <~ check (is_valid_indexed_attestation E st a2) ;;
    let i1 := map vuint (vseq (vfield a1 0)) in
    let i2 := map vuint (vseq (vfield a2 0)) in
    r <~ attester_slash_loop epc (validators st) (zigzag (length i1 + length i2) i1 i2) st false ;;
    _ <~ check (snd r) ;;
    Ok (fst r).

  (* ================= altair/attestation.go ProcessAttestation: flags and proposer reward ================= *)
  (* ParticipationFlags word of the flag-index list *)
  Definition flags_word (flags : list N) : N := fold_left add_flag flags 0.
  Definition att_flag_step (epc : BlockEpc) (apply brpi : N) (acc : outcome (list N * N)) (vi : N) : outcome (list N * N) :=
    pn <~ acc ;;
    let '(part, num) := pn in
    if apply =? 0 then Ok (part, num) else
    eb <~ match nthN (be_eff_balances epc) vi with Some x => Ok x | None => Panic IndexOOR end ;;   (* epc.EffectiveBalances[vi] *)
    incr <~ div64 eb (EFFECTIVE_BALANCE_INCREMENT c) ;;
    let base_reward := mul64 incr brpi in
    existing <~ of_opt (nthN part vi) ;;
    let bump (fl w : N) (num : N) :=
      if N.testbit apply fl && negb (N.testbit existing fl) then add64 num (mul64 base_reward w) else num in
    let num := bump TIMELY_HEAD_FLAG_INDEX TIMELY_HEAD_WEIGHT
                 (bump TIMELY_TARGET_FLAG_INDEX TIMELY_TARGET_WEIGHT
                    (bump TIMELY_SOURCE_FLAG_INDEX TIMELY_SOURCE_WEIGHT num)) in
    Ok (setN part vi (N.lor existing apply), num).
  (* the part of ProcessAttestation after the checks: `attesting` is indexedAtt.AttestingIndices (sorted), `flags`
     the applicable flag indices *)
  Definition attestation_rewards_impl (epc : BlockEpc) (st : BeaconState) (is_cur : bool) (attesting : list N) (flags : list N)
    : outcome BeaconState :=
    let part := if is_cur then current_epoch_participation st else previous_epoch_participation st in
    brpi <~ div64 (mul64 (EFFECTIVE_BALANCE_INCREMENT c) (BASE_REWARD_FACTOR c)) (be_total_active_stake_sqrt epc) ;;
    pn <~ fold_left (att_flag_step epc (flags_word flags) brpi) attesting (Ok (part, 0)) ;;
    let '(part, num) := pn in
    let denom := (WEIGHT_DENOMINATOR - PROPOSER_WEIGHT) * WEIGHT_DENOMINATOR / PROPOSER_WEIGHT in
    let reward := num / denom in
    proposer <~ of_opt (be_proposer epc) ;;
    bals <~ go_increase_balance (balances st) proposer reward ;;
    let st := if is_cur then st <| current_epoch_participation := part |> else st <| previous_epoch_participation := part |> in
    Ok (st <| balances := bals |>).
  (* sort.Slice of the participants (distinct indices): the sorted permutation *)
  Definition sort_indices (l : list N) : list N := sort_uniq l.

  (* ================= phase0/deposit.go ================= *)
  Definition add_validator_impl (st : BeaconState) (pubkey wc : bytes) (amount : N) : outcome BeaconState :=
    let m := amount mod EFFECTIVE_BALANCE_INCREMENT c in          (* Go: % by zero would panic *)
    if EFFECTIVE_BALANCE_INCREMENT c =? 0 then Panic DivZero else
    let eb := amount - m in
    let eb := if MAX_EFFECTIVE_BALANCE c <? eb then MAX_EFFECTIVE_BALANCE c else eb in
    (* ztyp list Append: error when the list is at its limit *)
    _ <~ check (N.of_nat (length (validators st)) <? VALIDATOR_REGISTRY_LIMIT c) ;;
    _ <~ check (N.of_nat (length (balances st)) <? VALIDATOR_REGISTRY_LIMIT c) ;;
    let st := st <| validators := validators st ++ [mkValidator pubkey wc eb false FAR_FUTURE_EPOCH FAR_FUTURE_EPOCH
                                                                  FAR_FUTURE_EPOCH FAR_FUTURE_EPOCH] |>
                 <| balances := balances st ++ [amount] |> in
    if fork_ge f Altair
    then _ <~ check (N.of_nat (length (previous_epoch_participation st)) <? VALIDATOR_REGISTRY_LIMIT c) ;;
         _ <~ check (N.of_nat (length (current_epoch_participation st)) <? VALIDATOR_REGISTRY_LIMIT c) ;;
         _ <~ check (N.of_nat (length (inactivity_scores st)) <? VALIDATOR_REGISTRY_LIMIT c) ;;
         Ok (st <| previous_epoch_participation := previous_epoch_participation st ++ [0] |>
                <| current_epoch_participation := current_epoch_participation st ++ [0] |>
                <| inactivity_scores := inactivity_scores st ++ [0] |>)
    else Ok st.
  Definition process_deposit_impl (epc : BlockEpc) (st : BeaconState) (dep : value) : outcome BeaconState :=
    let proof := map vbytes (vseq (vfield dep 0)) in
    let data := vfield dep 1 in
    let pubkey := vbytes (vfield data 0) in
    let wc := vbytes (vfield data 1) in
    let amount := vuint (vfield data 2) in
    let sig := vbytes (vfield data 3) in
    _ <~ check (is_valid_merkle_branch E (htr DepositDataT data) proof (DEPOSIT_CONTRACT_TREE_DEPTH + 1)
                  (eth1_deposit_index st) (e_deposit_root (eth1_data st))) ;;
    let st := st <| eth1_deposit_index := add64 (eth1_deposit_index st) 1 |> in
    let val_count := N.of_nat (length (validators st)) in
    match (match be_pubkey_index epc pubkey with Some i => if i <? val_count then Some i else None | None => None end) with
    | None =>
        let msg := VCont [VBytes pubkey; VBytes wc; VUint amount] in
        let domain := compute_domain E DOMAIN_DEPOSIT (GENESIS_FORK_VERSION c) zero32 in
        if bls_verify E pubkey (compute_signing_root E (htr DepositMessageT msg) domain) sig
        then add_validator_impl st pubkey wc amount
        else Ok st
    | Some i =>
        bals <~ go_increase_balance (balances st) i amount ;;
        Ok (st <| balances := bals |>)
    end.
  (* ProcessDeposits: the expected count; the subtraction wraps when deposit_count < eth1_deposit_index *)
  Definition expected_deposit_count_impl (st : BeaconState) : N :=
    let d := sub64 (e_deposit_count (eth1_data st)) (eth1_deposit_index st) in
    if MAX_DEPOSITS c <? d then MAX_DEPOSITS c else d.
  Definition process_deposits_orig (epc_of : BeaconState -> BlockEpc) (st : BeaconState) (deps : list value) : outcome BeaconState :=
    _ <~ check (N.of_nat (length deps) =? expected_deposit_count_impl st) ;;
    fold_left (fun acc dep => st <~ acc ;; process_deposit_impl (epc_of st) st dep) deps (Ok st).
  (* `_orig` above = pinned snapshot (no guard).  The code as repaired by fixes/C03-deposit-count-underflow.diff
     (/repo 9bd2c6a) refuses deposit_count < eth1_deposit_index first *)
  Definition process_deposits_impl (epc_of : BeaconState -> BlockEpc) (st : BeaconState) (deps : list value) : outcome BeaconState :=
    _ <~ check (eth1_deposit_index st <=? e_deposit_count (eth1_data st)) ;;
    process_deposits_orig epc_of st deps.

  (* ================= capella/transition.go GetExpectedWithdrawals / ProcessWithdrawals ================= *)
  Fixpoint withdrawals_sweep_impl (fuel : nat) (st : BeaconState) (epoch count widx vidx i : N) (acc : list (N * N * bytes * N))
    : outcome (list (N * N * bytes * N)) :=
    match fuel with
    | O => OutOfFuel
    | S k =>
        (* the validator and its balance are read BEFORE the loop bound is tested *)
        v <~ of_opt (nthN (validators st) vidx) ;;
        bal <~ of_opt (nthN (balances st) vidx) ;;
        if (count <=? i) || (MAX_VALIDATORS_PER_WITHDRAWALS_SWEEP c <=? i) then Ok acc else
        let addr := skipn 12 (v_withdrawal_credentials v) in
        let '(acc, widx) :=
            if is_fully_withdrawable_validator v bal epoch then (acc ++ [(widx, vidx, addr, bal)], add64 widx 1)
            else if is_partially_withdrawable_validator E v bal
                 then (acc ++ [(widx, vidx, addr, bal - MAX_EFFECTIVE_BALANCE c)], add64 widx 1)
                 else (acc, widx) in
        if N.of_nat (length acc) =? MAX_WITHDRAWALS_PER_PAYLOAD c then Ok acc
        else if count =? 0 then Panic DivZero
        else withdrawals_sweep_impl k st epoch count widx (add64 vidx 1 mod count) (add64 i 1) acc
    end.
  Definition get_expected_withdrawals_impl (st : BeaconState) : outcome (list (N * N * bytes * N)) :=
    ep <~ div64 (slot st) (SLOTS_PER_EPOCH c) ;;
    let count := N.of_nat (length (validators st)) in
    withdrawals_sweep_impl (S (N.to_nat (N.min count (MAX_VALIDATORS_PER_WITHDRAWALS_SWEEP c)))) st ep count
      (next_withdrawal_index st) (next_withdrawal_validator_index st) 0 [].

  Fixpoint withdrawals_apply_impl (got : list value) (expected : list (N * N * bytes * N)) (bals : list N) : outcome (list N) :=
    match expected, got with
    | [], _ => Ok bals
    | w :: expected', g :: got' =>
        let '(_, vi, _, amt) := w in
        _ <~ check (value_eqb g (withdrawal_to_value w)) ;;
        bals <~ go_decrease_balance bals vi amt ;;
        withdrawals_apply_impl got' expected' bals
    | _ :: _, [] => Panic IndexOOR
    end.
  Definition last_withdrawal (l : list (N * N * bytes * N)) : outcome (N * N * bytes * N) :=
    match rev l with w :: _ => Ok w | [] => Panic IndexOOR end.       (* expectedWithdrawals[len-1] *)
  Definition process_withdrawals_impl (st : BeaconState) (payload : value) : outcome BeaconState :=
    expected <~ get_expected_withdrawals_impl st ;;
    let got := vseq (pl_get E f payload "withdrawals") in
    _ <~ check (Nat.eqb (length expected) (length got)) ;;
    bals <~ withdrawals_apply_impl got expected (balances st) ;;
    let st := st <| balances := bals |> in
    st <~ (match expected with
           | [] => Ok st
           | _ => w <~ last_withdrawal expected ;; let '(i, _, _, _) := w in Ok (st <| next_withdrawal_index := add64 i 1 |>)
           end) ;;
    let count := N.of_nat (length (validators st)) in
    if N.of_nat (length expected) =? MAX_WITHDRAWALS_PER_PAYLOAD c
    then w <~ last_withdrawal expected ;;
         let '(_, vi, _, _) := w in
         if count =? 0 then Panic DivZero else
         Ok (st <| next_withdrawal_validator_index := add64 vi 1 mod count |>)
    else if count =? 0 then Panic DivZero else
         Ok (st <| next_withdrawal_validator_index :=
                     add64 (next_withdrawal_validator_index st) (MAX_VALIDATORS_PER_WITHDRAWALS_SWEEP c) mod count |>).

  (* ================= common/header.go ProcessHeader ================= *)
  Definition process_header_impl (epc : BlockEpc) (st : BeaconState) (blk : value) : outcome BeaconState :=
    let b_slot := vuint (vfield blk 0) in
    let b_proposer := vuint (vfield blk 1) in
    let b_parent := vbytes (vfield blk 2) in
    let body := vfield blk 4 in
    expected <~ of_opt (be_proposer epc) ;;                                   (* epc.GetBeaconProposer(benv.Slot) *)
    _ <~ check (b_slot =? slot st) ;;
    _ <~ check (negb (b_slot <=? h_slot (latest_block_header st))) ;;
    _ <~ check (b_proposer <? N.of_nat (length (validators st))) ;;           (* IsValidIndex *)
    _ <~ check (b_proposer =? expected) ;;
    _ <~ check (bytes_eqb b_parent (htr BeaconBlockHeaderT (header_to_value (latest_block_header st)))) ;;
    proposer <~ of_opt (nthN (validators st) b_proposer) ;;
    _ <~ check (negb (v_slashed proposer)) ;;
    Ok (st <| latest_block_header := mkHeader b_slot b_proposer b_parent zero32 (htr (BodyT E f) body) |>).
End Impl.
