(* Implementation model of zrnt's phase0 attester statuses, stakes and attestation deltas.
     /repo/eth2/beacon/phase0/attester.go   ComputeEpochAttesterData (AttesterStatus, AttesterFlag, processEpoch closure)
     /repo/eth2/beacon/phase0/deltas.go     AttestationRewardsAndPenalties, ProcessEpochRewardsAndPenalties
     /repo/eth2/beacon/phase0/attestation_bits.go  FilterParticipants
     /repo/eth2/beacon/common/deltas.go     Deltas.Add, ApplyDeltas
   The `AttesterFlag` bit field (uint8; `flags |= m`, `HasMarkers(a|b)`) is represented by a record of its eight bits:
   `flags |= PrevSourceAttester` sets the field, `HasMarkers(X | Y)` is the conjunction of the two fields.
   Pending attestations are the SSZ values of the state, read with the accessors of Spec/Epoch.v (zrnt: `attView.Raw()`).
   `committee_of slot index` is `epc.GetBeaconCommittee` (committees of the epochs context; None = error).
   `None` = Go error or panic (FilterParticipants panics on a length mismatch; inclusion delay 0 divides by zero). *)
From Coq Require Import NArith List Bool.
From RecordUpdate Require Import RecordSet.
From V Require Import Base.U64 Ssz.SszCore Beacon.Config Beacon.State Beacon.Spec.Helpers Beacon.Spec.Epoch.
From V Require Import Beacon.Impl.Flat Beacon.Impl.Justification Beacon.Impl.AltairAttester.
Import ListNotations RecordSetNotations.
Local Open Scope N_scope.

Record AttFlags := mkAttFlags {
  fg_prev_source : bool; fg_prev_target : bool; fg_prev_head : bool;
  fg_curr_source : bool; fg_curr_target : bool; fg_curr_head : bool;
  fg_unslashed : bool; fg_eligible : bool }.
Record AttesterStatus := mkStatus {
  as_inclusion_delay : N;
  as_attested_proposer : N;        (* common.ValidatorIndexMarker = 2^64-1 until an attestation is seen *)
  as_flags : AttFlags }.
(* the AttesterFlag byte *)
Definition flags_byte (f : AttFlags) : N :=
  (if fg_prev_source f then 1 else 0) + (if fg_prev_target f then 2 else 0) + (if fg_prev_head f then 4 else 0) +
  (if fg_curr_source f then 8 else 0) + (if fg_curr_target f then 16 else 0) + (if fg_curr_head f then 32 else 0) +
  (if fg_unslashed f then 64 else 0) + (if fg_eligible f then 128 else 0).

Definition VALIDATOR_INDEX_MARKER : N := max64.

Record Phase0AttesterData := mkP0Data {
  p0_prev_epoch : N;
  p0_cur_epoch : N;
  p0_statuses : list AttesterStatus;
  p0_flats : list FlatValidator;
  p0_prev_source_stake : N;
  p0_prev_target_stake : N;
  p0_prev_head_stake : N;
  p0_cur_target_stake : N }.

Section Phase0.
  Variable c : Config.
  Variable committee_of : N -> N -> option (list N).
  Notation INC := (EFFECTIVE_BALANCE_INCREMENT c).

  (* common.GetBlockRootAtSlot: BatchRootsView.GetRoot, index slot % SLOTS_PER_HISTORICAL_ROOT, no range check *)
  Definition block_root_at_slot_go (st : BeaconState) (s : N) : option bytes :=
    if SLOTS_PER_HISTORICAL_ROOT c =? 0 then None else nthN (block_roots st) (s mod SLOTS_PER_HISTORICAL_ROOT c).

  Definition init_status (pe : N) (fl : FlatValidator) : AttesterStatus :=
    mkStatus 0 VALIDATOR_INDEX_MARKER
             (mkAttFlags false false false false false false (negb (fl_slashed fl)) (eligible_cond pe fl)).

  (* "If the attestation is the earliest, i.e. has the smallest delay" *)
  Definition note_inclusion (delay proposer : N) (s : AttesterStatus) : AttesterStatus :=
    if (as_attested_proposer s =? VALIDATOR_INDEX_MARKER) || (delay <? as_inclusion_delay s)
    then mkStatus delay proposer (as_flags s) else s.
  (* flags |= sourceFlag; if target matches: |= targetFlag; if head matches too: |= headFlag *)
  Definition mark (is_prev tgt head : bool) (s : AttesterStatus) : AttesterStatus :=
    let f := as_flags s in
    mkStatus (as_inclusion_delay s) (as_attested_proposer s)
      (if is_prev
       then mkAttFlags true (fg_prev_target f || tgt) (fg_prev_head f || (tgt && head))
                       (fg_curr_source f) (fg_curr_target f) (fg_curr_head f) (fg_unslashed f) (fg_eligible f)
       else mkAttFlags (fg_prev_source f) (fg_prev_target f) (fg_prev_head f)
                       true (fg_curr_target f || tgt) (fg_curr_head f || (tgt && head)) (fg_unslashed f) (fg_eligible f)).

  (* out.Statuses[p] = g(out.Statuses[p]) for every participant p *)
  Definition update_participants (g : AttesterStatus -> AttesterStatus) (parts : list N) (sts : list AttesterStatus)
    : option (list AttesterStatus) :=
    fold_left (fun (acc : option (list AttesterStatus)) p =>
                 match acc with
                 | None => None
                 | Some sts => match nthN sts p with None => None | Some _ => Some (updN sts p g) end
                 end) parts (Some sts).

  (* `note` is the closure's test `epoch == prevEpoch` (true for BOTH calls in the genesis epoch); `is_prev` selects the flags *)
  Definition process_att (st : BeaconState) (note is_prev : bool) (target_root : bytes)
             (acc : option (list AttesterStatus)) (att : value) : option (list AttesterStatus) :=
    match acc with
    | None => None
    | Some sts =>
        let data := pa_data att in
        match block_root_at_slot_go st (ad_slot data), committee_of (ad_slot data) (ad_index data) with
        | Some att_root, Some committee =>
            if negb (Nat.eqb (length (pa_bits att)) (length committee)) then None   (* FilterParticipants panics *)
            else
              let parts := select_bits (pa_bits att) committee in
              let tgt := bytes_eqb (cp_root (ad_target data)) target_root in
              let head := bytes_eqb (ad_beacon_block_root data) att_root in
              match (if note then update_participants (note_inclusion (pa_inclusion_delay att) (pa_proposer_index att)) parts sts
                     else Some sts) with
              | None => None
              | Some sts => update_participants (mark is_prev tgt head) parts sts
              end
        | _, _ => None
        end
    end.

  Definition process_epoch_atts (st : BeaconState) (atts : list value) (epoch prev_epoch : N) (is_prev : bool)
             (sts : list AttesterStatus) : option (list AttesterStatus) :=
    match epoch_start_slot_go c epoch with
    | None => None
    | Some start =>
        match block_root_at_slot_go st start with
        | None => None
        | Some target_root => fold_left (process_att st (epoch =? prev_epoch) is_prev target_root) atts (Some sts)
        end
    end.

  (* the final loop over the statuses: nested stake sums *)
  Definition stake_step0 (acc : N * N * N * N) (sf : AttesterStatus * FlatValidator) : N * N * N * N :=
    let '(s, t, h, ct) := acc in
    let '(status, fl) := sf in
    let f := as_flags status in
    let eff := fl_effective_balance fl in
    let '(s, t, h) :=
      if fg_prev_source f && fg_unslashed f then
        (add64 s eff,
         (if fg_prev_target f then add64 t eff else t),
         (if fg_prev_target f && fg_prev_head f then add64 h eff else h))
      else (s, t, h) in
    (s, t, h, if fg_curr_target f && fg_unslashed f then add64 ct eff else ct).

  Definition compute_epoch_attester_data0 (epc : EpcView) (flats : list FlatValidator) (st : BeaconState)
    : option Phase0AttesterData :=
    let pe := epc_prev_epoch epc in
    let ce := epc_cur_epoch epc in
    let sts := map (init_status pe) flats in
    match process_epoch_atts st (previous_epoch_attestations st) pe pe true sts with
    | None => None
    | Some sts =>
        match process_epoch_atts st (current_epoch_attestations st) ce pe false sts with
        | None => None
        | Some sts =>
            let '(s, t, h, ct) := fold_left stake_step0 (combine sts flats) (0, 0, 0, 0) in
            Some (mkP0Data pe ce sts flats (clip_inc c s) (clip_inc c t) (clip_inc c h) (clip_inc c ct))
        end
    end.

  (* ---- AttestationRewardsAndPenalties ---- *)
  Record Deltas5 := mkD5 { d5_source : Deltas; d5_target : Deltas; d5_head : Deltas; d5_inclusion : Deltas; d5_inactivity : Deltas }.
  Definition add_reward (d : Deltas) (i x : N) : Deltas := mkDeltas (updN (d_rewards d) i (fun r => add64 r x)) (d_penalties d).
  Definition add_penalty (d : Deltas) (i x : N) : Deltas := mkDeltas (d_rewards d) (updN (d_penalties d) i (fun p => add64 p x)).

  (* one of the three "Expected FFG source / target / head" blocks; `base * stake / total` panics on total = 0 *)
  Definition component_step (participated leak : bool) (base stake total : N) (d : Deltas) (i : N) : option Deltas :=
    if participated then
      if leak then Some (add_reward d i base)
      else if total =? 0 then None else Some (add_reward d i (mul64 base stake / total))
    else Some (add_penalty d i base).

  Definition rewards_step (total src_stake tgt_stake head_stake sqrt finality_delay quotient : N)
             (leak : bool) (acc : option Deltas5) (isf : N * (AttesterStatus * FlatValidator)) : option Deltas5 :=
    match acc with
    | None => None
    | Some d =>
        let '(i, (status, fl)) := isf in
        let f := as_flags status in
        let eff := fl_effective_balance fl in
        if (sqrt =? 0) then None else
        let base := mul64 eff (BASE_REWARD_FACTOR c) / sqrt / BASE_REWARDS_PER_EPOCH in
        (* Inclusion delay *)
        match (if fg_prev_source f && fg_unslashed f then
                 if PROPOSER_REWARD_QUOTIENT c =? 0 then None else
                 let proposer_reward := base / PROPOSER_REWARD_QUOTIENT c in
                 match nthN (d_rewards (d5_inclusion d)) (as_attested_proposer status) with
                 | None => None                              (* Rewards[AttestedProposer]: index out of range *)
                 | Some _ =>
                     if as_inclusion_delay status =? 0 then None else
                     let incl := add_reward (d5_inclusion d) (as_attested_proposer status) proposer_reward in
                     Some (add_reward incl i ((base - proposer_reward) / as_inclusion_delay status))
                 end
               else Some (d5_inclusion d)) with
        | None => None
        | Some incl =>
            if fg_eligible f then
              match component_step (fg_prev_source f && fg_unslashed f) leak base src_stake total (d5_source d) i,
                    component_step (fg_prev_target f && fg_unslashed f) leak base tgt_stake total (d5_target d) i,
                    component_step (fg_prev_head f && fg_unslashed f) leak base head_stake total (d5_head d) i with
              | Some src, Some tgt, Some hd =>
                  if leak then
                    if (PROPOSER_REWARD_QUOTIENT c =? 0) || (quotient =? 0) then None else
                    let proposer_reward := base / PROPOSER_REWARD_QUOTIENT c in
                    let ina := add_penalty (d5_inactivity d) i (sub64 (mul64 BASE_REWARDS_PER_EPOCH base) proposer_reward) in
                    let ina := if negb (fg_prev_target f && fg_unslashed f)
                               then add_penalty ina i (mul64 eff finality_delay / quotient) else ina in
                    Some (mkD5 src tgt hd incl ina)
                  else Some (mkD5 src tgt hd incl (d5_inactivity d))
              | _, _, _ => None
              end
            else Some (mkD5 (d5_source d) (d5_target d) (d5_head d) incl (d5_inactivity d))
        end
    end.

  Definition attestation_rewards_and_penalties (epc : EpcView) (ad : Phase0AttesterData) (st : BeaconState) : option Deltas5 :=
    let n := length (p0_statuses ad) in
    let total_balance := epc_total_active_stake epc in
    let sqrt := N.sqrt total_balance in                     (* math.IntegerSquareroot(totalBalance): C19 isqrt_correct *)
    let finality_delay := sub64 (epc_prev_epoch epc) (cp_epoch (finalized_checkpoint st)) in
    if INC =? 0 then None else
    let total := total_balance / INC in
    let src := p0_prev_source_stake ad / INC in
    let tgt := p0_prev_target_stake ad / INC in
    let hd := p0_prev_head_stake ad / INC in
    let leak := MIN_EPOCHS_TO_INACTIVITY_PENALTY c <? finality_delay in
    fold_left (rewards_step total src tgt hd sqrt finality_delay (INACTIVITY_PENALTY_QUOTIENT c) leak)
              (indexed (combine (p0_statuses ad) (p0_flats ad)))
              (Some (mkD5 (new_deltas n) (new_deltas n) (new_deltas n) (new_deltas n) (new_deltas n))).

  Definition process_epoch_rewards_and_penalties0 (epc : EpcView) (ad : Phase0AttesterData) (st : BeaconState) : option BeaconState :=
    if epc_cur_epoch epc =? GENESIS_EPOCH then Some st else
    match attestation_rewards_and_penalties epc ad st with
    | None => None
    | Some d =>
        let sum := new_deltas (length (p0_statuses ad)) in
        let sum := deltas_add (deltas_add (deltas_add (deltas_add (deltas_add sum (d5_source d)) (d5_target d)) (d5_head d))
                                          (d5_inclusion d)) (d5_inactivity d) in
        match apply_deltas_go (balances st) sum with
        | None => None
        | Some bals => Some (st <| balances := bals |>)
        end
    end.
End Phase0.
