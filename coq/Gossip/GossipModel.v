(* C12 — Impl model of /repo/eth2/gossipval/*.go (the eight gossip topic validators).

   Every validator is a Gallina function over an abstract backend record (clock, seen-caches,
   chain view, per-entry context projections, BLS/hash oracles with NO assumed laws) returning
   (verdict, marks): the checks are performed in the ORDER zrnt performs them, the bytes handed to
   `verify` are modelled literally.  NO proofs in this file.

   The models describe the code WITH the repairs of /verif/fixes/C12-*.diff applied; the behaviour of
   the pinned snapshot is kept through the `variant` record (`orig`), used by the `_refuted` witnesses. *)
From Coq Require Import NArith ZArith List Bool.
From V Require Import Base.U64 Base.Outcome Math.MathModel.
Import ListNotations.
Local Open Scope N_scope.

(* ---------- basic types ---------- *)
Definition root := N.      (* 32 bytes, big-endian number *)
Definition sigv := N.      (* a signature value (96 bytes), abstract: only the oracles look inside *)
Definition pubkey := N.    (* a public key value, abstract *)
Definition entry := N.     (* a beacon.ChainEntry handed out by the chain view *)
Definition bytes := list N.

Inductive verdict := ACCEPT | IGNORE | REJECT | PANIC.   (* PANIC: a Go run-time panic inside the validator *)
Definition verdict_eqb (a b : verdict) : bool :=
  match a, b with ACCEPT, ACCEPT | IGNORE, IGNORE | REJECT, REJECT | PANIC, PANIC => true | _, _ => false end.

(* the Mark* calls of the backend interfaces *)
Inductive mark :=
| MkExit (index : N)
| MkProposerSlashing (proposer : N)
| MkAttesterSlashings (indices : list N)
| MkAttestation (target_epoch voter : N)
| MkAggregate (agg_root : root)
| MkAggregator (target_epoch aggregator : N)
| MkBlock (slot proposer : N)
| MkSyncCommMsg (validator slot subnet : N)
| MkContribution (aggregator slot subnet : N).

Definition result := (verdict * list mark)%type.

(* ---------- constants of the networking / honest-validator specs (Go consts) ---------- *)
Definition ATTESTATION_PROPAGATION_SLOT_RANGE : N := 32.
Definition ATTESTATION_SUBNET_COUNT : N := 64.
Definition TARGET_AGGREGATORS_PER_COMMITTEE : N := 16.
Definition SYNC_COMMITTEE_SUBNET_COUNT : N := 4.
Definition TARGET_AGGREGATORS_PER_SYNC_SUBCOMMITTEE : N := 16.
Definition FAR_FUTURE_EPOCH : N := max64.
Definition DISPARITY_MS : Z := 500%Z.          (* MAXIMUM_GOSSIP_CLOCK_DISPARITY *)

Record config := {
  SLOTS_PER_EPOCH : N;
  MAX_VALIDATORS_PER_COMMITTEE : N;
  SHARD_COMMITTEE_PERIOD : N;
  SYNC_COMMITTEE_SIZE : N
}.

Inductive dtype :=
| DBeaconProposer | DBeaconAttester | DVoluntaryExit | DSelectionProof | DAggregateAndProof
| DSyncCommittee | DSyncSelectionProof | DContributionAndProof.

Record vrec := { v_slashed : bool; v_activation : N; v_exit : N; v_withdrawable : N }.

(* ---------- the backend: everything a validator can ask ---------- *)
Record backend := {
  cfg : config;
  (* clock: SlotAfter(delta), delta in milliseconds *)
  slot_after : Z -> N;
  (* seen caches and the bad-block oracle *)
  seen_exit : N -> bool;
  seen_proposer_slashing : N -> bool;
  attester_slashable_all_seen : list N -> bool;
  seen_attestation : N -> N -> bool;
  seen_aggregate : root -> bool;
  seen_aggregator : N -> N -> bool;
  seen_block : N -> N -> bool;
  seen_sync_msg : N -> N -> N -> bool;
  seen_contribution : N -> N -> N -> bool;
  is_bad_block : root -> bool;
  (* DomainGetter of the backend (attestation + sync validators); None = error *)
  get_domain : dtype -> N -> option N;
  (* block envelope: compute_fork_digest / compute_domain(DOMAIN_BEACON_PROPOSER) of Spec.ForkVersion(slot)
     and the backend's GenesisValidatorsRoot *)
  fork_digest_at : N -> N;
  proposer_domain_at : N -> N;
  (* HeadInfo: None = error *)
  head_info : option entry;
  (* chain view *)
  by_block : root -> option entry;
  by_block_slot : root -> N -> option entry;
  in_subtree : root -> root -> bool * bool;        (* (unknown, inSubtree) of InSubtree(anchor, root) *)
  finalized : N * root;                            (* FinalizedCheckpoint (epoch, root) *)
  towards : root -> N -> option entry;             (* None = error / timeout *)
  (* per-entry projections *)
  entry_slot : entry -> N;
  epc_avail : entry -> bool;                       (* EpochsContext(ctx) returned no error *)
  state_avail : entry -> bool;                     (* State(ctx) returned no error *)
  epc_epoch : entry -> N;                          (* epc.CurrentEpoch.Epoch *)
  committee_count : entry -> N -> option N;        (* committees per slot of an epoch; None = epoch outside the context *)
  committee : entry -> N -> N -> option (list N);  (* GetBeaconCommittee(slot, index); None = error *)
  proposer_at : entry -> N -> option N;            (* GetBeaconProposer(slot); None = error *)
  sync_committee : entry -> option (list N);       (* CurrentSyncCommittee.Indices; None = nil (pre-altair) *)
  pubkey_of : entry -> N -> option pubkey;         (* ValidatorPubkeyCache.Pubkey(i) / state.validators[i].pubkey *)
  validator_count : entry -> N;
  validator : entry -> N -> option vrec;           (* None = error (out of range) *)
  state_domain : entry -> dtype -> N -> N;         (* common.GetDomain(state, type, epoch) *)
  block_root_at : entry -> N -> option root;       (* common.GetBlockRootAtSlot(state, slot); None = error *)
  (* crypto oracles *)
  H : bytes -> bytes;                              (* sha256 *)
  verify : pubkey -> bytes -> sigv -> bool;
  fast_aggregate_verify : list pubkey -> bytes -> sigv -> bool;
  sig_ok : sigv -> bool;                           (* the 96 bytes deserialize to a subgroup point *)
  sig_is_infinity : sigv -> bool;
  sel_hash : sigv -> N                             (* little-endian uint64 of sha256(signature bytes)[0:8] *)
}.

(* ---------- messages ---------- *)
Record checkpoint := { cp_epoch : N; cp_root : root }.
Record att_data := {
  ad_slot : N; ad_index : N; ad_bbr : root; ad_source : checkpoint; ad_target : checkpoint;
  ad_htr : root                (* hash_tree_root(data), computed by the SSZ layer *)
}.
Record attestation := { a_bits : list bool; a_data : att_data; a_sig : sigv }.
Record aggregate_and_proof := {
  ap_aggregator : N; ap_aggregate : attestation; ap_selection : sigv;
  ap_htr : root;               (* hash_tree_root(aggregate_and_proof) *)
  ap_agg_htr : root            (* hash_tree_root(aggregate) *)
}.
Record signed_aggregate := { sa_msg : aggregate_and_proof; sa_sig : sigv }.
Record voluntary_exit := { ex_epoch : N; ex_index : N; ex_htr : root; ex_sig : sigv }.
Record header := { h_slot : N; h_proposer : N; h_parent : root; h_state : root; h_body : root; h_htr : root }.
Record signed_header := { sh_msg : header; sh_sig : sigv }.
Record proposer_slashing := { ps_1 : signed_header; ps_2 : signed_header }.
Record indexed_att := { ia_indices : list N; ia_data : att_data; ia_sig : sigv }.
Record attester_slashing := { as_1 : indexed_att; as_2 : indexed_att }.
Record block_envelope := { b_slot : N; b_proposer : N; b_parent : root; b_root : root; b_digest : N; b_sig : sigv }.
Record sync_message := { sm_slot : N; sm_bbr : root; sm_index : N; sm_sig : sigv }.
Record contribution := { c_slot : N; c_bbr : root; c_sub : N; c_bits : list bool; c_sig : sigv }.
Record contribution_and_proof := {
  cap_aggregator : N; cap_contribution : contribution; cap_selection : sigv;
  cap_htr : root               (* hash_tree_root(contribution_and_proof) *)
}.
Record signed_contribution := { sc_msg : contribution_and_proof; sc_sig : sigv }.

(* ---------- variants: repaired code vs pinned snapshot ---------- *)
Record variant := {
  agg_outer_sig_prefix : option nat;   (* Some 2: outer signature verified over sigRoot[:2] *)
  block_mark_early : bool;             (* MarkBlock before the proposer check *)
  sync_span : N;                       (* CheckSlotSpan(..., span) of the two sync validators *)
  agg_lmd_checks : bool;               (* aggregate: block-seen + target-ancestor checks present *)
  exact_target : bool;                 (* attestation/aggregate: target root must be the checkpoint block *)
  sync_bits_as_bitlist : bool          (* SyncCommitteeSubnetBits.OnesCount discounts a (non-existent) delimiter bit *)
}.
Definition fixed : variant :=
  {| agg_outer_sig_prefix := None; block_mark_early := false; sync_span := 0; agg_lmd_checks := true; exact_target := true;
     sync_bits_as_bitlist := false |}.
Definition orig : variant :=
  {| agg_outer_sig_prefix := Some 2%nat; block_mark_early := true; sync_span := 1; agg_lmd_checks := false; exact_target := false;
     sync_bits_as_bitlist := true |}.

(* ---------- helpers ---------- *)
Fixpoint be_bytes (n : nat) (x : N) : bytes :=
  match n with O => [] | S k => be_bytes k (x / 256) ++ [x mod 256] end.
Definition root_bytes (r : N) : bytes := be_bytes 32 r.
Fixpoint le_bytes (n : nat) (x : N) : bytes :=
  match n with O => [] | S k => (x mod 256) :: le_bytes k (x / 256) end.
Definition bytes_to_N (bs : bytes) : N :=       (* big-endian *)
  fold_left (fun acc b => acc * 256 + b) bs 0.

(* hash_tree_root of a uint64: 8 little-endian bytes, zero padded to 32 *)
Definition u64_htr_bytes (x : N) : bytes := le_bytes 8 x ++ repeat 0 24.

Definition slot_to_epoch (c : config) (s : N) : N := s / SLOTS_PER_EPOCH c.
Definition start_slot (c : config) (e : N) : outcome N := epoch_start_slot (SLOTS_PER_EPOCH c) e.
(* `x, _ := spec.EpochStartSlot(e)`: the value with the error dropped (0 on error) *)
Definition start_slot_val (c : config) (e : N) : N :=
  match start_slot c e with Ok s => s | _ => 0 end.

Definition count_true (l : list bool) : N := N.of_nat (length (filter (fun x => x) l)).
Definition lenN {A} (l : list A) : N := N.of_nat (length l).
Definition memN (x : N) (l : list N) : bool := existsb (N.eqb x) l.
(* firstn/skipn with a binary counter (Go slice bounds are uint64: never unfold a unary number) *)
Fixpoint skipN {A} (n : N) (l : list A) : list A :=
  match l with [] => [] | _ :: t => if n =? 0 then l else skipN (n - 1) t end.
Fixpoint firstN {A} (n : N) (l : list A) : list A :=
  match l with [] => [] | x :: t => if n =? 0 then [] else x :: firstN (n - 1) t end.

(* a check sequence either stops with a result or goes on with a value *)
Inductive step A := Stop (r : result) | Go (a : A).
Arguments Stop {A} r.
Arguments Go {A} a.

(* bitfields.BitlistOnesCount applied to a bit VECTOR: the highest set bit of the last byte is taken for the
   delimiter of a bitlist and not counted *)
Definition last_byte_nonzero (bits : list bool) : bool :=
  match bits with
  | [] => false
  | _ => existsb (fun x => x) (skipN (8 * ((lenN bits - 1) / 8)) bits)
  end.
Definition ones_count_bitlist_style (bits : list bool) : N :=
  count_true bits - (if last_byte_nonzero bits then 1 else 0).
Definition subnet_bits_ones_count (vr : variant) (bits : list bool) : N :=
  if sync_bits_as_bitlist vr then ones_count_bitlist_style bits else count_true bits.

Section WithBackend.
  Variable b : backend.
  Local Notation c := (cfg b).

  (* ComputeSigningRoot(objRoot, domain) = H(objRoot ++ domain), as bytes *)
  Definition signing_root (obj : root) (dom : N) : bytes := H b (root_bytes obj ++ root_bytes dom).
  Definition signing_root_bytes (obj : bytes) (dom : N) : bytes := H b (obj ++ root_bytes dom).

  (* CheckSlotSpan(slotAfter, slot, span) = nil *)
  Definition span_ok (slot span : N) : bool :=
    check_slot_span (slot_after b (- DISPARITY_MS)%Z) (slot_after b DISPARITY_MS) slot span.

  (* blsu.Eth2FastAggregateVerify *)
  Definition eth2_fast_aggregate_verify (pks : list pubkey) (msg : bytes) (s : sigv) : bool :=
    match pks with
    | [] => sig_is_infinity b s
    | _ => fast_aggregate_verify b pks msg s
    end.

  (* ----- phase0.IsActive / IsSlashable ----- *)
  Definition is_active (v : vrec) (epoch : N) : bool := (v_activation v <=? epoch) && (epoch <? v_exit v).
  Definition is_slashable (v : vrec) (epoch : N) : bool :=
    negb (v_slashed v) && (v_activation v <=? epoch) && (epoch <? v_withdrawable v).

  (* =====================================================================================
     voluntary_exit.go
     ===================================================================================== *)
  (* phase0.ValidateVoluntaryExit(spec, epc, state, exit) = nil *)
  Definition exit_valid (h : entry) (m : voluntary_exit) : bool :=
    let cur := epc_epoch b h in
    if negb (ex_index m <? validator_count b h) then false else
    match validator b h (ex_index m) with
    | None => false
    | Some v =>
      if negb (is_active v cur) then false else
      if negb (v_exit v =? FAR_FUTURE_EPOCH) then false else
      if cur <? ex_epoch m then false else
      if cur <? add64 (v_activation v) (SHARD_COMMITTEE_PERIOD c) then false else
      match pubkey_of b h (ex_index m) with
      | None => false
      | Some pk =>
        let sr := signing_root (ex_htr m) (state_domain b h DVoluntaryExit (ex_epoch m)) in
        if negb (sig_ok b (ex_sig m)) then false else
        verify b pk sr (ex_sig m)
      end
    end.

  Definition validate_voluntary_exit (m : voluntary_exit) : result :=
    if seen_exit b (ex_index m) then (IGNORE, []) else
    match head_info b with
    | None => (IGNORE, [])
    | Some h =>
      if negb (exit_valid h m) then (REJECT, []) else
      (ACCEPT, [MkExit (ex_index m)])
    end.

  (* =====================================================================================
     proposer_slashing.go
     ===================================================================================== *)
  Definition header_eqb (x y : header) : bool :=
    (h_slot x =? h_slot y) && (h_proposer x =? h_proposer y) && (h_parent x =? h_parent y) &&
    (h_state x =? h_state y) && (h_body x =? h_body y).

  (* phase0.ValidateProposerSlashingNoSignature = nil *)
  Definition proposer_slashing_nosig (ps : proposer_slashing) : bool :=
    let h1 := sh_msg (ps_1 ps) in let h2 := sh_msg (ps_2 ps) in
    if negb (h_slot h1 =? h_slot h2) then false else
    if negb (h_proposer h1 =? h_proposer h2) then false else
    if header_eqb h1 h2 then false else true.

  (* phase0.ValidateProposerSlashing(spec, epc, state, ps) = nil *)
  Definition proposer_slashing_valid (h : entry) (ps : proposer_slashing) : bool :=
    let h1 := sh_msg (ps_1 ps) in let h2 := sh_msg (ps_2 ps) in
    let p := h_proposer h1 in
    if negb (proposer_slashing_nosig ps) then false else
    if negb (p <? validator_count b h) then false else
    match validator b h p with
    | None => false
    | Some v =>
      if negb (is_slashable v (epc_epoch b h)) then false else
      let dom := state_domain b h DBeaconProposer (slot_to_epoch c (h_slot h1)) in
      match pubkey_of b h p with
      | None => false
      | Some pk =>
        if negb (sig_ok b (sh_sig (ps_1 ps))) then false else
        if negb (sig_ok b (sh_sig (ps_2 ps))) then false else
        if negb (verify b pk (signing_root (h_htr h1) dom) (sh_sig (ps_1 ps))) then false else
        verify b pk (signing_root (h_htr h2) dom) (sh_sig (ps_2 ps))
      end
    end.

  Definition validate_proposer_slashing (ps : proposer_slashing) : result :=
    if negb (proposer_slashing_nosig ps) then (REJECT, []) else
    let p := h_proposer (sh_msg (ps_1 ps)) in
    if seen_proposer_slashing b p then (IGNORE, []) else
    match head_info b with
    | None => (IGNORE, [])
    | Some h =>
      if negb (proposer_slashing_valid h ps) then (REJECT, []) else
      (ACCEPT, [MkProposerSlashing p])
    end.

  (* =====================================================================================
     indexed attestations (phase0/indexed.go), attester_slashing.go
     ===================================================================================== *)
  Definition checkpoint_eqb (x y : checkpoint) : bool := (cp_epoch x =? cp_epoch y) && (cp_root x =? cp_root y).
  Definition att_data_eqb (x y : att_data) : bool :=
    (ad_slot x =? ad_slot y) && (ad_index x =? ad_index y) && (ad_bbr x =? ad_bbr y) &&
    checkpoint_eqb (ad_source x) (ad_source y) && checkpoint_eqb (ad_target x) (ad_target y).
  Definition is_double_vote (x y : att_data) : bool :=
    negb (att_data_eqb x y) && (cp_epoch (ad_target x) =? cp_epoch (ad_target y)).
  Definition is_surround_vote (x y : att_data) : bool :=
    (cp_epoch (ad_source x) <? cp_epoch (ad_source y)) && (cp_epoch (ad_target y) <? cp_epoch (ad_target x)).
  Definition is_slashable_attestation_data (x y : att_data) : bool := is_surround_vote x y || is_double_vote x y.

  (* sort.IsSorted on ValidatorSet: no element smaller than its predecessor *)
  Fixpoint go_is_sorted (l : list N) : bool :=
    match l with
    | x :: ((y :: _) as t) => negb (y <? x) && go_is_sorted t
    | _ => true
    end.
  Fixpoint go_adjacent_distinct (l : list N) : bool :=
    match l with
    | x :: ((y :: _) as t) => negb (x =? y) && go_adjacent_distinct t
    | _ => true
    end.
  (* phase0.ValidateIndexedAttestationIndicesSet = (indices, nil) *)
  Definition indices_set_ok (l : list N) : bool :=
    if MAX_VALIDATORS_PER_COMMITTEE c <? lenN l then false else
    if lenN l =? 0 then false else
    if negb (go_is_sorted l) then false else
    go_adjacent_distinct l.

  (* ValidatorSet.ZigZagJoin(target, onIn, nil): the indices reported "in" (marker = 2^64-1 past either end) *)
  Fixpoint zigzag_in (xs : list N) {struct xs} : list N -> list N :=
    match xs with
    | [] => fun _ => []
    | x :: xs' =>
      fix inner (ys : list N) {struct ys} : list N :=
        match ys with
        | [] => if x =? max64 then x :: zigzag_in xs' [] else zigzag_in xs' []
        | y :: ys' =>
          if x =? y then x :: zigzag_in xs' ys'
          else if x <? y then zigzag_in xs' ys
          else inner ys'
        end
    end.

  (* ValidatorSet.Filter(retain IsSlashable): None = an error (validator lookup failed) *)
  Fixpoint filter_slashable (h : entry) (l : list N) : option (list N) :=
    match l with
    | [] => Some []
    | i :: t =>
      match validator b h i with
      | None => None
      | Some v =>
        match filter_slashable h t with
        | None => None
        | Some r => Some (if is_slashable v (epc_epoch b h) then i :: r else r)
        end
      end
    end.

  Fixpoint pubkeys_of (h : entry) (l : list N) : option (list pubkey) :=
    match l with
    | [] => Some []
    | i :: t =>
      match pubkey_of b h i with
      | None => None
      | Some pk => match pubkeys_of h t with None => None | Some r => Some (pk :: r) end
      end
    end.

  Definition last_index (l : list N) : N := last l 0.

  (* phase0.ValidateIndexedAttestation(spec, epc, state, ia) = nil *)
  Definition indexed_att_valid (h : entry) (ia : indexed_att) : bool :=
    if negb (indices_set_ok (ia_indices ia)) then false else
    if negb (last_index (ia_indices ia) <? validator_count b h) then false else
    let dom := state_domain b h DBeaconAttester (cp_epoch (ad_target (ia_data ia))) in
    match pubkeys_of h (ia_indices ia) with
    | None => false
    | Some pks =>
      if lenN pks =? 0 then false else
      if negb (sig_ok b (ia_sig ia)) then false else
      eth2_fast_aggregate_verify pks (signing_root (ad_htr (ia_data ia)) dom) (ia_sig ia)
    end.

  Definition validate_attester_slashing (sl : attester_slashing) : result :=
    let sa1 := as_1 sl in let sa2 := as_2 sl in
    if negb (is_slashable_attestation_data (ia_data sa1) (ia_data sa2)) then (REJECT, []) else
    if negb (indices_set_ok (ia_indices sa1)) then (REJECT, []) else
    if negb (indices_set_ok (ia_indices sa2)) then (REJECT, []) else
    let slashable := zigzag_in (ia_indices sa1) (ia_indices sa2) in
    if attester_slashable_all_seen b slashable then (IGNORE, []) else
    match head_info b with
    | None => (IGNORE, [])
    | Some h =>
      match filter_slashable h slashable with
      | None => (REJECT, [])
      | Some remaining =>
        if lenN remaining =? 0 then (REJECT, []) else
        if negb (indexed_att_valid h sa1) then (REJECT, []) else
        if negb (indexed_att_valid h sa2) then (REJECT, []) else
        (ACCEPT, [MkAttesterSlashings remaining])
      end
    end.

  (* =====================================================================================
     attestation.go
     ===================================================================================== *)
  (* phase0.ComputeSubnetForAttestation; None = error *)
  Definition compute_subnet (cps slot index : N) : option N :=
    let maxidx := mul64 cps (SLOTS_PER_EPOCH c) in
    if maxidx <=? index then None else
    let since := slot mod SLOTS_PER_EPOCH c in
    Some (add64 (mul64 cps since) index mod ATTESTATION_SUBNET_COUNT).

  (* AttestationBits.SingleParticipant(committee); None = error *)
  Fixpoint single_from (bits : list bool) (comm : list N) (found : option N) : option (option N) :=
    match bits, comm with
    | bt :: bits', v :: comm' =>
      if bt then match found with None => single_from bits' comm' (Some v) | Some _ => None end
      else single_from bits' comm' found
    | _, _ => Some found
    end.
  Definition single_participant (bits : list bool) (comm : list N) : option N :=
    if negb (lenN bits =? lenN comm) then None else
    match single_from bits comm None with
    | Some (Some v) => Some v
    | _ => None
    end.

  (* the checkpoint block of `blk` for the epoch starting at `tslot`, read from blk's own state history
     (repair C12-target-checkpoint): None = not available *)
  Definition checkpoint_block_of (blk : entry) (bbr : root) (tslot : N) : option root :=
    if entry_slot b blk <=? tslot then Some bbr else
    if negb (state_avail b blk) then None else block_root_at b blk tslot.

  (* shared by attestation and aggregate: the finalized-checkpoint block *)

  Definition finalized_checks (d : att_data) : step unit :=
    let fin := finalized b in
    if negb (ad_bbr d =? snd fin) then
      let '(unknown, ins) := in_subtree b (snd fin) (ad_bbr d) in
      if unknown then Stop (IGNORE, []) else
      if negb ins then Stop (IGNORE, []) else Go tt
    else if cp_epoch (ad_target d) <? fst fin then Stop (REJECT, []) else Go tt.

  Definition validate_attestation_v (vr : variant) (subnet : N) (att : attestation) : result :=
    let d := a_data att in
    match start_slot c (cp_epoch (ad_target d)) with
    | Ok target_slot =>
      if negb (span_ok (ad_slot d) ATTESTATION_PROPAGATION_SLOT_RANGE) then (IGNORE, []) else
      if negb (cp_epoch (ad_target d) =? slot_to_epoch c (ad_slot d)) then (REJECT, []) else
      if negb (count_true (a_bits att) =? 1) then (REJECT, []) else
      if is_bad_block b (ad_bbr d) then (REJECT, []) else
      match by_block b (ad_bbr d) with
      | None => (IGNORE, [])
      | Some block_ref =>
        if ad_slot d <? entry_slot b block_ref then (REJECT, []) else
        let '(unknown, ins) := in_subtree b (cp_root (ad_target d)) (ad_bbr d) in
        if unknown then (IGNORE, []) else
        if negb ins then (REJECT, []) else
        match (if exact_target vr
               then match checkpoint_block_of block_ref (ad_bbr d) target_slot with
                    | None => Stop (IGNORE, [])
                    | Some r => if r =? cp_root (ad_target d) then Go tt else Stop (REJECT, [])
                    end
               else Go tt) with
        | Stop r => r
        | Go _ =>
        match finalized_checks d with
        | Stop r => r
        | Go _ =>
          match towards b (cp_root (ad_target d)) target_slot with
          | None => (IGNORE, [])
          | Some target_ref =>
            if negb (epc_avail b target_ref) then (IGNORE, []) else
            match committee_count b target_ref (cp_epoch (ad_target d)) with
            | None => (PANIC, [])          (* GetCommitteeCountPerSlot indexes epochComms[0] before looking at err *)
            | Some cps =>
              if cps <=? ad_index d then (REJECT, []) else
              match compute_subnet cps (ad_slot d) (ad_index d) with
              | None => (REJECT, [])
              | Some assigned =>
                if negb (subnet =? assigned) then (REJECT, []) else
                match committee b target_ref (ad_slot d) (ad_index d) with
                | None => (REJECT, [])
                | Some comm =>
                  if negb (lenN (a_bits att) =? lenN comm) then (REJECT, []) else
                  match single_participant (a_bits att) comm with
                  | None => (REJECT, [])
                  | Some voter =>
                    if seen_attestation b (cp_epoch (ad_target d)) voter then (IGNORE, []) else
                    match pubkey_of b target_ref voter with
                    | None => (IGNORE, [])
                    | Some pk =>
                      match get_domain b DBeaconAttester (cp_epoch (ad_target d)) with
                      | None => (IGNORE, [])
                      | Some dom =>
                        if negb (sig_ok b (a_sig att)) then (REJECT, []) else
                        if negb (verify b pk (signing_root (ad_htr d) dom) (a_sig att)) then (REJECT, []) else
                        (ACCEPT, [MkAttestation (cp_epoch (ad_target d)) voter])
                      end
                    end
                  end
                end
              end
            end
          end
        end
        end
      end
    | _ => (REJECT, [])
    end.
  Definition validate_attestation := validate_attestation_v fixed.
  Definition validate_attestation_orig := validate_attestation_v orig.

  (* =====================================================================================
     aggregate_and_proof.go
     ===================================================================================== *)
  (* phase0.IsAggregator(spec, commSize, selectionProof) *)
  Definition is_aggregator (comm_size : N) (sel : sigv) : bool :=
    let m := comm_size / TARGET_AGGREGATORS_PER_COMMITTEE in
    let modulo := if m =? 0 then 1 else m in
    sel_hash b sel mod modulo =? 0.

  (* phase0.ValidateAggregateSelectionProof: Some valid / None = error *)
  Definition selection_proof_valid (e : entry) (slot index aggregator : N) (sel : sigv) : option bool :=
    if negb (aggregator <? validator_count b e) then Some false else
    match committee b e slot index with
    | None => Some false
    | Some comm =>
      if negb (memN aggregator comm) then Some false else
      if negb (is_aggregator (lenN comm) sel) then Some false else
      let dom := state_domain b e DSelectionProof (slot_to_epoch c slot) in
      let sr := signing_root_bytes (u64_htr_bytes slot) dom in
      match pubkey_of b e aggregator with
      | None => None
      | Some pk =>
        if negb (sig_ok b sel) then None else
        Some (verify b pk sr sel)
      end
    end.

  Definition take_prefix (p : option nat) (m : bytes) : bytes :=
    match p with None => m | Some n => firstn n m end.

  (* insertion sort (sort.Slice ascending) *)
  Fixpoint insert_sorted (x : N) (l : list N) : list N :=
    match l with
    | [] => [x]
    | y :: t => if x <=? y then x :: l else y :: insert_sorted x t
    end.
  Definition sort_indices (l : list N) : list N := fold_right insert_sorted [] l.

  Fixpoint select_bits (bits : list bool) (comm : list N) : list N :=
    match bits, comm with
    | bt :: bits', v :: comm' => if bt then v :: select_bits bits' comm' else select_bits bits' comm'
    | _, _ => []
    end.

  (* Attestation.ConvertToIndexed; None = error *)
  Definition convert_to_indexed (att : attestation) (comm : list N) : option indexed_att :=
    if negb (lenN comm =? lenN (a_bits att)) then None else
    Some {| ia_indices := sort_indices (select_bits (a_bits att) comm); ia_data := a_data att; ia_sig := a_sig att |}.

  Definition validate_aggregate_v (vr : variant) (sa : signed_aggregate) : result :=
    let m := sa_msg sa in
    let att := ap_aggregate m in
    let d := a_data att in
    if negb (span_ok (ad_slot d) ATTESTATION_PROPAGATION_SLOT_RANGE) then (IGNORE, []) else
    if negb (cp_epoch (ad_target d) =? slot_to_epoch c (ad_slot d)) then (REJECT, []) else
    if seen_aggregator b (cp_epoch (ad_target d)) (ap_aggregator m) then (IGNORE, []) else
    if seen_aggregate b (ap_agg_htr m) then (IGNORE, []) else
    if count_true (a_bits att) <? 1 then (REJECT, []) else
    if is_bad_block b (ad_bbr d) then (REJECT, []) else
    let start := start_slot_val c (cp_epoch (ad_target d)) in
    match (if agg_lmd_checks vr then
             match by_block b (ad_bbr d) with
             | None => Stop (IGNORE, [])
             | Some block_ref =>
               let '(unknown, ins) := in_subtree b (cp_root (ad_target d)) (ad_bbr d) in
               if unknown then Stop (IGNORE, []) else
               if negb ins then Stop (REJECT, []) else
               if exact_target vr
               then match checkpoint_block_of block_ref (ad_bbr d) start with
                    | None => Stop (IGNORE, [])
                    | Some r => if r =? cp_root (ad_target d) then Go tt else Stop (REJECT, [])
                    end
               else Go tt
             end
           else Go tt) with
    | Stop r => r
    | Go _ =>
    match finalized_checks d with
    | Stop r => r
    | Go _ =>
      match towards b (cp_root (ad_target d)) start with
      | None => (IGNORE, [])
      | Some e =>
        if negb (epc_avail b e) then (IGNORE, []) else
        if negb (state_avail b e) then (IGNORE, []) else
        match selection_proof_valid e (ad_slot d) (ad_index d) (ap_aggregator m) (ap_selection m) with
        | None => (IGNORE, [])
        | Some false => (REJECT, [])
        | Some true =>
          let dom := state_domain b e DAggregateAndProof (cp_epoch (ad_target d)) in
          let sr := signing_root (ap_htr m) dom in
          match pubkey_of b e (ap_aggregator m) with
          | None => (IGNORE, [])
          | Some pk =>
            if negb (sig_ok b (sa_sig sa)) then (REJECT, []) else
            if negb (verify b pk (take_prefix (agg_outer_sig_prefix vr) sr) (sa_sig sa)) then (REJECT, []) else
            match committee b e (ad_slot d) (ad_index d) with
            | None => (IGNORE, [])
            | Some comm =>
              match convert_to_indexed att comm with
              | None => (REJECT, [])
              | Some ia =>
                if negb (indexed_att_valid e ia) then (REJECT, []) else
                (ACCEPT, [MkAggregate (ap_agg_htr m); MkAggregator (cp_epoch (ad_target d)) (ap_aggregator m)])
              end
            end
          end
        end
      end
    end
    end.
  Definition validate_aggregate := validate_aggregate_v fixed.
  Definition validate_aggregate_orig := validate_aggregate_v orig.

  (* =====================================================================================
     beacon_block.go
     ===================================================================================== *)
  (* BeaconBlockEnvelope.VerifySignature(spec, gvr, block.ProposerIndex, pub) *)
  Definition block_signature_ok (blk : block_envelope) (pk : pubkey) : bool :=
    if negb (fork_digest_at b (b_slot blk) =? b_digest blk) then false else
    let sr := signing_root (b_root blk) (proposer_domain_at b (b_slot blk)) in
    if negb (sig_ok b (b_sig blk)) then false else
    verify b pk sr (b_sig blk).

  (* the expected proposer: Go (proposer) / Stop verdict *)
  Definition expected_proposer (blk : block_envelope) (parent_ref : entry) : step N :=
    let target_epoch := slot_to_epoch c (b_slot blk) in
    let parent_epoch := slot_to_epoch c (entry_slot b parent_ref) in
    if parent_epoch =? target_epoch then
      match proposer_at b parent_ref (b_slot blk) with
      | None => Stop (IGNORE, [])
      | Some p => Go p
      end
    else if target_epoch <? parent_epoch then Stop (REJECT, [])
    else
      match towards b (b_parent blk) (start_slot_val c target_epoch) with
      | None => Stop (IGNORE, [])
      | Some slot_ref =>
        if negb (epc_avail b slot_ref) then Stop (IGNORE, []) else
        match proposer_at b slot_ref (b_slot blk) with
        | None => Stop (IGNORE, [])
        | Some p => Go p
        end
      end.

  Definition validate_block_v (vr : variant) (blk : block_envelope) : result :=
    if slot_after b DISPARITY_MS <? b_slot blk then (IGNORE, []) else
    if seen_block b (b_slot blk) (b_proposer blk) then (IGNORE, []) else
    match by_block b (b_parent blk) with
    | None => (IGNORE, [])
    | Some parent_ref =>
      if b_slot blk <=? entry_slot b parent_ref then (IGNORE, []) else
      let fin := finalized b in
      if b_slot blk <=? start_slot_val c (fst fin) then (IGNORE, []) else
      let '(unknown, ins) := in_subtree b (snd fin) (b_parent blk) in
      if unknown then (IGNORE, []) else
      if negb ins then (REJECT, []) else
      if negb (epc_avail b parent_ref) then (IGNORE, []) else
      match pubkey_of b parent_ref (b_proposer blk) with
      | None => (IGNORE, [])
      | Some pk =>
        if negb (block_signature_ok blk pk) then (REJECT, []) else
        let early := if block_mark_early vr then [MkBlock (b_slot blk) (b_proposer blk)] else [] in
        match expected_proposer blk parent_ref with
        | Stop (v, _) => (v, early)
        | Go p =>
          if negb (p =? b_proposer blk) then (REJECT, early) else
          (ACCEPT, [MkBlock (b_slot blk) (b_proposer blk)])
        end
      end
    end.
  Definition validate_block := validate_block_v fixed.
  Definition validate_block_orig := validate_block_v orig.

  (* =====================================================================================
     sync_comm_subnet.go
     ===================================================================================== *)
  Definition subcommittee_size : N := SYNC_COMMITTEE_SIZE c / SYNC_COMMITTEE_SUBNET_COUNT.

  (* IndexedSyncCommittee.InSubnet(spec, valIndex, subnet) *)
  Fixpoint in_subnet_from (i : N) (indices : list N) (val subnet : N) : bool :=
    match indices with
    | [] => false
    | v :: t =>
      if (v =? val) && (i / subcommittee_size =? subnet) then true
      else in_subnet_from (i + 1) t val subnet
    end.
  Definition in_subnet (indices : list N) (val subnet : N) : bool := in_subnet_from 0 indices val subnet.

  (* SyncCommitteeMessage.VerifySignature(spec, epc, GetDomain) = nil *)
  Definition sync_message_sig_ok (e : entry) (m : sync_message) : bool :=
    match pubkey_of b e (sm_index m) with
    | None => false
    | Some pk =>
      match get_domain b DSyncCommittee (slot_to_epoch c (sm_slot m)) with
      | None => false
      | Some dom =>
        if negb (sig_ok b (sm_sig m)) then false else
        verify b pk (signing_root (sm_bbr m) dom) (sm_sig m)
      end
    end.

  Definition validate_sync_message_v (vr : variant) (subnet : N) (m : sync_message) : result :=
    if negb (span_ok (sm_slot m) (sync_span vr)) then (IGNORE, []) else
    match by_block_slot b (sm_bbr m) (sm_slot m) with
    | None => (IGNORE, [])
    | Some e =>
      if negb (epc_avail b e) then (IGNORE, []) else
      match sync_committee b e with
      | None => (PANIC, [])                     (* nil CurrentSyncCommittee (pre-altair context) *)
      | Some indices =>
        if negb (in_subnet indices (sm_index m) subnet) then (REJECT, []) else
        if seen_sync_msg b (sm_index m) (sm_slot m) subnet then (IGNORE, []) else
        if negb (sync_message_sig_ok e m) then (REJECT, []) else
        (ACCEPT, [MkSyncCommMsg (sm_index m) (sm_slot m) subnet])
      end
    end.
  Definition validate_sync_message := validate_sync_message_v fixed.
  Definition validate_sync_message_orig := validate_sync_message_v orig.

  (* =====================================================================================
     sync_contrib_and_proof.go
     ===================================================================================== *)
  (* altair.IsSyncCommitteeAggregator *)
  Definition is_sync_aggregator (sel : sigv) : bool :=
    let m := SYNC_COMMITTEE_SIZE c / SYNC_COMMITTEE_SUBNET_COUNT / TARGET_AGGREGATORS_PER_SYNC_SUBCOMMITTEE in
    let modulo := if m <? 1 then 1 else m in
    sel_hash b sel mod modulo =? 0.

  (* IndexedSyncCommittee.Subcommittee(spec, subnet): the indices slice *)
  Definition subcommittee (indices : list N) (sub : N) : list N :=
    firstN subcommittee_size (skipN (subcommittee_size * sub) indices).

  (* hash_tree_root(SyncAggregatorSelectionData{slot, subcommittee_index}) as bytes *)
  Definition sync_selection_data_htr (slot sub : N) : bytes := H b (u64_htr_bytes slot ++ u64_htr_bytes sub).

  Definition verify_by (e : entry) (idx : N) (dom : option N) (obj : bytes) (s : sigv) : bool :=
    match dom with
    | None => false
    | Some dm =>
      match pubkey_of b e idx with
      | None => false
      | Some pk => if negb (sig_ok b s) then false else verify b pk (signing_root_bytes obj dm) s
      end
    end.

  (* SyncCommitteeContribution.VerifySignature(spec, pubs, GetDomain) = nil *)
  Definition contribution_sig_ok (e : entry) (sub_indices : list N) (ct : contribution) : bool :=
    match pubkeys_of e (select_bits (c_bits ct) sub_indices) with
    | None => false
    | Some pks =>
      match get_domain b DSyncCommittee (slot_to_epoch c (c_slot ct)) with
      | None => false
      | Some dom =>
        if negb (sig_ok b (c_sig ct)) then false else
        eth2_fast_aggregate_verify pks (signing_root (c_bbr ct) dom) (c_sig ct)
      end
    end.

  Definition validate_contribution_v (vr : variant) (sc : signed_contribution) : result :=
    let m := sc_msg sc in
    let ct := cap_contribution m in
    if negb (span_ok (c_slot ct) (sync_span vr)) then (IGNORE, []) else
    if SYNC_COMMITTEE_SUBNET_COUNT <=? c_sub ct then (REJECT, []) else
    if subnet_bits_ones_count vr (c_bits ct) =? 0 then (REJECT, []) else
    if negb (is_sync_aggregator (cap_selection m)) then (REJECT, []) else
    match by_block_slot b (c_bbr ct) (c_slot ct) with
    | None => (IGNORE, [])
    | Some e =>
      if negb (epc_avail b e) then (IGNORE, []) else
      match sync_committee b e with
      | None => (PANIC, [])
      | Some indices =>
        let sub_indices := subcommittee indices (c_sub ct) in
        if negb (memN (cap_aggregator m) sub_indices) then (REJECT, []) else
        if seen_contribution b (cap_aggregator m) (c_slot ct) (c_sub ct) then (IGNORE, []) else
        let ep := slot_to_epoch c (c_slot ct) in
        if negb (verify_by e (cap_aggregator m) (get_domain b DSyncSelectionProof ep)
                   (sync_selection_data_htr (c_slot ct) (c_sub ct)) (cap_selection m)) then (REJECT, []) else
        if negb (verify_by e (cap_aggregator m) (get_domain b DContributionAndProof ep)
                   (root_bytes (cap_htr m)) (sc_sig sc)) then (REJECT, []) else
        if negb (contribution_sig_ok e sub_indices ct) then (REJECT, []) else
        (ACCEPT, [MkContribution (cap_aggregator m) (c_slot ct) (c_sub ct)])
      end
    end.
  Definition validate_contribution := validate_contribution_v fixed.
  Definition validate_contribution_orig := validate_contribution_v orig.

End WithBackend.
