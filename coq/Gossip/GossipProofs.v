(* C12 — proofs: for every backend and every message, the verdict of each topic validator (Impl model of the
   repaired code) against the p2p condition list (Spec):
     accept_complete        all conditions hold        -> ACCEPT
     accept_sound           ACCEPT                     -> all conditions hold
     timing_only_is_ignore  only [IGNORE] conditions fail -> IGNORE
     marks_only_on_accept   a Mark* call               -> ACCEPT
   The oracles (hash, BLS, clock, chain view) are arbitrary functions: no law is assumed of them.
   Numeric-range hypotheses (values are uint64, SLOTS_PER_EPOCH > 0, ...) are explicit. *)
From Coq Require Import NArith ZArith List Bool Lia.
From Coq Require Import ZifyN ZifyNat ZifyBool.
From V Require Import Base.U64 Base.Outcome Math.MathModel Math.MathProofs Gossip.GossipModel Gossip.GossipSpec.
Import ListNotations.
Local Open Scope N_scope.

(* ------------------------------------------------------------------------------------------------
   verdicts against condition lists
   ------------------------------------------------------------------------------------------------ *)
Definition no_reject_fails (cs : list cond) : bool := forallb (fun c => c_ok c || is_ignore (c_tag c)) cs.

Lemma only_ignore_eq cs : only_ignore_conditions_fail cs = negb (all_conditions cs) && no_reject_fails cs.
Proof.
  unfold only_ignore_conditions_fail, some_condition_fails, all_conditions, no_reject_fails.
  f_equal. induction cs as [|c cs IH]; cbn; [reflexivity|]. rewrite IH. destruct (c_ok c); reflexivity.
Qed.

Lemma no_reject_false_all_false cs : no_reject_fails cs = false -> all_conditions cs = false.
Proof.
  unfold no_reject_fails, all_conditions. induction cs as [|c cs IH]; cbn; [discriminate|].
  destruct (c_ok c); cbn; [exact IH | reflexivity].
Qed.

(* what a (verdict, marks) result must satisfy *)
Definition verdict_ok (r : result) (cs : list cond) : Prop :=
  match fst r with
  | ACCEPT => all_conditions cs = true
  | IGNORE => all_conditions cs = false /\ snd r = []
  | REJECT | PANIC => no_reject_fails cs = false /\ snd r = []
  end.

Record verdict_laws (r : result) (cs : list cond) : Prop := {
  vl_complete : all_conditions cs = true -> fst r = ACCEPT;
  vl_sound : fst r = ACCEPT -> all_conditions cs = true;
  vl_timing : only_ignore_conditions_fail cs = true -> fst r = IGNORE;
  vl_marks : snd r <> [] -> fst r = ACCEPT
}.

Lemma verdict_ok_laws r cs : verdict_ok r cs -> verdict_laws r cs.
Proof.
  unfold verdict_ok. intros H. split.
  - intros A. destruct (fst r); try reflexivity.
    + destruct H as [H _]. congruence.
    + destruct H as [H _]. apply no_reject_false_all_false in H. congruence.
    + destruct H as [H _]. apply no_reject_false_all_false in H. congruence.
  - intros E. rewrite E in H. exact H.
  - rewrite only_ignore_eq. intros T. apply andb_prop in T. destruct T as [T1 T2].
    destruct (fst r); try reflexivity.
    + rewrite H in T1. discriminate.
    + destruct H as [H _]. congruence.
    + destruct H as [H _]. congruence.
  - intros M. destruct (fst r); try reflexivity; destruct H as [_ H]; congruence.
Qed.

(* ------------------------------------------------------------------------------------------------
   tactics
   ------------------------------------------------------------------------------------------------ *)
Ltac case_on t := let E := fresh "E" in destruct t eqn:E; rewrite ?E in *.

(* evaluate the two summaries of an explicit condition list *)
Ltac eval_conds :=
  cbn [all_conditions no_reject_fails forallb c_ok c_tag c_name c_origin mk is_ignore on is_some
       fst snd negb andb orb app].

Ltac rw_known :=
  repeat match goal with
         | H : ?x = true |- context [?x] => rewrite H
         | H : ?x = false |- context [?x] => rewrite H
         | H : ?x = Some _ |- context [?x] => rewrite H
         | H : ?x = None |- context [?x] => rewrite H
         end.

Ltac bool_simp :=
  repeat (rewrite ?andb_true_r, ?andb_true_l, ?andb_false_r, ?andb_false_l, ?orb_true_r, ?orb_true_l,
                  ?orb_false_r, ?orb_false_l, ?negb_involutive in *; cbn [negb andb orb] in * ).

Ltac fin := eval_conds; rw_known; eval_conds; bool_simp; auto.
Ltac step t := eval_conds; case_on t; eval_conds.

(* ------------------------------------------------------------------------------------------------
   the engine for long check sequences
   ------------------------------------------------------------------------------------------------ *)
Fixpoint ok_at (k : nat) (cs : list cond) : bool :=
  match cs, k with
  | [], _ => true
  | x :: _, O => c_ok x
  | _ :: t, S k' => ok_at k' t
  end.
Fixpoint rej_at (k : nat) (cs : list cond) : bool :=
  match cs, k with
  | [], _ => true
  | x :: _, O => c_ok x || is_ignore (c_tag x)
  | _ :: t, S k' => rej_at k' t
  end.
Lemma ok_at_false k cs : ok_at k cs = false -> all_conditions cs = false.
Proof.
  unfold all_conditions. revert k. induction cs as [|x cs IH]; intros k; [destruct k; discriminate|].
  destruct k as [|k]; cbn.
  - intros ->. reflexivity.
  - intros H. rewrite (IH k H). apply andb_false_r.
Qed.
Lemma rej_at_false k cs : rej_at k cs = false -> no_reject_fails cs = false.
Proof.
  unfold no_reject_fails. revert k. induction cs as [|x cs IH]; intros k; [destruct k; discriminate|].
  destruct k as [|k]; cbn.
  - intros ->. reflexivity.
  - intros H. rewrite (IH k H). apply andb_false_r.
Qed.

Ltac arith_known :=
  repeat match goal with
         | |- context [?x <=? ?y] => first [replace (x <=? y) with true by lia | replace (x <=? y) with false by lia]
         | |- context [?x <? ?y] => first [replace (x <? y) with true by lia | replace (x <? y) with false by lia]
         | |- context [?x =? ?y] => first [replace (x =? y) with true by lia | replace (x =? y) with false by lia]
         end.
Ltac rw_pairs := repeat match goal with H : ?x = (_, _) |- context [?x] => rewrite H end.
(* goal-directed: rewrite the terms evaluation is blocked on, when a hypothesis decides them *)
Ltac use_hyp x := lazymatch goal with H : x = _ |- _ => rewrite H end.
Ltac rw_goal :=
  repeat match goal with
         | |- context [match ?x with _ => _ end] => use_hyp x
         | |- context [andb ?x _] => use_hyp x
         | |- context [andb _ ?x] => use_hyp x
         | |- context [orb ?x _] => use_hyp x
         | |- context [negb ?x] => use_hyp x
         | |- context [is_some ?x] => use_hyp x
         | |- context [on ?x _] => use_hyp x
         | |- context [fst ?x] => use_hyp x
         | |- context [snd ?x] => use_hyp x
         | |- ?x = _ => use_hyp x
         end.
Ltac bsimp := cbn [negb andb orb]; rewrite ?andb_true_r, ?andb_false_r, ?orb_true_r, ?orb_false_r.
Ltac crunch1 := eval_conds; rw_goal; bsimp.
Ltac crunch := repeat (progress crunch1); arith_known; repeat (progress crunch1).

(* exhibit a failing condition: `sel` reduces `ok_at k <list>` to the k-th condition, `unf` unfolds the spec helpers *)
Ltac cheap := repeat (progress crunch1); reflexivity.
Ltac costly := repeat (progress crunch1);
  lazymatch goal with
  | |- true = false => fail
  | _ => arith_known; repeat (progress crunch1); reflexivity
  end.
(* last resort: case-split on what evaluation is still blocked on; every branch must come out false *)
Ltac splitty :=
  repeat (progress crunch1);
  first [ reflexivity
        | lazymatch goal with
          | |- true = false => fail
          | |- context [match ?x with _ => _ end] => destruct x; splitty
          end ].
Ltac try_at f lem k sel unf := apply (lem k); sel; unf; f.
Ltac falsify_with f lem sel unf :=
  first [ try_at f lem 0%nat sel unf | try_at f lem 1%nat sel unf | try_at f lem 2%nat sel unf | try_at f lem 3%nat sel unf
        | try_at f lem 4%nat sel unf | try_at f lem 5%nat sel unf | try_at f lem 6%nat sel unf | try_at f lem 7%nat sel unf
        | try_at f lem 8%nat sel unf | try_at f lem 9%nat sel unf | try_at f lem 10%nat sel unf | try_at f lem 11%nat sel unf
        | try_at f lem 12%nat sel unf | try_at f lem 13%nat sel unf | try_at f lem 14%nat sel unf | try_at f lem 15%nat sel unf
        | try_at f lem 16%nat sel unf | try_at f lem 17%nat sel unf | try_at f lem 18%nat sel unf | try_at f lem 19%nat sel unf
        | try_at f lem 20%nat sel unf | try_at f lem 21%nat sel unf | try_at f lem 22%nat sel unf | try_at f lem 23%nat sel unf
        | try_at f lem 24%nat sel unf | try_at f lem 25%nat sel unf | try_at f lem 26%nat sel unf | try_at f lem 27%nat sel unf ].
(* first the conditions that mention the term just decided, then all of them, then with arithmetic *)
Ltac falsify key lem sel unf :=
  first [ falsify_with ltac:(lazymatch goal with |- context [key] => cheap end) lem sel unf
        | falsify_with cheap lem sel unf
        | falsify_with costly lem sel unf
        | falsify_with splitty lem sel unf ].
Ltac is_leaf := lazymatch goal with |- match fst (_, _) with ACCEPT => _ | _ => _ end => idtac end.
Ltac unlocal := repeat match goal with x := _ |- _ => subst x end.
(* the scrutinee the sequential program is waiting for *)
Ltac head_of t :=
  lazymatch t with
  | match ?u with _ => _ end => head_of u
  | negb ?u => head_of u
  | _ => t
  end.
(* one step of a check sequence: `pre` = topic-specific preparation, `lf` = leaf solver *)
Ltac seq_step pre lf :=
  lazymatch goal with
  | |- match fst ?r with ACCEPT => _ | _ => _ end =>
    pre;
    lazymatch goal with
    | |- match fst ?r with ACCEPT => _ | _ => _ end =>
      let t := head_of r in
      (tryif is_var t then destruct t else case_on t);
      cbn [negb];
      tryif is_leaf then (unlocal; lf t) else idtac
    end
  end.

Ltac accept_leaf sel unf :=
  lazymatch goal with
  | |- all_conditions _ = true => sel; unf; crunch; reflexivity
  end.
Ltac leaf key sel unf :=
  cbn [negb fst snd];
  lazymatch goal with
  | |- all_conditions _ = false /\ _ = [] => split; [falsify key ok_at_false sel unf | reflexivity]
  | |- no_reject_fails _ = false /\ _ = [] => split; [falsify key rej_at_false sel unf | reflexivity]
  | |- all_conditions _ = true => accept_leaf sel unf
  end.


(* ------------------------------------------------------------------------------------------------
   numeric-range hypotheses
   ------------------------------------------------------------------------------------------------ *)
Definition cfg_wf (c : config) : Prop :=
  0 < SLOTS_PER_EPOCH c /\ SLOTS_PER_EPOCH c < two64.

Section Proofs.
  Variable b : backend.
  Local Notation c := (cfg b).

  (* ============================================================================================
     voluntary_exit
     ============================================================================================ *)
  (* the head's current epoch leaves room for SHARD_COMMITTEE_PERIOD (uint64 addition does not wrap) *)
  Definition exit_bounds : Prop :=
    forall h, head_info b = Some h -> epc_epoch b h + SHARD_COMMITTEE_PERIOD c < two64.

  Lemma exit_valid_spec h m :
    epc_epoch b h + SHARD_COMMITTEE_PERIOD c < two64 ->
    exit_valid b h m = process_voluntary_exit_ok b h m.
  Proof.
    intros Hb. unfold exit_valid, process_voluntary_exit_ok, is_active, is_active_validator, signing_root, compute_signing_root.
    destruct (ex_index m <? validator_count b h); cbn [negb andb]; [|reflexivity].
    destruct (validator b h (ex_index m)) as [v|]; [|reflexivity].
    destruct (v_activation v <=? epc_epoch b h) eqn:Ea; cbn [negb andb]; [|reflexivity].
    destruct (epc_epoch b h <? v_exit v); cbn [negb andb]; [|reflexivity].
    destruct (v_exit v =? FAR_FUTURE_EPOCH); cbn [negb andb]; [|reflexivity].
    assert (Hadd : add64 (v_activation v) (SHARD_COMMITTEE_PERIOD c) = v_activation v + SHARD_COMMITTEE_PERIOD c).
    { unfold add64. apply wrap64_small. lia. }
    rewrite Hadd.
    rewrite (N.ltb_antisym (ex_epoch m) (epc_epoch b h)).
    rewrite (N.ltb_antisym (v_activation v + SHARD_COMMITTEE_PERIOD c) (epc_epoch b h)).
    destruct (ex_epoch m <=? epc_epoch b h); cbn [negb andb]; [|reflexivity].
    destruct (v_activation v + SHARD_COMMITTEE_PERIOD c <=? epc_epoch b h); cbn [negb andb]; [|reflexivity].
    destruct (pubkey_of b h (ex_index m)); [|reflexivity].
    destruct (sig_ok b (ex_sig m)); reflexivity.
  Qed.

  Lemma exit_verdict_ok m : exit_bounds -> verdict_ok (validate_voluntary_exit b m) (voluntary_exit_conditions b m).
  Proof.
    intros Hb. unfold validate_voluntary_exit, voluntary_exit_conditions, verdict_ok.
    step (seen_exit b (ex_index m)); [fin|].
    step (head_info b); [|fin].
    rewrite (exit_valid_spec e m (Hb e E0)).
    step (process_voluntary_exit_ok b e m); fin.
  Qed.

  Theorem exit_laws m : exit_bounds -> verdict_laws (validate_voluntary_exit b m) (voluntary_exit_conditions b m).
  Proof. intros H. apply verdict_ok_laws, exit_verdict_ok, H. Qed.

  (* ============================================================================================
     proposer_slashing
     ============================================================================================ *)
  Lemma proposer_slashing_nosig_spec ps : proposer_slashing_nosig ps = proposer_slashing_static ps.
  Proof.
    unfold proposer_slashing_nosig, proposer_slashing_static, header_differs, header_eqb.
    destruct (h_slot (sh_msg (ps_1 ps)) =? h_slot (sh_msg (ps_2 ps))); cbn [negb andb]; [|reflexivity].
    destruct (h_proposer (sh_msg (ps_1 ps)) =? h_proposer (sh_msg (ps_2 ps))); cbn [negb andb]; [|reflexivity].
    destruct (h_parent (sh_msg (ps_1 ps)) =? h_parent (sh_msg (ps_2 ps))); cbn [negb andb]; [|reflexivity].
    destruct (h_state (sh_msg (ps_1 ps)) =? h_state (sh_msg (ps_2 ps))); cbn [negb andb]; [|reflexivity].
    destruct (h_body (sh_msg (ps_1 ps)) =? h_body (sh_msg (ps_2 ps))); reflexivity.
  Qed.

  Lemma proposer_slashing_valid_spec h ps :
    proposer_slashing_valid b h ps = proposer_slashing_static ps && proposer_slashing_dynamic b h ps.
  Proof.
    unfold proposer_slashing_valid. rewrite proposer_slashing_nosig_spec.
    destruct (proposer_slashing_static ps) eqn:Es; cbn [negb andb]; [|reflexivity].
    unfold proposer_slashing_dynamic, header_signature_ok, is_slashable, is_slashable_validator,
      signing_root, compute_signing_root, slot_to_epoch, compute_epoch_at_slot.
    assert (Hs : h_slot (sh_msg (ps_2 ps)) = h_slot (sh_msg (ps_1 ps))).
    { unfold proposer_slashing_static in Es. apply andb_prop in Es. destruct Es as [Es _].
      apply andb_prop in Es. destruct Es as [Es _]. apply N.eqb_eq in Es. congruence. }
    rewrite Hs.
    destruct (h_proposer (sh_msg (ps_1 ps)) <? validator_count b h); cbn [negb andb]; [|reflexivity].
    destruct (validator b h (h_proposer (sh_msg (ps_1 ps)))) as [v|]; [|reflexivity].
    destruct (pubkey_of b h (h_proposer (sh_msg (ps_1 ps)))) as [pk|].
    2:{ destruct (negb (v_slashed v) && (v_activation v <=? epc_epoch b h) && (epc_epoch b h <? v_withdrawable v)); reflexivity. }
    destruct (negb (v_slashed v) && (v_activation v <=? epc_epoch b h) && (epc_epoch b h <? v_withdrawable v)); cbn [negb andb]; [|reflexivity].
    destruct (sig_ok b (sh_sig (ps_1 ps))); cbn [negb andb]; [|reflexivity].
    destruct (sig_ok b (sh_sig (ps_2 ps))); cbn [negb andb].
    2:{ rewrite andb_false_r. reflexivity. }
    destruct (verify b pk _ (sh_sig (ps_1 ps))); cbn [negb andb]; reflexivity.
  Qed.

  Lemma proposer_slashing_verdict_ok ps :
    verdict_ok (validate_proposer_slashing b ps) (proposer_slashing_conditions b ps).
  Proof.
    unfold validate_proposer_slashing, proposer_slashing_conditions, verdict_ok.
    rewrite proposer_slashing_nosig_spec.
    step (proposer_slashing_static ps); [|fin].
    step (seen_proposer_slashing b (h_proposer (sh_msg (ps_1 ps)))).
    { step (head_info b); fin. }
    step (head_info b); [|fin].
    rewrite proposer_slashing_valid_spec. rewrite E.
    step (proposer_slashing_dynamic b e ps); fin.
  Qed.

  Theorem proposer_slashing_laws ps :
    verdict_laws (validate_proposer_slashing b ps) (proposer_slashing_conditions b ps).
  Proof. apply verdict_ok_laws, proposer_slashing_verdict_ok. Qed.

  (* ============================================================================================
     shared helpers of the attestation topics
     ============================================================================================ *)
  Lemma start_slot_spec e : cfg_wf c -> e < two64 ->
    start_slot c e = match compute_start_slot_at_epoch b e with Some s => Ok s | None => Err end.
  Proof.
    intros [H0 H1] He. unfold start_slot, compute_start_slot_at_epoch.
    rewrite (epoch_start_slot_exact _ H0 e He H1). unfold epoch_start_slot_spec.
    destruct (e * SLOTS_PER_EPOCH c <? two64); reflexivity.
  Qed.

  Lemma start_slot_val_spec e : cfg_wf c -> e < two64 ->
    start_slot_val c e = match compute_start_slot_at_epoch b e with Some s => s | None => 0 end.
  Proof.
    intros Hc He. unfold start_slot_val. rewrite (start_slot_spec e Hc He).
    destruct (compute_start_slot_at_epoch b e); reflexivity.
  Qed.

  Lemma span_ok_spec slot : slot < two64 ->
    span_ok b slot ATTESTATION_PROPAGATION_SLOT_RANGE = within_propagation_range b slot.
  Proof.
    intros Hs. unfold span_ok, within_propagation_range, earliest_slot, latest_slot.
    rewrite check_slot_span_iff by (auto; reflexivity). reflexivity.
  Qed.

  Lemma select_bits_spec bits comm : select_bits bits comm = attesting_indices bits comm.
  Proof.
    unfold attesting_indices. revert comm. induction bits as [|bt bits IH]; intros comm; [reflexivity|].
    destruct comm as [|v comm]; [reflexivity|]. cbn. destruct bt; cbn; rewrite IH; reflexivity.
  Qed.

  Lemma single_from_spec bits comm found :
    single_from bits comm found =
    match (match found with Some v => [v] | None => [] end) ++ attesting_indices bits comm with
    | [] => Some None
    | [v] => Some (Some v)
    | _ => None
    end.
  Proof.
    rewrite <- select_bits_spec. revert comm found. induction bits as [|bt bits IH]; intros comm found.
    - cbn. destruct found; reflexivity.
    - destruct comm as [|v comm]; [cbn; destruct found; reflexivity|].
      cbn [single_from select_bits]. destruct bt.
      + destruct found as [w|].
        * cbn. destruct (select_bits bits comm); reflexivity.
        * rewrite IH. reflexivity.
      + apply IH.
  Qed.

  Lemma single_participant_spec att comm :
    single_participant (a_bits att) comm = if lenN (a_bits att) =? lenN comm then the_voter att comm else None.
  Proof.
    unfold single_participant, the_voter. destruct (lenN (a_bits att) =? lenN comm); cbn [negb]; [|reflexivity].
    rewrite single_from_spec. cbn [app].
    destruct (attesting_indices (a_bits att) comm) as [|v [|w l]]; reflexivity.
  Qed.

  Lemma attesting_count bits comm : length bits = length comm ->
    length (attesting_indices bits comm) = length (filter (fun x => x) bits).
  Proof.
    unfold attesting_indices. revert comm. induction bits as [|bt bits IH]; intros comm Hl; [reflexivity|].
    destruct comm as [|v comm]; [discriminate|]. cbn. injection Hl as Hl. destruct bt; cbn; rewrite IH; auto.
  Qed.

  Lemma one_bit_voter att comm :
    count_true (a_bits att) = 1 -> lenN (a_bits att) = lenN comm -> exists v, the_voter att comm = Some v.
  Proof.
    unfold count_true, lenN, the_voter. intros H1 Hl.
    assert (Hl' : length (a_bits att) = length comm) by lia.
    pose proof (attesting_count _ _ Hl') as Hc.
    destruct (attesting_indices (a_bits att) comm) as [|v [|w l]]; cbn in Hc.
    - lia.
    - eexists; reflexivity.
    - lia.
  Qed.

  Lemma compute_subnet_spec cps slot index : cfg_wf c -> cps * SLOTS_PER_EPOCH c < two64 -> index < cps ->
    compute_subnet b cps slot index = compute_subnet_for_attestation b cps slot index.
  Proof.
    intros [H0 H1] Hc Hi. unfold compute_subnet, compute_subnet_for_attestation, mul64, add64.
    assert (Hm : slot mod SLOTS_PER_EPOCH c < SLOTS_PER_EPOCH c) by (apply N.mod_lt; lia).
    assert (Hx : cps * (slot mod SLOTS_PER_EPOCH c) + index < cps * SLOTS_PER_EPOCH c) by nia.
    rewrite (wrap64_small (cps * SLOTS_PER_EPOCH c)) by lia.
    rewrite (wrap64_small (cps * (slot mod SLOTS_PER_EPOCH c))) by nia.
    rewrite (wrap64_small (cps * (slot mod SLOTS_PER_EPOCH c) + index)) by lia.
    replace (cps * SLOTS_PER_EPOCH c <=? index) with false by nia.
    replace (cps * SLOTS_PER_EPOCH c <? two64) with true by lia.
    replace (cps * (slot mod SLOTS_PER_EPOCH c) + index <? two64) with true by lia.
    reflexivity.
  Qed.

  Definition att_wf (d : att_data) : Prop := ad_slot d < two64 /\ cp_epoch (ad_target d) < two64.
  Definition counts_wf : Prop := forall e ep n, committee_count b e ep = Some n -> n * SLOTS_PER_EPOCH c < two64.

  Lemma start_overflow_epoch_mismatch e s : cfg_wf c -> s < two64 ->
    compute_start_slot_at_epoch b e = None -> (e =? compute_epoch_at_slot b s) = false.
  Proof.
    intros [H0 H1] Hs. unfold compute_start_slot_at_epoch, compute_epoch_at_slot.
    destruct (e * SLOTS_PER_EPOCH c <? two64) eqn:E; [discriminate|]. intros _.
    apply N.eqb_neq. intros ->. apply N.ltb_ge in E.
    pose proof (N.mul_div_le s (SLOTS_PER_EPOCH c)). lia.
  Qed.


  (* ============================================================================================
     beacon_attestation_{subnet_id}
     ============================================================================================ *)
  Ltac att_sel := lazy [ok_at rej_at all_conditions no_reject_fails forallb attestation_conditions lmd_conditions app c_ok c_tag mk is_ignore].
  Ltac att_unf :=
    unfold when_known, target_state, get_checkpoint_block, lmd_known, target_is_ancestor,
      target_ancestry_known, finalized_is_ancestor, finalized_ancestry_known, attestation_signature_ok, compute_signing_root.
  Ltac att_pre :=
    try (rewrite compute_subnet_spec by
           first [assumption | lia | match goal with H : counts_wf |- _ => eapply H; eassumption end]);
    try (rewrite single_participant_spec; rw_known);
    try match goal with
        | |- context [the_voter ?a ?cm] =>
          let v := fresh "voter" in let Hv := fresh "Hv" in
          destruct (one_bit_voter a cm) as [v Hv]; [lia | lia | rewrite Hv]
        end.
  Ltac att_step := seq_step att_pre ltac:(fun t => leaf t att_sel att_unf).

  Lemma attestation_verdict_ok subnet att : cfg_wf c -> att_wf (a_data att) -> counts_wf ->
    verdict_ok (validate_attestation b subnet att) (attestation_conditions b subnet att).
  Proof.
    intros Hc [Hs He] Hn.
    unfold validate_attestation, validate_attestation_v, verdict_ok.
    cbn [exact_target fixed].
    rewrite (start_slot_spec _ Hc He), (span_ok_spec _ Hs).
    unfold checkpoint_block_of, finalized_checks, signing_root, slot_to_epoch.
    change (ad_slot (a_data att) / SLOTS_PER_EPOCH c) with (compute_epoch_at_slot b (ad_slot (a_data att))).
    case_on (compute_start_slot_at_epoch b (cp_epoch (ad_target (a_data att)))).
    2:{ pose proof (start_overflow_epoch_mismatch _ (ad_slot (a_data att)) Hc Hs E) as Hm. unlocal. leaf tt att_sel att_unf. }
    rename n into ts.
    repeat att_step.
  Qed.

  Theorem attestation_laws subnet att : cfg_wf c -> att_wf (a_data att) -> counts_wf ->
    verdict_laws (validate_attestation b subnet att) (attestation_conditions b subnet att).
  Proof. intros. apply verdict_ok_laws, attestation_verdict_ok; assumption. Qed.

  (* ============================================================================================
     beacon_aggregate_and_proof
     ============================================================================================ *)
  (* ---------- indexed attestations ---------- *)
  Lemma go_sorted_distinct l : go_is_sorted l && go_adjacent_distinct l = strictly_increasing l.
  Proof.
    induction l as [|x [|y t] IH]; [reflexivity | reflexivity |].
    cbn [go_is_sorted go_adjacent_distinct strictly_increasing] in *.
    rewrite <- IH. destruct (go_is_sorted (y :: t)), (go_adjacent_distinct (y :: t));
      rewrite ?andb_true_r, ?andb_false_r; cbn [andb]; try reflexivity; try lia.
    all: destruct (y <? x) eqn:A, (x =? y) eqn:B, (x <? y) eqn:C; cbn; try reflexivity; lia.
  Qed.

  Lemma strictly_increasing_bound l n : strictly_increasing l = true -> last l 0 < n -> l <> [] ->
    Forall (fun i => i < n) l.
  Proof.
    induction l as [|x [|y t] IH]; intros Hs Hl Hne.
    - congruence.
    - constructor; [exact Hl | constructor].
    - cbn [strictly_increasing] in Hs. apply andb_prop in Hs. destruct Hs as [Hxy Hs].
      assert (Hf : Forall (fun i => i < n) (y :: t)) by (apply IH; [exact Hs | exact Hl | discriminate]).
      constructor; [|exact Hf]. inversion Hf; subst. lia.
  Qed.

  Lemma pubkeys_of_bounded h l n : Forall (fun i => i < n) l -> n = validator_count b h ->
    validator_pubkeys b h l = pubkeys_of b h l.
  Proof.
    intros Hf ->. induction Hf as [|x l Hx Hf IH]; [reflexivity|].
    cbn [validator_pubkeys pubkeys_of]. replace (x <? validator_count b h) with true by lia.
    rewrite IH. destruct (pubkey_of b h x); [|reflexivity]. destruct (pubkeys_of b h l); reflexivity.
  Qed.

  Lemma validator_pubkeys_some h l pks : validator_pubkeys b h l = Some pks ->
    Forall (fun i => i < validator_count b h) l /\ length pks = length l.
  Proof.
    revert pks. induction l as [|x l IH]; intros pks H.
    - injection H as <-. split; [constructor | reflexivity].
    - cbn [validator_pubkeys] in H. destruct (x <? validator_count b h) eqn:Hx; [|discriminate].
      destruct (pubkey_of b h x); [|discriminate]. destruct (validator_pubkeys b h l) as [r|] eqn:Hr; [|discriminate].
      injection H as <-. destruct (IH r eq_refl) as [Hf Hl]. split; [constructor; [lia | exact Hf] | cbn; lia].
  Qed.

  Lemma pubkeys_of_length h l pks : pubkeys_of b h l = Some pks -> length pks = length l.
  Proof.
    revert pks. induction l as [|x l IH]; intros pks H.
    - injection H as <-. reflexivity.
    - cbn [pubkeys_of] in H. destruct (pubkey_of b h x); [|discriminate]. destruct (pubkeys_of b h l) as [r|]; [|discriminate].
      injection H as <-. cbn. rewrite (IH r eq_refl). reflexivity.
  Qed.

  Lemma last_bound l n : Forall (fun i => i < n) l -> l <> [] -> last l 0 < n.
  Proof.
    induction 1 as [|x l Hx Hf IH]; [congruence|]. intros _. destruct l as [|y t]; [exact Hx|].
    change (last (x :: y :: t) 0) with (last (y :: t) 0). apply IH. discriminate.
  Qed.

  Lemma indexed_att_valid_spec h ia : indexed_att_valid b h ia = is_valid_indexed_attestation b h ia.
  Proof.
    unfold indexed_att_valid, is_valid_indexed_attestation, indexed_attestation_static, indexed_attestation_signature,
      indices_set_ok, signing_root, compute_signing_root, last_index.
    set (l := ia_indices ia).
    rewrite (N.leb_antisym (MAX_VALIDATORS_PER_COMMITTEE c) (lenN l)).
    destruct (MAX_VALIDATORS_PER_COMMITTEE c <? lenN l) eqn:Hmax; cbn [negb andb].
    { rewrite andb_false_r. reflexivity. }
    destruct (lenN l =? 0) eqn:Hlen; cbn [negb andb]; [reflexivity|].
    pose proof (go_sorted_distinct l) as Hsd.
    destruct (go_is_sorted l) eqn:Hs; cbn [negb andb] in *.
    2:{ rewrite <- Hsd. reflexivity. }
    rewrite <- Hsd. destruct (go_adjacent_distinct l) eqn:Hd; cbn [negb andb]; [|reflexivity].
    assert (Hne : l <> []) by (intros Hn; rewrite Hn in Hlen; discriminate).
    destruct (last l 0 <? validator_count b h) eqn:Hlast; cbn [negb].
    - assert (Hf : Forall (fun i => i < validator_count b h) l).
      { apply strictly_increasing_bound; [symmetry; exact Hsd | lia | exact Hne]. }
      rewrite (pubkeys_of_bounded h l _ Hf eq_refl).
      destruct (pubkeys_of b h l) as [pks|] eqn:Hp; [|reflexivity].
      pose proof (pubkeys_of_length _ _ _ Hp) as Hpl.
      assert (Hpn : (lenN pks =? 0) = false) by (unfold lenN in *; lia).
      rewrite Hpn. destruct (sig_ok b (ia_sig ia)); cbn [negb andb]; [|reflexivity].
      unfold eth2_fast_aggregate_verify. destruct pks; [discriminate Hpn | reflexivity].
    - destruct (validator_pubkeys b h l) as [pks|] eqn:Hp; [|reflexivity].
      destruct (validator_pubkeys_some _ _ _ Hp) as [Hf _].
      pose proof (last_bound _ _ Hf Hne). exfalso. apply N.ltb_ge in Hlast. clear - Hlast H. lia.
  Qed.

  Lemma is_aggregator_spec_eq n sel : is_aggregator b n sel = is_aggregator_spec b n sel.
  Proof.
    unfold is_aggregator, is_aggregator_spec.
    generalize (n / TARGET_AGGREGATORS_PER_COMMITTEE). intros m.
    destruct (m =? 0) eqn:E.
    - apply N.eqb_eq in E. rewrite E. reflexivity.
    - apply N.eqb_neq in E. rewrite N.max_r by lia. reflexivity.
  Qed.

  (* the per-entry committee lookups agree with the committee count (coherence of an EpochsContext) *)
  Definition committee_coherent : Prop :=
    forall e s i cm, committee b e s i = Some cm ->
      exists n, committee_count b e (compute_epoch_at_slot b s) = Some n /\ i < n.

  Lemma epoch_match_start e s : cfg_wf c -> s < two64 -> (e =? compute_epoch_at_slot b s) = true ->
    exists ts, compute_start_slot_at_epoch b e = Some ts.
  Proof.
    intros Hc Hs He. destruct (compute_start_slot_at_epoch b e) eqn:E; [eexists; reflexivity|].
    rewrite (start_overflow_epoch_mismatch e s Hc Hs E) in He. discriminate.
  Qed.

  Ltac agg_sel := lazy [ok_at rej_at all_conditions no_reject_fails forallb aggregate_conditions lmd_conditions app c_ok c_tag mk is_ignore].
  Ltac agg_unf :=
    unfold when_known, target_state, get_checkpoint_block, lmd_known, target_is_ancestor,
      target_ancestry_known, finalized_is_ancestor, finalized_ancestry_known, compute_signing_root, sorted_attesting_indices.
  Ltac agg_pre :=
    try rewrite is_aggregator_spec_eq; try rewrite indexed_att_valid_spec; try rewrite select_bits_spec;
    try match goal with
        | Hcm : committee b ?e ?s ?i = Some ?cm, Hcoh : committee_coherent, He : (?tep =? compute_epoch_at_slot b ?s) = true |- _ =>
          lazymatch goal with
          | _ : committee_count b e tep = Some _ |- _ => fail
          | _ => let n := fresh "cnt" in let H1 := fresh "Hcnt" in let H2 := fresh "Hidx" in
                 destruct (Hcoh e s i cm Hcm) as [n [H1 H2]];
                 rewrite <- (proj1 (N.eqb_eq _ _) He) in H1
          end
        end.
  Ltac agg_step := seq_step agg_pre ltac:(fun t => leaf t agg_sel agg_unf).

  Lemma aggregate_verdict_ok sa : cfg_wf c -> att_wf (a_data (ap_aggregate (sa_msg sa))) -> committee_coherent ->
    verdict_ok (validate_aggregate b sa) (aggregate_conditions b sa).
  Proof.
    intros Hc [Hs He] Hcoh.
    unfold validate_aggregate, validate_aggregate_v, verdict_ok.
    cbn [exact_target agg_lmd_checks agg_outer_sig_prefix take_prefix fixed].
    rewrite (start_slot_val_spec _ Hc He), (span_ok_spec _ Hs).
    unfold selection_proof_valid, convert_to_indexed.
    unfold checkpoint_block_of, finalized_checks, signing_root, signing_root_bytes, slot_to_epoch.
    change (ad_slot (a_data (ap_aggregate (sa_msg sa))) / SLOTS_PER_EPOCH c) with (compute_epoch_at_slot b (ad_slot (a_data (ap_aggregate (sa_msg sa))))).
    case_on (compute_start_slot_at_epoch b (cp_epoch (ad_target (a_data (ap_aggregate (sa_msg sa)))))).
    2:{ pose proof (start_overflow_epoch_mismatch _ (ad_slot (a_data (ap_aggregate (sa_msg sa)))) Hc Hs E) as Hm.
        rewrite Hm. cbn [negb]. repeat agg_step. }
    rename n into ts.
    repeat agg_step.
  Qed.

  Theorem aggregate_laws sa : cfg_wf c -> att_wf (a_data (ap_aggregate (sa_msg sa))) -> committee_coherent ->
    verdict_laws (validate_aggregate b sa) (aggregate_conditions b sa).
  Proof. intros. apply verdict_ok_laws, aggregate_verdict_ok; assumption. Qed.


  (* ============================================================================================
     beacon_block
     ============================================================================================ *)
  Lemma start_of_own_epoch s : cfg_wf c -> s < two64 ->
    compute_start_slot_at_epoch b (compute_epoch_at_slot b s) = Some (s / SLOTS_PER_EPOCH c * SLOTS_PER_EPOCH c).
  Proof.
    intros [H0 H1] Hs. unfold compute_start_slot_at_epoch, compute_epoch_at_slot.
    pose proof (N.mul_div_le s (SLOTS_PER_EPOCH c)).
    replace (s / SLOTS_PER_EPOCH c * SLOTS_PER_EPOCH c <? two64) with true by lia. reflexivity.
  Qed.

  Lemma epoch_le s1 s2 : cfg_wf c -> s1 <= s2 -> compute_epoch_at_slot b s1 <= compute_epoch_at_slot b s2.
  Proof. intros [H0 _] H. unfold compute_epoch_at_slot. apply N.div_le_mono; lia. Qed.

  (* the finalized epoch's start slot is representable *)
  Definition fin_wf : Prop := fst (finalized b) * SLOTS_PER_EPOCH c < two64.

  Ltac blk_sel := lazy [ok_at rej_at all_conditions no_reject_fails forallb block_conditions c_ok c_tag mk is_ignore].
  Ltac blk_unf := unfold shuffling_state, not_from_future, latest_slot, compute_signing_root, compute_epoch_at_slot.
  Ltac blk_pre :=
    try match goal with
        | Hlt : (?s <=? entry_slot b ?p) = false, Hc : cfg_wf c
          |- context [?s / SLOTS_PER_EPOCH c <? entry_slot b ?p / SLOTS_PER_EPOCH c] =>
          replace (s / SLOTS_PER_EPOCH c <? entry_slot b p / SLOTS_PER_EPOCH c) with false
            by (pose proof (epoch_le (entry_slot b p) s Hc) as Hle; unfold compute_epoch_at_slot in Hle; lia)
        end.
  Ltac blk_step := seq_step blk_pre ltac:(fun t => leaf t blk_sel blk_unf).

  Lemma block_verdict_ok blk : cfg_wf c -> b_slot blk < two64 -> fin_wf ->
    verdict_ok (validate_block b blk) (block_conditions b blk).
  Proof.
    intros Hc Hs Hf.
    unfold validate_block, validate_block_v, verdict_ok.
    cbn [block_mark_early fixed].
    unfold block_signature_ok, expected_proposer, signing_root, slot_to_epoch.
    assert (Hfe : fst (finalized b) < two64) by (destruct Hc; unfold fin_wf in Hf; nia).
    rewrite (start_slot_val_spec _ Hc Hfe).
    assert (Hfs : compute_start_slot_at_epoch b (fst (finalized b)) = Some (fst (finalized b) * SLOTS_PER_EPOCH c)).
    { unfold compute_start_slot_at_epoch. unfold fin_wf in Hf. replace (fst (finalized b) * SLOTS_PER_EPOCH c <? two64) with true by lia. reflexivity. }
    assert (Hte : b_slot blk / SLOTS_PER_EPOCH c < two64).
    { destruct Hc. pose proof (N.div_le_upper_bound (b_slot blk) (SLOTS_PER_EPOCH c) (b_slot blk)). nia. }
    pose proof (start_of_own_epoch _ Hc Hs) as Hown. unfold compute_epoch_at_slot in Hown.
    rewrite (start_slot_val_spec _ Hc Hte), Hown, Hfs.
    repeat blk_step.
  Qed.

  Theorem block_laws blk : cfg_wf c -> b_slot blk < two64 -> fin_wf ->
    verdict_laws (validate_block b blk) (block_conditions b blk).
  Proof. intros. apply verdict_ok_laws, block_verdict_ok; assumption. Qed.


  (* ============================================================================================
     sync_committee_{subnet_id}, sync_committee_contribution_and_proof
     ============================================================================================ *)
  Lemma current_slot_spec slot : slot < two64 -> span_ok b slot 0 = is_current_slot b slot.
  Proof.
    intros Hs. unfold span_ok, is_current_slot, earliest_slot, latest_slot.
    rewrite check_slot_span_iff by (auto; reflexivity). unfold check_slot_span_spec. rewrite N.add_0_r.
    replace (slot <? two64) with true by lia. reflexivity.
  Qed.

  Lemma in_subnet_from_spec l val subnet k :
    in_subnet_from b (N.of_nat k) l val subnet =
    memN subnet (map (fun i => i / sync_subcommittee_size b)
                     (map fst (filter (fun p => snd p =? val) (combine (map N.of_nat (seq k (length l))) l)))).
  Proof.
    revert k. induction l as [|v l IH]; intros k; [reflexivity|].
    cbn [in_subnet_from length seq map combine filter snd].
    change (subcommittee_size b) with (sync_subcommittee_size b).
    replace (N.of_nat k + 1) with (N.of_nat (S k)) by lia. rewrite IH.
    destruct (v =? val); cbn [andb map fst memN existsb].
    - rewrite (N.eqb_sym subnet). destruct (N.of_nat k / sync_subcommittee_size b =? subnet); reflexivity.
    - reflexivity.
  Qed.

  Lemma in_subnet_spec l val subnet :
    in_subnet b l val subnet = memN subnet (subnets_for_sync_committee b l val).
  Proof. unfold in_subnet, subnets_for_sync_committee, positions_of. apply (in_subnet_from_spec l val subnet 0). Qed.

  Ltac sync_sel := lazy [ok_at rej_at all_conditions no_reject_fails forallb sync_message_conditions c_ok c_tag mk is_ignore].
  Ltac sync_unf := unfold sync_state, compute_signing_root, compute_epoch_at_slot.
  Ltac sync_pre := try rewrite in_subnet_spec.
  Ltac sync_step := seq_step sync_pre ltac:(fun t => leaf t sync_sel sync_unf).

  Lemma sync_message_verdict_ok subnet m : sm_slot m < two64 ->
    verdict_ok (validate_sync_message b subnet m) (sync_message_conditions b subnet m).
  Proof.
    intros Hs. unfold validate_sync_message, validate_sync_message_v, verdict_ok.
    cbn [sync_span fixed]. rewrite (current_slot_spec _ Hs).
    unfold sync_message_sig_ok, signing_root, slot_to_epoch.
    repeat sync_step.
  Qed.

  Theorem sync_message_laws subnet m : sm_slot m < two64 ->
    verdict_laws (validate_sync_message b subnet m) (sync_message_conditions b subnet m).
  Proof. intros. apply verdict_ok_laws, sync_message_verdict_ok; assumption. Qed.

  (* ---------- contributions ---------- *)
  Lemma count_true_zero bits : (count_true bits =? 0) = negb (existsb (fun x => x) bits).
  Proof.
    unfold count_true. induction bits as [|x bits IH]; [reflexivity|].
    cbn [filter existsb]. destruct x; cbn [orb negb length]; [lia | exact IH].
  Qed.

  Lemma is_sync_aggregator_spec sel : is_sync_aggregator b sel = is_sync_committee_aggregator b sel.
  Proof.
    unfold is_sync_aggregator, is_sync_committee_aggregator.
    generalize (SYNC_COMMITTEE_SIZE c / SYNC_COMMITTEE_SUBNET_COUNT / TARGET_AGGREGATORS_PER_SYNC_SUBCOMMITTEE). intros m.
    destruct (m <? 1) eqn:E.
    - rewrite N.max_l by lia. reflexivity.
    - rewrite N.max_r by lia. reflexivity.
  Qed.

  Lemma subcommittee_spec l sub : subcommittee b l sub = sync_subcommittee b l sub.
  Proof. unfold subcommittee, sync_subcommittee, subcommittee_size, sync_subcommittee_size. rewrite N.mul_comm. reflexivity. Qed.

  Lemma pubkeys_of_member e l : pubkeys_of b e l = member_pubkeys b e l.
  Proof.
    induction l as [|x l IH]; [reflexivity|]. cbn [pubkeys_of member_pubkeys]. rewrite IH.
    destruct (pubkey_of b e x); [|reflexivity]. destruct (member_pubkeys b e l); reflexivity.
  Qed.

  Ltac ctr_sel := lazy [ok_at rej_at all_conditions no_reject_fails forallb contribution_conditions c_ok c_tag mk is_ignore].
  Ltac ctr_unf := unfold sync_state, signed_by, compute_signing_root, compute_epoch_at_slot.
  Ltac ctr_pre := try rewrite subcommittee_spec; try rewrite select_bits_spec; try rewrite pubkeys_of_member.
  Ltac ctr_step := seq_step ctr_pre ltac:(fun t => leaf t ctr_sel ctr_unf).

  Lemma contribution_verdict_ok sc : c_slot (cap_contribution (sc_msg sc)) < two64 ->
    verdict_ok (validate_contribution b sc) (contribution_conditions b sc).
  Proof.
    intros Hs. unfold validate_contribution, validate_contribution_v, verdict_ok.
    cbn [sync_span fixed]. unfold subnet_bits_ones_count. cbn [sync_bits_as_bitlist fixed].
    rewrite (current_slot_spec _ Hs), count_true_zero, is_sync_aggregator_spec.
    unfold verify_by, contribution_sig_ok, eth2_fast_aggregate_verify, sync_selection_data_htr, signing_root, signing_root_bytes, slot_to_epoch.
    repeat ctr_step.
  Qed.

  Theorem contribution_laws sc : c_slot (cap_contribution (sc_msg sc)) < two64 ->
    verdict_laws (validate_contribution b sc) (contribution_conditions b sc).
  Proof. intros. apply verdict_ok_laws, contribution_verdict_ok; assumption. Qed.


  (* ============================================================================================
     attester_slashing
     ============================================================================================ *)
  Lemma slashable_data_spec d1 d2 : is_slashable_attestation_data d1 d2 = is_slashable_attestation_data_spec d1 d2.
  Proof.
    unfold is_slashable_attestation_data, is_slashable_attestation_data_spec, is_surround_vote, is_double_vote,
      att_data_eqb, data_equal, checkpoint_eqb.
    rewrite orb_comm. rewrite !andb_assoc. reflexivity.
  Qed.

  Lemma indices_set_ok_spec ia : indices_set_ok b (ia_indices ia) = indexed_attestation_static b ia.
  Proof.
    unfold indices_set_ok, indexed_attestation_static.
    rewrite (N.leb_antisym (MAX_VALIDATORS_PER_COMMITTEE c) (lenN (ia_indices ia))).
    destruct (MAX_VALIDATORS_PER_COMMITTEE c <? lenN (ia_indices ia)); cbn [negb].
    { rewrite andb_false_r. reflexivity. }
    rewrite andb_true_r. destruct (lenN (ia_indices ia) =? 0); cbn [negb andb]; [reflexivity|].
    rewrite <- go_sorted_distinct. destruct (go_is_sorted (ia_indices ia)); reflexivity.
  Qed.

  (* ZigZagJoin on strictly increasing lists is the intersection (indices below the 2^64-1 marker) *)
  Lemma strictly_increasing_tail x l : strictly_increasing (x :: l) = true ->
    strictly_increasing l = true /\ Forall (fun y => x < y) l.
  Proof.
    revert x. induction l as [|y l IH]; intros x H; [split; [reflexivity | constructor]|].
    cbn [strictly_increasing] in H. apply andb_prop in H. destruct H as [Hxy Hs].
    split; [exact Hs|]. destruct (IH y Hs) as [_ Hf]. constructor; [lia|].
    eapply Forall_impl; [|exact Hf]. cbn. intros. lia.
  Qed.

  Lemma memN_false_lt x l : Forall (fun y => x < y) l -> memN x l = false.
  Proof. induction 1 as [|y l Hy Hf IH]; [reflexivity|]. cbn. replace (x =? y) with false by lia. exact IH. Qed.

  Lemma intersection_nil_r l : intersection l [] = [].
  Proof. induction l as [|a l IH]; [reflexivity|]. exact IH. Qed.

  Lemma zigzag_nil l : Forall (fun x => x < max64) l -> zigzag_in l [] = [].
  Proof.
    induction 1 as [|x l Hx Hf IH]; [reflexivity|]. cbn [zigzag_in].
    replace (x =? max64) with false by lia. exact IH.
  Qed.

  Lemma zigzag_spec l1 : forall l2, strictly_increasing l1 = true -> strictly_increasing l2 = true ->
    Forall (fun x => x < max64) l1 -> zigzag_in l1 l2 = intersection l1 l2.
  Proof.
    induction l1 as [|x l1 IH1]; intros l2 H1 H2 Hm; [reflexivity|].
    destruct (strictly_increasing_tail _ _ H1) as [H1' Hgt1]. inversion Hm as [|? ? Hx Hm']; subst.
    induction l2 as [|y l2 IH2].
    - rewrite zigzag_nil by assumption. rewrite intersection_nil_r. reflexivity.
    - destruct (strictly_increasing_tail _ _ H2) as [H2' Hgt2].
      cbn [zigzag_in]. change ((fix inner (ys : list N) : list N := match ys with
        | [] => if x =? max64 then x :: zigzag_in l1 [] else zigzag_in l1 []
        | y0 :: ys' => if x =? y0 then x :: zigzag_in l1 ys' else if x <? y0 then zigzag_in l1 ys else inner ys' end) l2)
        with (zigzag_in (x :: l1) l2).
      assert (Hmem : forall a, In a l1 -> (a =? x) = false /\ (x <? a) = true).
      { intros a Ha. rewrite Forall_forall in Hgt1. specialize (Hgt1 a Ha). lia. }
      destruct (x =? y) eqn:Exy.
      + apply N.eqb_eq in Exy. subst y. rewrite (IH1 l2 H1' H2' Hm').
        unfold intersection. cbn [filter memN existsb]. rewrite N.eqb_refl. cbn [orb]. f_equal.
        apply filter_ext_in. intros a Ha. destruct (Hmem a Ha) as [Hax _]. rewrite Hax. reflexivity.
      + destruct (x <? y) eqn:Elt.
        * rewrite (IH1 (y :: l2) H1' H2 Hm').
          unfold intersection. cbn [filter]. 
          assert (Hxm : memN x (y :: l2) = false).
          { apply memN_false_lt. constructor; [lia|]. eapply Forall_impl; [|exact Hgt2]. cbn. intros. lia. }
          rewrite Hxm. reflexivity.
        * rewrite (IH2 H2'). unfold intersection. apply filter_ext_in. intros a Ha.
          cbn [memN existsb]. replace (a =? y) with false; [reflexivity|].
          destruct Ha as [<-|Ha]; [lia|]. destruct (Hmem a Ha). lia.
  Qed.

  Lemma filter_slashable_none h l : filter_slashable b h l = None -> exists i, In i l /\ validator b h i = None.
  Proof.
    induction l as [|i l IH]; [discriminate|]. cbn [filter_slashable].
    destruct (validator b h i) eqn:Ev; [|intros _; exists i; split; [left; reflexivity | exact Ev]].
    destruct (filter_slashable b h l); [discriminate|]. intros _. destruct (IH eq_refl) as [j [Hj Hv]].
    exists j. split; [right; exact Hj | exact Hv].
  Qed.

  Lemma filter_slashable_some h l r : filter_slashable b h l = Some r ->
    (lenN r =? 0) = negb (any_slashable b h l).
  Proof.
    revert r. induction l as [|i l IH]; intros r H.
    - injection H as <-. reflexivity.
    - cbn [filter_slashable] in H. unfold any_slashable. cbn [existsb].
      destruct (validator b h i) as [v|]; [|discriminate].
      destruct (filter_slashable b h l) as [r'|]; [|discriminate]. injection H as <-.
      change (is_slashable_validator v (epc_epoch b h)) with (is_slashable v (epc_epoch b h)).
      destruct (is_slashable v (epc_epoch b h)); cbn [orb negb].
      + unfold lenN. cbn [length]. lia.
      + apply (IH r' eq_refl).
  Qed.

  Lemma validator_pubkeys_out h l i : In i l -> validator_count b h <= i -> validator_pubkeys b h l = None.
  Proof.
    induction l as [|x l IH]; [contradiction|]. intros [->|Hi] Hc; cbn [validator_pubkeys].
    - replace (i <? validator_count b h) with false by lia. reflexivity.
    - destruct (x <? validator_count b h); [|reflexivity]. rewrite (IH Hi Hc).
      destruct (pubkey_of b h x); reflexivity.
  Qed.

  (* the registry answers for every index below its length *)
  Definition registry_coherent : Prop := forall h i, i < validator_count b h -> validator b h i <> None.
  (* ValidatorSet.ZigZagJoin uses 2^64-1 as its end marker: attesting indices are below it *)
  Definition below_marker (sl : attester_slashing) : Prop := Forall (fun x => x < max64) (ia_indices (as_1 sl)).

  Lemma attester_slashing_verdict_ok sl : registry_coherent -> below_marker sl ->
    verdict_ok (validate_attester_slashing b sl) (attester_slashing_conditions b sl).
  Proof.
    intros Hreg Hmk.
    unfold validate_attester_slashing, attester_slashing_conditions, verdict_ok, attester_slashing_static.
    rewrite slashable_data_spec, !indices_set_ok_spec.
    step (is_slashable_attestation_data_spec (ia_data (as_1 sl)) (ia_data (as_2 sl))); [|fin].
    step (indexed_attestation_static b (as_1 sl)); [|fin].
    step (indexed_attestation_static b (as_2 sl)); [|fin].
    assert (Hs1 : strictly_increasing (ia_indices (as_1 sl)) = true).
    { unfold indexed_attestation_static in E0. apply andb_prop in E0. destruct E0 as [E0 _]. apply andb_prop in E0. tauto. }
    assert (Hs2 : strictly_increasing (ia_indices (as_2 sl)) = true).
    { unfold indexed_attestation_static in E1. apply andb_prop in E1. destruct E1 as [E1 _]. apply andb_prop in E1. tauto. }
    rewrite (zigzag_spec _ _ Hs1 Hs2 Hmk).
    step (attester_slashable_all_seen b (intersection (ia_indices (as_1 sl)) (ia_indices (as_2 sl)))).
    { step (head_info b); fin. }
    step (head_info b); [|fin].
    rewrite !indexed_att_valid_spec. unfold is_valid_indexed_attestation, attester_slashing_dynamic. rewrite E0, E1.
    cbn [andb].
    destruct (filter_slashable b e (intersection (ia_indices (as_1 sl)) (ia_indices (as_2 sl)))) as [r|] eqn:Ef.
    - rewrite (filter_slashable_some _ _ _ Ef).
      step (any_slashable b e (intersection (ia_indices (as_1 sl)) (ia_indices (as_2 sl)))).
      2:{ fin. }
      step (indexed_attestation_signature b e (as_1 sl)); [|fin].
      step (indexed_attestation_signature b e (as_2 sl)); fin.
    - destruct (filter_slashable_none _ _ Ef) as [i [Hi Hv]].
      assert (Hi1 : In i (ia_indices (as_1 sl))) by (unfold intersection in Hi; apply filter_In in Hi; tauto).
      assert (Hout : validator_count b e <= i).
      { destruct (N.lt_ge_cases i (validator_count b e)) as [Hlt|Hge]; [|exact Hge]. exfalso. exact (Hreg e i Hlt Hv). }
      assert (Hsig : indexed_attestation_signature b e (as_1 sl) = false).
      { unfold indexed_attestation_signature. rewrite (validator_pubkeys_out _ _ _ Hi1 Hout). reflexivity. }
      eval_conds. rewrite Hsig. fin.
  Qed.

  Theorem attester_slashing_laws sl : registry_coherent -> below_marker sl ->
    verdict_laws (validate_attester_slashing b sl) (attester_slashing_conditions b sl).
  Proof. intros. apply verdict_ok_laws, attester_slashing_verdict_ok; assumption. Qed.

End Proofs.

(* ------------------------------------------------------------------------------------------------
   the four laws per topic, in the shape of the property statement
   ------------------------------------------------------------------------------------------------ *)
Definition gossip_verdict_laws (r : result) (cs : list cond) : Prop :=
  (all_conditions cs = true -> fst r = ACCEPT) /\                 (* accept_complete *)
  (fst r = ACCEPT -> all_conditions cs = true) /\                 (* accept_sound *)
  (only_ignore_conditions_fail cs = true -> fst r = IGNORE) /\    (* timing_only_is_ignore *)
  (snd r <> [] -> fst r = ACCEPT).                                (* marks_only_on_accept *)

Lemma laws_conj r cs : verdict_laws r cs -> gossip_verdict_laws r cs.
Proof. intros [A B C D]. repeat split; assumption. Qed.

Lemma voluntary_exit_verdict b m : exit_bounds b ->
  gossip_verdict_laws (validate_voluntary_exit b m) (voluntary_exit_conditions b m).
Proof. intros. apply laws_conj, exit_laws; assumption. Qed.
Lemma proposer_slashing_verdict b ps :
  gossip_verdict_laws (validate_proposer_slashing b ps) (proposer_slashing_conditions b ps).
Proof. apply laws_conj, proposer_slashing_laws. Qed.
Lemma attester_slashing_verdict b sl : registry_coherent b -> below_marker sl ->
  gossip_verdict_laws (validate_attester_slashing b sl) (attester_slashing_conditions b sl).
Proof. intros. apply laws_conj, attester_slashing_laws; assumption. Qed.
Lemma attestation_verdict b subnet att : cfg_wf (cfg b) -> att_wf (a_data att) -> counts_wf b ->
  gossip_verdict_laws (validate_attestation b subnet att) (attestation_conditions b subnet att).
Proof. intros. apply laws_conj, attestation_laws; assumption. Qed.
Lemma aggregate_verdict b sa : cfg_wf (cfg b) -> att_wf (a_data (ap_aggregate (sa_msg sa))) -> committee_coherent b ->
  gossip_verdict_laws (validate_aggregate b sa) (aggregate_conditions b sa).
Proof. intros. apply laws_conj, aggregate_laws; assumption. Qed.
Lemma block_verdict b blk : cfg_wf (cfg b) -> b_slot blk < two64 -> fin_wf b ->
  gossip_verdict_laws (validate_block b blk) (block_conditions b blk).
Proof. intros. apply laws_conj, block_laws; assumption. Qed.
Lemma sync_message_verdict b subnet m : sm_slot m < two64 ->
  gossip_verdict_laws (validate_sync_message b subnet m) (sync_message_conditions b subnet m).
Proof. intros. apply laws_conj, sync_message_laws; assumption. Qed.
Lemma contribution_verdict b sc : c_slot (cap_contribution (sc_msg sc)) < two64 ->
  gossip_verdict_laws (validate_contribution b sc) (contribution_conditions b sc).
Proof. intros. apply laws_conj, contribution_laws; assumption. Qed.

(* the marks of an ACCEPT are exactly the topic's seen-cache entries of the message *)
Lemma accept_marks_exit b m : fst (validate_voluntary_exit b m) = ACCEPT ->
  snd (validate_voluntary_exit b m) = [MkExit (ex_index m)].
Proof.
  unfold validate_voluntary_exit. destruct (seen_exit b (ex_index m)); [discriminate|].
  destruct (head_info b); [|discriminate]. destruct (exit_valid b e m); [reflexivity | discriminate].
Qed.
