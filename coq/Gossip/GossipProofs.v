(* C12 — proofs: for every backend and every message, the verdict of each topic validator (Impl model of the
   repaired code) against the p2p condition list (Spec):
     accept_complete        all conditions hold        -> ACCEPT
     accept_sound           ACCEPT                     -> all conditions hold
     timing_only_is_ignore  only [IGNORE] conditions fail -> IGNORE
     marks_only_on_accept   a Mark* call               -> ACCEPT
   The oracles (hash, BLS, clock, chain view) are arbitrary functions: no law is assumed of them.
   Numeric-range hypotheses (values are uint64, SLOTS_PER_EPOCH > 0, ...) are explicit. *)
From Coq Require Import NArith ZArith List Bool Lia.
From Coq Require Import ZifyN ZifyNat ZifyBool.
From V Require Import Base.U64 Base.Outcome Math.MathModel Math.MathProofs Gossip.GossipModel Gossip.GossipSpec.
Import ListNotations.
Local Open Scope N_scope.

(* ------------------------------------------------------------------------------------------------
   verdicts against condition lists
   ------------------------------------------------------------------------------------------------ *)
Definition no_reject_fails (cs : list cond) : bool := forallb (fun c => c_ok c || is_ignore (c_tag c)) cs.

Lemma only_ignore_eq cs : only_ignore_conditions_fail cs = negb (all_conditions cs) && no_reject_fails cs.
Proof.
  unfold only_ignore_conditions_fail, some_condition_fails, all_conditions, no_reject_fails.
  f_equal. induction cs as [|c cs IH]; cbn; [reflexivity|]. rewrite IH. destruct (c_ok c); reflexivity.
Qed.

Lemma no_reject_false_all_false cs : no_reject_fails cs = false -> all_conditions cs = false.
Proof.
  unfold no_reject_fails, all_conditions. induction cs as [|c cs IH]; cbn; [discriminate|].
  destruct (c_ok c); cbn; [exact IH | reflexivity].
Qed.

(* what a (verdict, marks) result must satisfy *)
Definition verdict_ok (r : result) (cs : list cond) : Prop :=
  match fst r with
  | ACCEPT => all_conditions cs = true
  | IGNORE => all_conditions cs = false /\ snd r = []
  | REJECT | PANIC => no_reject_fails cs = false /\ snd r = []
  end.

Record verdict_laws (r : result) (cs : list cond) : Prop := {
  vl_complete : all_conditions cs = true -> fst r = ACCEPT;
  vl_sound : fst r = ACCEPT -> all_conditions cs = true;
  vl_timing : only_ignore_conditions_fail cs = true -> fst r = IGNORE;
  vl_marks : snd r <> [] -> fst r = ACCEPT
}.

Lemma verdict_ok_laws r cs : verdict_ok r cs -> verdict_laws r cs.
Proof.
  unfold verdict_ok. intros H. split.
  - intros A. destruct (fst r); try reflexivity.
    + destruct H as [H _]. congruence.
    + destruct H as [H _]. apply no_reject_false_all_false in H. congruence.
    + destruct H as [H _]. apply no_reject_false_all_false in H. congruence.
  - intros E. rewrite E in H. exact H.
  - rewrite only_ignore_eq. intros T. apply andb_prop in T. destruct T as [T1 T2].
    destruct (fst r); try reflexivity.
    + rewrite H in T1. discriminate.
    + destruct H as [H _]. congruence.
    + destruct H as [H _]. congruence.
  - intros M. destruct (fst r); try reflexivity; destruct H as [_ H]; congruence.
Qed.

(* ------------------------------------------------------------------------------------------------
   tactics
   ------------------------------------------------------------------------------------------------ *)
Ltac case_on t := let E := fresh "E" in destruct t eqn:E; rewrite ?E in *.

(* evaluate the two summaries of an explicit condition list *)
Ltac eval_conds :=
  cbn [all_conditions no_reject_fails forallb c_ok c_tag c_name c_origin mk is_ignore on is_some
       fst snd negb andb orb app].

Ltac rw_known :=
  repeat match goal with
         | H : ?x = true |- context [?x] => rewrite H
         | H : ?x = false |- context [?x] => rewrite H
         | H : ?x = Some _ |- context [?x] => rewrite H
         | H : ?x = None |- context [?x] => rewrite H
         end.

Ltac bool_simp :=
  repeat (rewrite ?andb_true_r, ?andb_true_l, ?andb_false_r, ?andb_false_l, ?orb_true_r, ?orb_true_l,
                  ?orb_false_r, ?orb_false_l, ?negb_involutive in *; cbn [negb andb orb] in * ).

Ltac fin := eval_conds; rw_known; eval_conds; bool_simp; auto.
Ltac step t := eval_conds; case_on t; eval_conds.

(* ------------------------------------------------------------------------------------------------
   numeric-range hypotheses
   ------------------------------------------------------------------------------------------------ *)
Definition cfg_wf (c : config) : Prop :=
  0 < SLOTS_PER_EPOCH c /\ SLOTS_PER_EPOCH c < two64.

Section Proofs.
  Variable b : backend.
  Local Notation c := (cfg b).

  (* ============================================================================================
     voluntary_exit
     ============================================================================================ *)
  (* the head's current epoch leaves room for SHARD_COMMITTEE_PERIOD (uint64 addition does not wrap) *)
  Definition exit_bounds : Prop :=
    forall h, head_info b = Some h -> epc_epoch b h + SHARD_COMMITTEE_PERIOD c < two64.

  Lemma exit_valid_spec h m :
    epc_epoch b h + SHARD_COMMITTEE_PERIOD c < two64 ->
    exit_valid b h m = process_voluntary_exit_ok b h m.
  Proof.
    intros Hb. unfold exit_valid, process_voluntary_exit_ok, is_active, is_active_validator, signing_root, compute_signing_root.
    destruct (ex_index m <? validator_count b h); cbn [negb andb]; [|reflexivity].
    destruct (validator b h (ex_index m)) as [v|]; [|reflexivity].
    destruct (v_activation v <=? epc_epoch b h) eqn:Ea; cbn [negb andb]; [|reflexivity].
    destruct (epc_epoch b h <? v_exit v); cbn [negb andb]; [|reflexivity].
    destruct (v_exit v =? FAR_FUTURE_EPOCH); cbn [negb andb]; [|reflexivity].
    assert (Hadd : add64 (v_activation v) (SHARD_COMMITTEE_PERIOD c) = v_activation v + SHARD_COMMITTEE_PERIOD c).
    { unfold add64. apply wrap64_small. lia. }
    rewrite Hadd.
    rewrite (N.ltb_antisym (ex_epoch m) (epc_epoch b h)).
    rewrite (N.ltb_antisym (v_activation v + SHARD_COMMITTEE_PERIOD c) (epc_epoch b h)).
    destruct (ex_epoch m <=? epc_epoch b h); cbn [negb andb]; [|reflexivity].
    destruct (v_activation v + SHARD_COMMITTEE_PERIOD c <=? epc_epoch b h); cbn [negb andb]; [|reflexivity].
    destruct (pubkey_of b h (ex_index m)); [|reflexivity].
    destruct (sig_ok b (ex_sig m)); reflexivity.
  Qed.

  Lemma exit_verdict_ok m : exit_bounds -> verdict_ok (validate_voluntary_exit b m) (voluntary_exit_conditions b m).
  Proof.
    intros Hb. unfold validate_voluntary_exit, voluntary_exit_conditions, verdict_ok.
    step (seen_exit b (ex_index m)); [fin|].
    step (head_info b); [|fin].
    rewrite (exit_valid_spec e m (Hb e E0)).
    step (process_voluntary_exit_ok b e m); fin.
  Qed.

  Theorem exit_laws m : exit_bounds -> verdict_laws (validate_voluntary_exit b m) (voluntary_exit_conditions b m).
  Proof. intros H. apply verdict_ok_laws, exit_verdict_ok, H. Qed.

  (* ============================================================================================
     proposer_slashing
     ============================================================================================ *)
  Lemma proposer_slashing_nosig_spec ps : proposer_slashing_nosig ps = proposer_slashing_static ps.
  Proof.
    unfold proposer_slashing_nosig, proposer_slashing_static, header_differs, header_eqb.
    destruct (h_slot (sh_msg (ps_1 ps)) =? h_slot (sh_msg (ps_2 ps))); cbn [negb andb]; [|reflexivity].
    destruct (h_proposer (sh_msg (ps_1 ps)) =? h_proposer (sh_msg (ps_2 ps))); cbn [negb andb]; [|reflexivity].
    destruct (h_parent (sh_msg (ps_1 ps)) =? h_parent (sh_msg (ps_2 ps))); cbn [negb andb]; [|reflexivity].
    destruct (h_state (sh_msg (ps_1 ps)) =? h_state (sh_msg (ps_2 ps))); cbn [negb andb]; [|reflexivity].
    destruct (h_body (sh_msg (ps_1 ps)) =? h_body (sh_msg (ps_2 ps))); reflexivity.
  Qed.

  Lemma proposer_slashing_valid_spec h ps :
    proposer_slashing_valid b h ps = proposer_slashing_static ps && proposer_slashing_dynamic b h ps.
  Proof.
    unfold proposer_slashing_valid. rewrite proposer_slashing_nosig_spec.
    destruct (proposer_slashing_static ps) eqn:Es; cbn [negb andb]; [|reflexivity].
    unfold proposer_slashing_dynamic, header_signature_ok, is_slashable, is_slashable_validator,
      signing_root, compute_signing_root, slot_to_epoch, compute_epoch_at_slot.
    assert (Hs : h_slot (sh_msg (ps_2 ps)) = h_slot (sh_msg (ps_1 ps))).
    { unfold proposer_slashing_static in Es. apply andb_prop in Es. destruct Es as [Es _].
      apply andb_prop in Es. destruct Es as [Es _]. apply N.eqb_eq in Es. congruence. }
    rewrite Hs.
    destruct (h_proposer (sh_msg (ps_1 ps)) <? validator_count b h); cbn [negb andb]; [|reflexivity].
    destruct (validator b h (h_proposer (sh_msg (ps_1 ps)))) as [v|]; [|reflexivity].
    destruct (pubkey_of b h (h_proposer (sh_msg (ps_1 ps)))) as [pk|].
    2:{ destruct (negb (v_slashed v) && (v_activation v <=? epc_epoch b h) && (epc_epoch b h <? v_withdrawable v)); reflexivity. }
    destruct (negb (v_slashed v) && (v_activation v <=? epc_epoch b h) && (epc_epoch b h <? v_withdrawable v)); cbn [negb andb]; [|reflexivity].
    destruct (sig_ok b (sh_sig (ps_1 ps))); cbn [negb andb]; [|reflexivity].
    destruct (sig_ok b (sh_sig (ps_2 ps))); cbn [negb andb].
    2:{ rewrite andb_false_r. reflexivity. }
    destruct (verify b pk _ (sh_sig (ps_1 ps))); cbn [negb andb]; reflexivity.
  Qed.

  Lemma proposer_slashing_verdict_ok ps :
    verdict_ok (validate_proposer_slashing b ps) (proposer_slashing_conditions b ps).
  Proof.
    unfold validate_proposer_slashing, proposer_slashing_conditions, verdict_ok.
    rewrite proposer_slashing_nosig_spec.
    step (proposer_slashing_static ps); [|fin].
    step (seen_proposer_slashing b (h_proposer (sh_msg (ps_1 ps)))).
    { step (head_info b); fin. }
    step (head_info b); [|fin].
    rewrite proposer_slashing_valid_spec. rewrite E.
    step (proposer_slashing_dynamic b e ps); fin.
  Qed.

  Theorem proposer_slashing_laws ps :
    verdict_laws (validate_proposer_slashing b ps) (proposer_slashing_conditions b ps).
  Proof. apply verdict_ok_laws, proposer_slashing_verdict_ok. Qed.

End Proofs.
