(* C12 correspondence: evaluate the Impl model and the Spec on the cases the Go harness ran.
   A case = the finite backend facts needed for one message (chain view answers, seen-cache content,
   per-entry context projections, the signature table of the signatures the harness made), the message
   fields, Go's verdict and the sequence of Mark* calls it made. *)
From Coq Require Import NArith ZArith List Bool String.
From V Require Import Base.U64 Base.Outcome Base.Sha256 Math.MathModel Gossip.GossipModel Gossip.GossipSpec.
Import ListNotations.
Local Open Scope N_scope.

(* ---------- finite tables ---------- *)
Fixpoint lookup {A} (k : N) (l : list (N * A)) : option A :=
  match l with [] => None | (k', v) :: t => if k =? k' then Some v else lookup k t end.
Fixpoint lookup2 {A} (k1 k2 : N) (l : list (N * N * A)) : option A :=
  match l with [] => None | (a, b0, v) :: t => if (k1 =? a) && (k2 =? b0) then Some v else lookup2 k1 k2 t end.

Definition dtype_code (d : dtype) : N :=
  match d with
  | DBeaconProposer => 0 | DBeaconAttester => 1 | DVoluntaryExit => 4 | DSelectionProof => 5
  | DAggregateAndProof => 6 | DSyncCommittee => 7 | DSyncSelectionProof => 8 | DContributionAndProof => 9
  end.

(* facts about one chain entry *)
Record efacts := {
  ef_slot : N;
  ef_epc_ok : bool;
  ef_state_ok : bool;
  ef_epoch : N;
  ef_counts : list (N * N);                (* epoch -> committees per slot *)
  ef_comms : list (N * N * list N);        (* (slot, index) -> committee *)
  ef_proposers : list (N * N);             (* slot -> proposer *)
  ef_sync : option (list N);
  ef_pubkeys : list (N * N);               (* validator index -> pubkey id *)
  ef_nvals : N;
  ef_vals : list (N * vrec);
  ef_domains : list (N * N * N);           (* (domain type code, epoch) -> domain *)
  ef_block_roots : list (N * N)            (* slot -> block root from the state's history *)
}.
Definition no_entry : efacts :=
  {| ef_slot := 0; ef_epc_ok := false; ef_state_ok := false; ef_epoch := 0; ef_counts := []; ef_comms := [];
     ef_proposers := []; ef_sync := None; ef_pubkeys := []; ef_nvals := 0; ef_vals := []; ef_domains := [];
     ef_block_roots := [] |}.

(* one signature the harness knows: deserializes?, is the point at infinity?, selection hash,
   signer set (pubkey ids, sorted), the 32-byte message it was made over (as a number) *)
Record sfacts := { sf_ok : bool; sf_inf : bool; sf_hash : N; sf_signers : list N; sf_msg : N }.

Record facts := {
  f_cfg : config;
  f_lo : N;                                 (* SlotAfter(-MAXIMUM_GOSSIP_CLOCK_DISPARITY) *)
  f_hi : N;                                 (* SlotAfter(+MAXIMUM_GOSSIP_CLOCK_DISPARITY) *)
  f_seen : list mark;                       (* content of the seen caches, as the Mark* calls that filled them *)
  f_bad : list N;                           (* bad block roots *)
  f_domains : list (N * N * N);             (* backend GetDomain: (type code, epoch) -> domain; absent = error *)
  f_digests : list (N * N);                 (* slot -> fork digest *)
  f_pdomains : list (N * N);                (* slot -> proposer domain *)
  f_head : option N;
  f_blocks : list (N * N);                  (* ByBlock: root -> entry *)
  f_block_slots : list (N * N * N);         (* ByBlockSlot: (root, slot) -> entry *)
  f_subtree : list (N * N * (bool * bool)); (* InSubtree(anchor, root) -> (unknown, inSubtree); absent = unknown *)
  f_fin : N * N;
  f_towards : list (N * N * N);             (* Towards(root, slot) -> entry; absent = error *)
  f_entries : list (N * efacts);
  f_sigs : list (N * sfacts)
}.

Definition mark_eqb (x y : mark) : bool :=
  match x, y with
  | MkExit a, MkExit a' => a =? a'
  | MkProposerSlashing a, MkProposerSlashing a' => a =? a'
  | MkAttesterSlashings l, MkAttesterSlashings l' => (lenN l =? lenN l') && forallb (fun p => fst p =? snd p) (combine l l')
  | MkAttestation a c, MkAttestation a' c' => (a =? a') && (c =? c')
  | MkAggregate a, MkAggregate a' => a =? a'
  | MkAggregator a c, MkAggregator a' c' => (a =? a') && (c =? c')
  | MkBlock a c, MkBlock a' c' => (a =? a') && (c =? c')
  | MkSyncCommMsg a c d, MkSyncCommMsg a' c' d' => (a =? a') && (c =? c') && (d =? d')
  | MkContribution a c d, MkContribution a' c' d' => (a =? a') && (c =? c') && (d =? d')
  | _, _ => false
  end.
Definition seen (f : facts) (m : mark) : bool := existsb (mark_eqb m) (f_seen f).
Definition slashing_seen_index (f : facts) (i : N) : bool :=
  existsb (fun m => match m with MkAttesterSlashings l => memN i l | _ => false end) (f_seen f).

Definition entry_of (f : facts) (e : N) : efacts := match lookup e (f_entries f) with Some x => x | None => no_entry end.

Fixpoint list_eqb (x y : list N) : bool :=
  match x, y with
  | [], [] => true
  | a :: x', c :: y' => (a =? c) && list_eqb x' y'
  | _, _ => false
  end.

Definition table_verify (f : facts) (pk : N) (msg : bytes) (s : N) : bool :=
  match lookup s (f_sigs f) with
  | Some sf => sf_ok sf && list_eqb (sf_signers sf) [pk] && (lenN msg =? 32) && (bytes_to_N msg =? sf_msg sf)
  | None => false
  end.
Definition table_fast_aggregate_verify (f : facts) (pks : list N) (msg : bytes) (s : N) : bool :=
  match pks, lookup s (f_sigs f) with
  | _ :: _, Some sf => sf_ok sf && list_eqb (sf_signers sf) (sort_indices pks) && (lenN msg =? 32) && (bytes_to_N msg =? sf_msg sf)
  | _, _ => false
  end.

Definition backend_of (f : facts) : backend :=
  {| cfg := f_cfg f;
     slot_after := fun d => if (d <? 0)%Z then f_lo f else f_hi f;
     seen_exit := fun i => seen f (MkExit i);
     seen_proposer_slashing := fun i => seen f (MkProposerSlashing i);
     attester_slashable_all_seen := fun l => forallb (slashing_seen_index f) l;
     seen_attestation := fun e v => seen f (MkAttestation e v);
     seen_aggregate := fun r => seen f (MkAggregate r);
     seen_aggregator := fun e a => seen f (MkAggregator e a);
     seen_block := fun s p => seen f (MkBlock s p);
     seen_sync_msg := fun v s n => seen f (MkSyncCommMsg v s n);
     seen_contribution := fun a s n => seen f (MkContribution a s n);
     is_bad_block := fun r => memN r (f_bad f);
     get_domain := fun d e => lookup2 (dtype_code d) e (f_domains f);
     fork_digest_at := fun s => match lookup s (f_digests f) with Some x => x | None => 0 end;
     proposer_domain_at := fun s => match lookup s (f_pdomains f) with Some x => x | None => 0 end;
     head_info := f_head f;
     by_block := fun r => lookup r (f_blocks f);
     by_block_slot := fun r s => lookup2 r s (f_block_slots f);
     in_subtree := fun a r => match lookup2 a r (f_subtree f) with Some x => x | None => (true, false) end;
     finalized := f_fin f;
     towards := fun r s => lookup2 r s (f_towards f);
     entry_slot := fun e => ef_slot (entry_of f e);
     epc_avail := fun e => ef_epc_ok (entry_of f e);
     state_avail := fun e => ef_state_ok (entry_of f e);
     epc_epoch := fun e => ef_epoch (entry_of f e);
     committee_count := fun e ep => lookup ep (ef_counts (entry_of f e));
     committee := fun e s i => lookup2 s i (ef_comms (entry_of f e));
     proposer_at := fun e s => lookup s (ef_proposers (entry_of f e));
     sync_committee := fun e => ef_sync (entry_of f e);
     pubkey_of := fun e i => lookup i (ef_pubkeys (entry_of f e));
     validator_count := fun e => ef_nvals (entry_of f e);
     validator := fun e i => lookup i (ef_vals (entry_of f e));
     state_domain := fun e d ep => match lookup2 (dtype_code d) ep (ef_domains (entry_of f e)) with Some x => x | None => 0 end;
     block_root_at := fun e s => lookup s (ef_block_roots (entry_of f e));
     H := sha256;
     verify := table_verify f;
     fast_aggregate_verify := table_fast_aggregate_verify f;
     sig_ok := fun s => match lookup s (f_sigs f) with Some sf => sf_ok sf | None => false end;
     sig_is_infinity := fun s => match lookup s (f_sigs f) with Some sf => sf_inf sf | None => false end;
     sel_hash := fun s => match lookup s (f_sigs f) with Some sf => sf_hash sf | None => 0 end |}.

(* ---------- cases ---------- *)
Inductive gmsg :=
| MExit (m : voluntary_exit)
| MProposerSlashing (m : proposer_slashing)
| MAttesterSlashing (m : attester_slashing)
| MAttestation (subnet : N) (m : attestation)
| MAggregate (m : signed_aggregate)
| MBlock (m : block_envelope)
| MSyncMessage (subnet : N) (m : sync_message)
| MContribution (m : signed_contribution).

Inductive gcase := GC (f : facts) (m : gmsg) (go : verdict) (go_marks : list mark).

Definition run_impl (vr : variant) (f : facts) (m : gmsg) : result :=
  let b := backend_of f in
  match m with
  | MExit x => validate_voluntary_exit b x
  | MProposerSlashing x => validate_proposer_slashing b x
  | MAttesterSlashing x => validate_attester_slashing b x
  | MAttestation n x => validate_attestation_v b vr n x
  | MAggregate x => validate_aggregate_v b vr x
  | MBlock x => validate_block_v b vr x
  | MSyncMessage n x => validate_sync_message_v b vr n x
  | MContribution x => validate_contribution_v b vr x
  end.

Definition conditions_of (f : facts) (m : gmsg) : list cond :=
  let b := backend_of f in
  match m with
  | MExit x => voluntary_exit_conditions b x
  | MProposerSlashing x => proposer_slashing_conditions b x
  | MAttesterSlashing x => attester_slashing_conditions b x
  | MAttestation n x => attestation_conditions b n x
  | MAggregate x => aggregate_conditions b x
  | MBlock x => block_conditions b x
  | MSyncMessage n x => sync_message_conditions b n x
  | MContribution x => contribution_conditions b x
  end.

Fixpoint marks_eqb (x y : list mark) : bool :=
  match x, y with
  | [], [] => true
  | a :: x', c :: y' => mark_eqb a c && marks_eqb x' y'
  | _, _ => false
  end.

(* impl_ok: Go's verdict and Mark* calls are those of the Impl model (of the repaired code) *)
Definition impl_ok (cs : gcase) : bool :=
  match cs with
  | GC f m go gm => let r := run_impl fixed f m in verdict_eqb (fst r) go && marks_eqb (snd r) gm
  end.
(* the same against the model of the pinned snapshot (used by the check to tell "unfixed tree" apart) *)
Definition impl_orig_ok (cs : gcase) : bool :=
  match cs with
  | GC f m go gm => let r := run_impl orig f m in verdict_eqb (fst r) go && marks_eqb (snd r) gm
  end.

(* spec_ok: Go's verdict judged against the p2p conditions directly (no Impl model):
   all conditions hold <-> ACCEPT; only [IGNORE] conditions fail -> IGNORE; a Mark* call -> ACCEPT *)
Definition spec_ok (cs : gcase) : bool :=
  match cs with
  | GC f m go gm =>
    let conds := conditions_of f m in
    Bool.eqb (all_conditions conds) (verdict_eqb go ACCEPT) &&
    (if only_ignore_conditions_fail conds then verdict_eqb go IGNORE else true) &&
    (match gm with [] => true | _ => verdict_eqb go ACCEPT end)
  end.

Fixpoint mism (i : N) (l : list gcase) : list (N * N) :=
  match l with
  | [] => []
  | x :: t =>
    let r := (if impl_ok x then 0 else 1) + (if spec_ok x then 0 else 2) in
    if r =? 0 then mism (i + 1) t else (i, r) :: mism (i + 1) t
  end.
Definition mismatches (l : list gcase) : list (N * N) := mism 0 l.

(* cases on which Go differs from the model of the pinned snapshot *)
Fixpoint mism_orig (i : N) (l : list gcase) : list (N * N) :=
  match l with
  | [] => []
  | x :: t => if impl_orig_ok x then mism_orig (i + 1) t else (i, 1) :: mism_orig (i + 1) t
  end.
Definition mismatches_orig (l : list gcase) : list (N * N) := mism_orig 0 l.

(* diagnostics for replay files / debugging *)
Definition explain (cs : gcase) : result * list string :=
  match cs with GC f m go gm => (run_impl fixed f m, failing (conditions_of f m)) end.
