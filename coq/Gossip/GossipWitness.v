(* C12 — concrete witnesses (machine-checked by vm_compute):
   * cases produced by the Go harness against the repaired tree, on which leaving out ONE repair makes the model
     (and, on the pinned snapshot, the Go code) violate the property: the `_refuted` witnesses;
   * a backend meeting every hypothesis of the C12 theorems on which messages of several topics are ACCEPTed:
     non-vacuity.
   The case terms are copied verbatim from harness output (run/C12: cases.jsonl); regenerate with the harness. *)
From Coq Require Import NArith ZArith List Bool.
From V Require Import Base.U64 Base.Outcome Gossip.GossipModel Gossip.GossipSpec Gossip.GossipProofs Gossip.GossipRun.
Import ListNotations.
Local Open Scope N_scope.

(* agg/honest=ACCEPT  [honest, world small, head m36@36, clock 220000 ms] *)
Definition w_agg : gcase :=
  GC (Build_facts (Build_config 8 16 1 32) 36 36 [] [] [] [] [] (Some 3) [(0x533d82f2110fd365e7f85c3b78b62d1bd6bccca952f2e2a2312aaec8ddb30d4d,1)] [] [(0x4ea043517e39b5ea470f8737da4fc12df7a8562d328b0282395845f7ccdacacc,0x533d82f2110fd365e7f85c3b78b62d1bd6bccca952f2e2a2312aaec8ddb30d4d,(false,true))] (0,0x4ea043517e39b5ea470f8737da4fc12df7a8562d328b0282395845f7ccdacacc) [(0x4ea043517e39b5ea470f8737da4fc12df7a8562d328b0282395845f7ccdacacc,0,2)] [(1,Build_efacts 3 true true 0 [] [] [] None [] 64 [] [] [(0,0x4ea043517e39b5ea470f8737da4fc12df7a8562d328b0282395845f7ccdacacc)]); (2,Build_efacts 0 true true 0 [(0,2)] [(4,0,[18;31;5;55])] [] None [(18,19); (31,32); (5,6); (55,56)] 64 [] [(1,0,0x1000000ae5fa3da0d9e2fa29ed668e118d7faf6f8e4fe89ce3e744878dafb80); (5,0,0x5000000ae5fa3da0d9e2fa29ed668e118d7faf6f8e4fe89ce3e744878dafb80); (6,0,0x6000000ae5fa3da0d9e2fa29ed668e118d7faf6f8e4fe89ce3e744878dafb80)] []); (3,Build_efacts 36 true true 4 [] [] [] None [] 64 [] [] [])] [(736,Build_sfacts true false 3649662420101891612 [19] 0xc54c84192a015be64b438ea3cdc0ddf2b9c6bd26404f119addf11d055e7aa3d9); (737,Build_sfacts true false 16301549672857167400 [19;32;56] 0x1e5b40461f221ad25799deb24c8464158e39a2e481aa036a96a0019d0a88c10f); (738,Build_sfacts true false 1966672751799951478 [19] 0xf9238b4588f3684958548f0dc3285e7cd5fc98cbb51d9fad495b3d14ed437b8e)]) (MAggregate (Build_signed_aggregate (Build_aggregate_and_proof 18 (Build_attestation [true;true;false;true] (Build_att_data 4 0 0x533d82f2110fd365e7f85c3b78b62d1bd6bccca952f2e2a2312aaec8ddb30d4d (Build_checkpoint 0 0x4ea043517e39b5ea470f8737da4fc12df7a8562d328b0282395845f7ccdacacc) (Build_checkpoint 0 0x4ea043517e39b5ea470f8737da4fc12df7a8562d328b0282395845f7ccdacacc) 0xba2a942d252b688e32957f20d7026f789c8970737f7e5343e09d13becf0cc405) 737) 736 0xfc9f3471a51fcae0409b8c52de5a01bfeaf0a7160f721b236b0fada2b2e12bc1 0x4f41d024a1298eb04ebfc314f4afaa11c6f77f541d62c2483aab7db033c483e9) 738)) ACCEPT [MkAggregate 0x4f41d024a1298eb04ebfc314f4afaa11c6f77f541d62c2483aab7db033c483e9; MkAggregator 0 18].

(* agg/target-on-other-branch-same-shuffling=REJECT  [target-on-other-branch-same-shuffling, world small, head m36@36, clock 220000 ms] *)
Definition w_agg_branch : gcase :=
  GC (Build_facts (Build_config 8 16 1 32) 36 36 [] [] [] [] [] (Some 3) [(0xbdd8cd223f5d21fee09a79e037d053bd327807a6e4f1f764a1978e22f13b131,1)] [] [(0x4ea043517e39b5ea470f8737da4fc12df7a8562d328b0282395845f7ccdacacc,0xbdd8cd223f5d21fee09a79e037d053bd327807a6e4f1f764a1978e22f13b131,(false,true)); (0x7582b645a0df7bdbff423473b879dbe3492c07f7cfb655739fff4f3d4f6050c8,0xbdd8cd223f5d21fee09a79e037d053bd327807a6e4f1f764a1978e22f13b131,(false,false))] (0,0x4ea043517e39b5ea470f8737da4fc12df7a8562d328b0282395845f7ccdacacc) [(0x7582b645a0df7bdbff423473b879dbe3492c07f7cfb655739fff4f3d4f6050c8,32,2)] [(1,Build_efacts 34 true true 4 [] [] [] None [] 64 [] [] [(32,0x5f127db75a7b523b18ed989752186e3f685486b7a49338b932d8686a3ca12a56)]); (2,Build_efacts 32 true true 4 [(4,2)] [(34,1,[21;40;22;25])] [] None [(21,22); (22,23); (25,26); (40,41)] 64 [] [(1,4,0x1000000765c87d39dfcacdfda5991d97166a5dbbb9721148acdcb9b3e0f5d53); (5,4,0x5000000765c87d39dfcacdfda5991d97166a5dbbb9721148acdcb9b3e0f5d53); (6,4,0x6000000765c87d39dfcacdfda5991d97166a5dbbb9721148acdcb9b3e0f5d53)] []); (3,Build_efacts 36 true true 4 [] [] [] None [] 64 [] [] [])] [(918,Build_sfacts true false 6226675664343204836 [22] 0xf9220857fc3b1f0aef5d8b73b4b89bf897f91f61c301eafc6750ce6b449fa90); (980,Build_sfacts true false 4772351236108973602 [22;23;26;41] 0x8ee5d3bb8bd555475dc237e77520d5599ff99395a0513f5325f2a08adb74e470); (981,Build_sfacts true false 17722701443126818857 [22] 0xe396cac7cfcc33ee9c2f6cfa8ec7ce97db1b94f3831aa912ad330edb02d92bbd)]) (MAggregate (Build_signed_aggregate (Build_aggregate_and_proof 21 (Build_attestation [true;true;true;true] (Build_att_data 34 1 0xbdd8cd223f5d21fee09a79e037d053bd327807a6e4f1f764a1978e22f13b131 (Build_checkpoint 0 0x4ea043517e39b5ea470f8737da4fc12df7a8562d328b0282395845f7ccdacacc) (Build_checkpoint 4 0x7582b645a0df7bdbff423473b879dbe3492c07f7cfb655739fff4f3d4f6050c8) 0x636fa1937235442169da39bb52a00341e37bb517bfeeb0e468f322fe476e5015) 980) 918 0x27026b6551d62f2fbcddc65b9c834668fadd402e750ec8ac0f92b704db06cb14 0x30a27c47014cd5a3ddf2a3a650e5e4a16f85e1067075653494d8d5a6ba2cbce7) 981)) REJECT [].

(* att/honest=ACCEPT  [honest, world small, head m36@36, clock 220000 ms] *)
Definition w_att : gcase :=
  GC (Build_facts (Build_config 8 16 1 32) 36 36 [] [] [(1,0,0x1000000ae5fa3da0d9e2fa29ed668e118d7faf6f8e4fe89ce3e744878dafb80)] [] [] (Some 3) [(0x533d82f2110fd365e7f85c3b78b62d1bd6bccca952f2e2a2312aaec8ddb30d4d,1)] [] [(0x4ea043517e39b5ea470f8737da4fc12df7a8562d328b0282395845f7ccdacacc,0x533d82f2110fd365e7f85c3b78b62d1bd6bccca952f2e2a2312aaec8ddb30d4d,(false,true))] (0,0x4ea043517e39b5ea470f8737da4fc12df7a8562d328b0282395845f7ccdacacc) [(0x4ea043517e39b5ea470f8737da4fc12df7a8562d328b0282395845f7ccdacacc,0,2)] [(1,Build_efacts 3 true true 0 [] [] [] None [] 64 [] [] [(0,0x4ea043517e39b5ea470f8737da4fc12df7a8562d328b0282395845f7ccdacacc)]); (2,Build_efacts 0 true true 0 [(0,2)] [(4,0,[18;31;5;55])] [] None [(18,19); (31,32); (5,6); (55,56)] 64 [] [] []); (3,Build_efacts 36 true true 4 [] [] [] None [] 64 [] [] [])] [(471,Build_sfacts true false 2627032420614001281 [19] 0x1e5b40461f221ad25799deb24c8464158e39a2e481aa036a96a0019d0a88c10f)]) (MAttestation 8 (Build_attestation [true;false;false;false] (Build_att_data 4 0 0x533d82f2110fd365e7f85c3b78b62d1bd6bccca952f2e2a2312aaec8ddb30d4d (Build_checkpoint 0 0x4ea043517e39b5ea470f8737da4fc12df7a8562d328b0282395845f7ccdacacc) (Build_checkpoint 0 0x4ea043517e39b5ea470f8737da4fc12df7a8562d328b0282395845f7ccdacacc) 0xba2a942d252b688e32957f20d7026f789c8970737f7e5343e09d13becf0cc405) 471)) ACCEPT [MkAttestation 0 18].

(* att/target-is-older-ancestor=REJECT  [target-is-older-ancestor, world small, head m36@36, clock 220000 ms] *)
Definition w_att_older : gcase :=
  GC (Build_facts (Build_config 8 16 1 32) 36 36 [] [] [(1,4,0x1000000765c87d39dfcacdfda5991d97166a5dbbb9721148acdcb9b3e0f5d53)] [] [] (Some 3) [(0xbdd8cd223f5d21fee09a79e037d053bd327807a6e4f1f764a1978e22f13b131,1)] [] [(0x41dea662f5aed2f4b2edc75c1d58257357ca748eef686a29fc6a54d1b685a0e4,0xbdd8cd223f5d21fee09a79e037d053bd327807a6e4f1f764a1978e22f13b131,(false,true)); (0x4ea043517e39b5ea470f8737da4fc12df7a8562d328b0282395845f7ccdacacc,0xbdd8cd223f5d21fee09a79e037d053bd327807a6e4f1f764a1978e22f13b131,(false,true))] (0,0x4ea043517e39b5ea470f8737da4fc12df7a8562d328b0282395845f7ccdacacc) [(0x41dea662f5aed2f4b2edc75c1d58257357ca748eef686a29fc6a54d1b685a0e4,32,2)] [(1,Build_efacts 34 true true 4 [] [] [] None [] 64 [] [] [(32,0x5f127db75a7b523b18ed989752186e3f685486b7a49338b932d8686a3ca12a56)]); (2,Build_efacts 32 true true 4 [(4,2)] [(34,1,[21;40;22;25])] [] None [(21,22); (22,23); (25,26); (40,41)] 64 [] [] []); (3,Build_efacts 36 true true 4 [] [] [] None [] 64 [] [] [])] [(577,Build_sfacts true false 16102204696376362593 [23] 0x34ff7595457f165a3b38878f228938d8e54ef3d704a9d7518bd54ac5559fd3b)]) (MAttestation 5 (Build_attestation [false;false;true;false] (Build_att_data 34 1 0xbdd8cd223f5d21fee09a79e037d053bd327807a6e4f1f764a1978e22f13b131 (Build_checkpoint 0 0x4ea043517e39b5ea470f8737da4fc12df7a8562d328b0282395845f7ccdacacc) (Build_checkpoint 4 0x41dea662f5aed2f4b2edc75c1d58257357ca748eef686a29fc6a54d1b685a0e4) 0x275bb8b2a2a5a5870363e2fbed1f9aa94f70cc32941c7ce161cbfeee3d38ebfe) 577)) REJECT [].

(* block/not-the-expected-proposer=REJECT  [not-the-expected-proposer, world small, head genesis@0, clock 7000 ms] *)
Definition w_blk_impostor : gcase :=
  GC (Build_facts (Build_config 8 16 1 32) 1 1 [] [] [] [(1,0xae5fa3da)] [(1,0xae5fa3da0d9e2fa29ed668e118d7faf6f8e4fe89ce3e744878dafb80)] (Some 1) [(0x4ea043517e39b5ea470f8737da4fc12df7a8562d328b0282395845f7ccdacacc,1)] [] [(0x4ea043517e39b5ea470f8737da4fc12df7a8562d328b0282395845f7ccdacacc,0x4ea043517e39b5ea470f8737da4fc12df7a8562d328b0282395845f7ccdacacc,(false,true))] (0,0x4ea043517e39b5ea470f8737da4fc12df7a8562d328b0282395845f7ccdacacc) [(0x4ea043517e39b5ea470f8737da4fc12df7a8562d328b0282395845f7ccdacacc,0,1)] [(1,Build_efacts 0 true true 0 [] [] [(1,49)] None [(50,51)] 64 [] [] [])] [(1266,Build_sfacts true false 8989999440770969955 [51] 0x968ff779ae1d9aeedd31f5d3dc7fbe17750ad2b676cf158120f852f9ed5a3755)]) (MBlock (Build_block_envelope 1 50 0x4ea043517e39b5ea470f8737da4fc12df7a8562d328b0282395845f7ccdacacc 0x3c3c04ae48b0b5da584952e963b2ecd2b6fde11d996fe0adefd6ecf529015652 0xae5fa3da 1266)) REJECT [].

(* block/towards-timeout=IGNORE  [towards-timeout, world small, head m7@7, clock 55000 ms] *)
Definition w_blk_timeout : gcase :=
  GC (Build_facts (Build_config 8 16 1 32) 9 9 [] [] [] [(9,0xae5fa3da)] [(9,0xae5fa3da0d9e2fa29ed668e118d7faf6f8e4fe89ce3e744878dafb80)] (Some 1) [(0x77aaba6932e5edebbb9c4adab73081a1aa140e1105663d45bdcc913d402d8532,1)] [] [(0x4ea043517e39b5ea470f8737da4fc12df7a8562d328b0282395845f7ccdacacc,0x77aaba6932e5edebbb9c4adab73081a1aa140e1105663d45bdcc913d402d8532,(false,true))] (0,0x4ea043517e39b5ea470f8737da4fc12df7a8562d328b0282395845f7ccdacacc) [] [(1,Build_efacts 7 true true 0 [] [] [] None [(62,63)] 64 [] [] [])] [(16,Build_sfacts true false 14887025725919975996 [63] 0xdc6601e536a7ac920113615dc5f3d7e14fb315e6a6191b6239deb95dd3cb27aa)]) (MBlock (Build_block_envelope 9 62 0x77aaba6932e5edebbb9c4adab73081a1aa140e1105663d45bdcc913d402d8532 0xc03b3cc82c276b23ac5d012eff8fc9e7271ae9bd77cbfb3f3be53997afd0922f 0xae5fa3da 16)) IGNORE [].

(* block/honest=ACCEPT  [honest, world small, head genesis@0, clock 7000 ms] *)
Definition w_blk : gcase :=
  GC (Build_facts (Build_config 8 16 1 32) 1 1 [] [] [] [(1,0xae5fa3da)] [(1,0xae5fa3da0d9e2fa29ed668e118d7faf6f8e4fe89ce3e744878dafb80)] (Some 1) [(0x4ea043517e39b5ea470f8737da4fc12df7a8562d328b0282395845f7ccdacacc,1)] [] [(0x4ea043517e39b5ea470f8737da4fc12df7a8562d328b0282395845f7ccdacacc,0x4ea043517e39b5ea470f8737da4fc12df7a8562d328b0282395845f7ccdacacc,(false,true))] (0,0x4ea043517e39b5ea470f8737da4fc12df7a8562d328b0282395845f7ccdacacc) [(0x4ea043517e39b5ea470f8737da4fc12df7a8562d328b0282395845f7ccdacacc,0,1)] [(1,Build_efacts 0 true true 0 [] [] [(1,49)] None [(49,50)] 64 [] [] [])] [(1,Build_sfacts true false 1733179670394860580 [50] 0xfd353120e2d5c30ae37bb929ea7ec43d283c090bb09120ea457d6b7ab0c3519a)]) (MBlock (Build_block_envelope 1 49 0x4ea043517e39b5ea470f8737da4fc12df7a8562d328b0282395845f7ccdacacc 0x1f063ebef5df9939fbfab5d41a537d1274058ef4358d7cd8f8430f7a742004b2 0xae5fa3da 1)) ACCEPT [MkBlock 1 49].

(* sync/message-of-previous-slot=IGNORE  [message-of-previous-slot, world small, head m17@17, clock 112000 ms] *)
Definition w_sync_prev : gcase :=
  GC (Build_facts (Build_config 8 16 1 32) 18 18 [] [] [(7,2,0x7000000765c87d39dfcacdfda5991d97166a5dbbb9721148acdcb9b3e0f5d53)] [] [] (Some 1) [] [(0x2955c99696c67419d7e32d574e2d55e4815265b4115f8d480c3f328d734d79a,17,1)] [] (0,0x4ea043517e39b5ea470f8737da4fc12df7a8562d328b0282395845f7ccdacacc) [] [(1,Build_efacts 17 true true 2 [] [] [] (Some [24;4;46;28;52;27;55;26;14;35;51;63;34;11;5;32;29;33;38;59;53;1;6;16;31;39;60;40;20;62;57;0]) [(1,2)] 64 [] [] [])] [(1398,Build_sfacts true false 2373762775139880284 [2] 0x85b3213c9082d34217e397e19d9361a5164494a0f16b683d7478f11f8ee50f9)]) (MSyncMessage 2 (Build_sync_message 17 0x2955c99696c67419d7e32d574e2d55e4815265b4115f8d480c3f328d734d79a 1 1398)) IGNORE [].

(* sync/honest=ACCEPT  [honest, world small, head m17@17, clock 106000 ms] *)
Definition w_sync : gcase :=
  GC (Build_facts (Build_config 8 16 1 32) 17 17 [] [] [(7,2,0x7000000765c87d39dfcacdfda5991d97166a5dbbb9721148acdcb9b3e0f5d53)] [] [] (Some 1) [] [(0x2955c99696c67419d7e32d574e2d55e4815265b4115f8d480c3f328d734d79a,17,1)] [] (0,0x4ea043517e39b5ea470f8737da4fc12df7a8562d328b0282395845f7ccdacacc) [] [(1,Build_efacts 17 true true 2 [] [] [] (Some [24;4;46;28;52;27;55;26;14;35;51;63;34;11;5;32;29;33;38;59;53;1;6;16;31;39;60;40;20;62;57;0]) [(24,25)] 64 [] [] [])] [(1380,Build_sfacts true false 17958657546294306972 [25] 0x85b3213c9082d34217e397e19d9361a5164494a0f16b683d7478f11f8ee50f9)]) (MSyncMessage 0 (Build_sync_message 17 0x2955c99696c67419d7e32d574e2d55e4815265b4115f8d480c3f328d734d79a 24 1380)) ACCEPT [MkSyncCommMsg 24 17 0].

(* contrib/contribution-of-previous-slot=IGNORE  [contribution-of-previous-slot, world small, head m17@17, clock 112500 ms] *)
Definition w_ctr_prev : gcase :=
  GC (Build_facts (Build_config 8 16 1 32) 18 18 [] [] [(7,2,0x7000000765c87d39dfcacdfda5991d97166a5dbbb9721148acdcb9b3e0f5d53); (8,2,0x8000000765c87d39dfcacdfda5991d97166a5dbbb9721148acdcb9b3e0f5d53); (9,2,0x9000000765c87d39dfcacdfda5991d97166a5dbbb9721148acdcb9b3e0f5d53)] [] [] (Some 1) [] [(0x2955c99696c67419d7e32d574e2d55e4815265b4115f8d480c3f328d734d79a,17,1)] [] (0,0x4ea043517e39b5ea470f8737da4fc12df7a8562d328b0282395845f7ccdacacc) [] [(1,Build_efacts 17 true true 2 [] [] [] (Some [24;4;46;28;52;27;55;26;14;35;51;63;34;11;5;32;29;33;38;59;53;1;6;16;31;39;60;40;20;62;57;0]) [(11,12); (14,15); (32,33); (34,35); (35,36); (5,6); (51,52); (63,64)] 64 [] [] [])] [(1503,Build_sfacts true false 905401431597517128 [15] 0x2e8c3c8fe2e65dbd740b31fb3751918891bd37f8041854ac789d98bc4bb1ed47); (1539,Build_sfacts true false 5513807095808587058 [6;12;15;33;35;36;52;64] 0x85b3213c9082d34217e397e19d9361a5164494a0f16b683d7478f11f8ee50f9); (1564,Build_sfacts true false 4334411934564130825 [15] 0x22c9323a19ffa64f5096947aeaf168281d36e4fd4fc029c38a86fb79e05db0f0)]) (MContribution (Build_signed_contribution (Build_contribution_and_proof 14 (Build_contribution 17 0x2955c99696c67419d7e32d574e2d55e4815265b4115f8d480c3f328d734d79a 1 [true;true;true;true;true;true;true;true] 1539) 1503 0xbaeb4f293e531a5f0c6df606375034fb156eb504fd21ddb7f3d88e0ff23d468a) 1564)) IGNORE [].

(* contrib/single-participant=ACCEPT  [single-participant, world small, head m17@17, clock 106500 ms] *)
Definition w_ctr_single : gcase :=
  GC (Build_facts (Build_config 8 16 1 32) 17 17 [] [] [(7,2,0x7000000765c87d39dfcacdfda5991d97166a5dbbb9721148acdcb9b3e0f5d53); (8,2,0x8000000765c87d39dfcacdfda5991d97166a5dbbb9721148acdcb9b3e0f5d53); (9,2,0x9000000765c87d39dfcacdfda5991d97166a5dbbb9721148acdcb9b3e0f5d53)] [] [] (Some 1) [] [(0x2955c99696c67419d7e32d574e2d55e4815265b4115f8d480c3f328d734d79a,17,1)] [] (0,0x4ea043517e39b5ea470f8737da4fc12df7a8562d328b0282395845f7ccdacacc) [] [(1,Build_efacts 17 true true 2 [] [] [] (Some [24;4;46;28;52;27;55;26;14;35;51;63;34;11;5;32;29;33;38;59;53;1;6;16;31;39;60;40;20;62;57;0]) [(11,12); (14,15); (32,33); (34,35); (35,36); (5,6); (51,52); (63,64)] 64 [] [] [])] [(1386,Build_sfacts true false 9077548559744971584 [15] 0x85b3213c9082d34217e397e19d9361a5164494a0f16b683d7478f11f8ee50f9); (1503,Build_sfacts true false 905401431597517128 [15] 0x2e8c3c8fe2e65dbd740b31fb3751918891bd37f8041854ac789d98bc4bb1ed47); (1550,Build_sfacts true false 4423429122132695366 [15] 0x5882566c2193e78958d9e6cd3c61c5be39d07784e1edbdea7cd1c0aeed95ea23)]) (MContribution (Build_signed_contribution (Build_contribution_and_proof 14 (Build_contribution 17 0x2955c99696c67419d7e32d574e2d55e4815265b4115f8d480c3f328d734d79a 1 [true;false;false;false;false;false;false;false] 1386) 1503 0x7af65aa7696cb93ffc34367966897a048519988ac41fa0a6132613812c3d250c) 1550)) ACCEPT [MkContribution 14 17 1].

(* contrib/honest=ACCEPT  [honest, world small, head m17@17, clock 106500 ms] *)
Definition w_ctr : gcase :=
  GC (Build_facts (Build_config 8 16 1 32) 17 17 [] [] [(7,2,0x7000000765c87d39dfcacdfda5991d97166a5dbbb9721148acdcb9b3e0f5d53); (8,2,0x8000000765c87d39dfcacdfda5991d97166a5dbbb9721148acdcb9b3e0f5d53); (9,2,0x9000000765c87d39dfcacdfda5991d97166a5dbbb9721148acdcb9b3e0f5d53)] [] [] (Some 1) [] [(0x2955c99696c67419d7e32d574e2d55e4815265b4115f8d480c3f328d734d79a,17,1)] [] (0,0x4ea043517e39b5ea470f8737da4fc12df7a8562d328b0282395845f7ccdacacc) [] [(1,Build_efacts 17 true true 2 [] [] [] (Some [24;4;46;28;52;27;55;26;14;35;51;63;34;11;5;32;29;33;38;59;53;1;6;16;31;39;60;40;20;62;57;0]) [(24,25); (26,27); (27,28); (28,29); (4,5); (46,47); (52,53); (55,56)] 64 [] [] [])] [(1491,Build_sfacts true false 16909009110242025934 [25] 0x1e23823fe85f4bc2a419936c14cdacd9bc6d14ff9a7382806f2133c3573a5450); (1492,Build_sfacts true false 9128724097604856716 [5;25;27;28;29;47;53;56] 0x85b3213c9082d34217e397e19d9361a5164494a0f16b683d7478f11f8ee50f9); (1493,Build_sfacts true false 13022621498228847227 [25] 0x7c6c1507c66516b7bab18fc93601447f9640dc65331cd7d0ac053ea7446a9ce)]) (MContribution (Build_signed_contribution (Build_contribution_and_proof 24 (Build_contribution 17 0x2955c99696c67419d7e32d574e2d55e4815265b4115f8d480c3f328d734d79a 0 [true;true;true;true;true;true;true;true] 1492) 1491 0x97392876ee198f8a021d81a7adbfadd16fe252855b2df10c4fab48354b6afa2a) 1493)) ACCEPT [MkContribution 24 17 0].

(* exit/honest=ACCEPT  [honest, world small, head m12@12, clock 75000 ms] *)
Definition w_exit : gcase :=
  GC (Build_facts (Build_config 8 16 1 32) 12 12 [] [] [] [] [] (Some 1) [] [] [] (0,0x4ea043517e39b5ea470f8737da4fc12df7a8562d328b0282395845f7ccdacacc) [] [(1,Build_efacts 12 true true 1 [] [] [] None [(0,1)] 64 [(0,Build_vrec false 0 18446744073709551615 18446744073709551615)] [(4,1,0x4000000ae5fa3da0d9e2fa29ed668e118d7faf6f8e4fe89ce3e744878dafb80)] [])] [(88,Build_sfacts true false 2902755315500122046 [1] 0xd6499ed050241980c8ba29e2f436a1de00b28726b9772be0eb2a578360642dd2)]) (MExit (Build_voluntary_exit 1 0 0x16abab341fb7f370e27e4dadcf81766dd0dfd0ae64469477bb2cf6614938b2af 88)) ACCEPT [MkExit 0].

(* propsl/honest=ACCEPT  [honest, world small, head m3@3, clock 21000 ms] *)
Definition w_propsl : gcase :=
  GC (Build_facts (Build_config 8 16 1 32) 3 3 [] [] [] [] [] (Some 1) [] [] [] (0,0x4ea043517e39b5ea470f8737da4fc12df7a8562d328b0282395845f7ccdacacc) [] [(1,Build_efacts 3 true true 0 [] [] [] None [(0,1)] 64 [(0,Build_vrec false 0 18446744073709551615 18446744073709551615)] [(0,0,0xae5fa3da0d9e2fa29ed668e118d7faf6f8e4fe89ce3e744878dafb80)] [])] [(136,Build_sfacts true false 17899253221491813524 [1] 0x20d2f2514c40599fd56886d13bae941a8f246ea9cf73a8adc0cbe264e813d528); (137,Build_sfacts true false 17823581947853897284 [1] 0x5b644beb8ca360c6e9310dea80a8a71bde2e3c065b321985c554dbea01c4f414)]) (MProposerSlashing (Build_proposer_slashing (Build_signed_header (Build_header 0 0 0x100000000000000000000000000000000000000000000000000000000000000 0x200000000000000000000000000000000000000000000000000000000000000 0x300000000000000000000000000000000000000000000000000000000000000 0xc087a474e33129e322f4cb6a587e04c53b855d89e4c53ba73e272cb10758b88e) 136) (Build_signed_header (Build_header 0 0 0x100000000000000000000000000000000000000000000000000000000000000 0x200000000000000000000000000000000000000000000000000000000000000 0x400000000000000000000000000000000000000000000000000000000000000 0xebd2995027bd20502492428c2041aec19e20f948fe306720a2605f86f853a36f) 137))) ACCEPT [MkProposerSlashing 0].

(* attsl/honest-double=ACCEPT  [honest-double, world small, head m3@3, clock 21000 ms] *)
Definition w_attsl : gcase :=
  GC (Build_facts (Build_config 8 16 1 32) 3 3 [] [] [] [] [] (Some 1) [] [] [] (0,0x4ea043517e39b5ea470f8737da4fc12df7a8562d328b0282395845f7ccdacacc) [] [(1,Build_efacts 3 true true 0 [] [] [] None [(10,11); (11,12); (12,13); (13,14); (15,16); (19,20)] 64 [(10,Build_vrec false 0 18446744073709551615 18446744073709551615); (11,Build_vrec false 0 18446744073709551615 18446744073709551615); (12,Build_vrec false 0 18446744073709551615 18446744073709551615); (13,Build_vrec false 0 18446744073709551615 18446744073709551615); (15,Build_vrec false 0 18446744073709551615 18446744073709551615); (19,Build_vrec false 0 18446744073709551615 18446744073709551615)] [(1,0,0x1000000ae5fa3da0d9e2fa29ed668e118d7faf6f8e4fe89ce3e744878dafb80)] [])] [(284,Build_sfacts true false 1802047858225599730 [11;12;13;16] 0xa5e708a875f73395b26d74dc62b0d58fc8fe4e8dfe3b21c80d23eb37758550d7); (285,Build_sfacts true false 15636397117511170665 [12;13;14;16;20] 0xebecbc1e97b8df895b6214c3a8d336b044bfd017c68659f6f8903d2741e973e6)]) (MAttesterSlashing (Build_attester_slashing (Build_indexed_att [10;11;12;15] (Build_att_data 9 0 0x700000000000000000000000000000000000000000000000000000000000000 (Build_checkpoint 0 0x800000000000000000000000000000000000000000000000000000000000000) (Build_checkpoint 0 0x900000000000000000000000000000000000000000000000000000000000000) 0xea80422e87db32e7f2061677be64860863250b965c0edbbb5479f2afb6ef345f) 284) (Build_indexed_att [11;12;13;15;19] (Build_att_data 9 0 0xa00000000000000000000000000000000000000000000000000000000000000 (Build_checkpoint 0 0x800000000000000000000000000000000000000000000000000000000000000) (Build_checkpoint 0 0x900000000000000000000000000000000000000000000000000000000000000) 0x542f2c547fec571705c3e919b8277d5ea178cdc56daa604c491558925cf3db06) 285))) ACCEPT [MkAttesterSlashings [11;12;15]].

(* ---------- accessors ---------- *)
Definition conds (x : gcase) : list cond := match x with GC f m _ _ => conditions_of f m end.
Definition run (vr : variant) (x : gcase) : result := match x with GC f m _ _ => run_impl vr f m end.
Definition go_result (x : gcase) : result := match x with GC _ _ v ms => (v, ms) end.

(* the repaired code with ONE repair left out *)
Definition without_fix1 : variant :=   (* C12-1: outer aggregate signature over sigRoot[:2] *)
  {| agg_outer_sig_prefix := Some 2%nat; block_mark_early := false; sync_span := 0; agg_lmd_checks := true; exact_target := true; sync_bits_as_bitlist := false |}.
Definition without_fix2 : variant :=   (* C12-2: MarkBlock before the proposer check *)
  {| agg_outer_sig_prefix := None; block_mark_early := true; sync_span := 0; agg_lmd_checks := true; exact_target := true; sync_bits_as_bitlist := false |}.
Definition without_fix3 : variant :=   (* C12-3: CheckSlotSpan(..., 1) in the sync validators *)
  {| agg_outer_sig_prefix := None; block_mark_early := false; sync_span := 1; agg_lmd_checks := true; exact_target := true; sync_bits_as_bitlist := false |}.
Definition without_fix4 : variant :=   (* C12-4 (and C12-5, which builds on it): aggregates without the LMD-vote checks *)
  {| agg_outer_sig_prefix := None; block_mark_early := false; sync_span := 0; agg_lmd_checks := false; exact_target := false; sync_bits_as_bitlist := false |}.
Definition without_fix5 : variant :=   (* C12-5: any ancestor accepted as target *)
  {| agg_outer_sig_prefix := None; block_mark_early := false; sync_span := 0; agg_lmd_checks := true; exact_target := false; sync_bits_as_bitlist := false |}.
Definition without_fix6 : variant :=   (* C12-6: SyncCommitteeSubnetBits.OnesCount through BitlistOnesCount *)
  {| agg_outer_sig_prefix := None; block_mark_early := false; sync_span := 0; agg_lmd_checks := true; exact_target := true; sync_bits_as_bitlist := true |}.

Definition accepted (r : result) : bool := verdict_eqb (fst r) ACCEPT.
Definition rejected (r : result) : bool := verdict_eqb (fst r) REJECT.
Definition ignored (r : result) : bool := verdict_eqb (fst r) IGNORE.
Definition marked (r : result) : bool := match snd r with [] => false | _ => true end.

(* every witness is a case the Go harness produced; the repaired code (model AND Go) gives the recorded verdict *)
Lemma witnesses_agree :
  forallb (fun x => impl_ok x && spec_ok x)
    [w_agg; w_agg_branch; w_att; w_att_older; w_blk_impostor; w_blk_timeout; w_blk; w_sync_prev; w_sync;
     w_ctr_prev; w_ctr_single; w_ctr; w_exit; w_propsl; w_attsl] = true.
Proof. vm_compute. reflexivity. Qed.

(* C12-1: an honest aggregate satisfies every condition and is REJECTed when the outer signature is checked over 2 bytes *)
Lemma aggregate_outer_sig_witness :
  all_conditions (conds w_agg) = true /\ accepted (run fixed w_agg) = true /\
  rejected (run without_fix1 w_agg) = true /\ rejected (run orig w_agg) = true.
Proof. vm_compute. repeat split; reflexivity. Qed.

(* C12-2: a correctly signed block by somebody who is not the slot's proposer is REJECTed but has marked the seen-cache;
   a block whose proposer cannot be verified yet (Towards timed out) is IGNOREd but has marked the seen-cache *)
Lemma block_mark_witness :
  rejected (run without_fix2 w_blk_impostor) = true /\ marked (run without_fix2 w_blk_impostor) = true /\
  marked (run fixed w_blk_impostor) = false /\
  ignored (run without_fix2 w_blk_timeout) = true /\ marked (run without_fix2 w_blk_timeout) = true /\
  marked (run fixed w_blk_timeout) = false /\ marked (run orig w_blk_timeout) = true.
Proof. vm_compute. repeat split; reflexivity. Qed.

(* C12-3: a sync committee message / contribution of the previous slot violates the current-slot condition and is ACCEPTed *)
Lemma sync_previous_slot_witness :
  all_conditions (conds w_sync_prev) = false /\ accepted (run without_fix3 w_sync_prev) = true /\
  accepted (run orig w_sync_prev) = true /\ ignored (run fixed w_sync_prev) = true /\
  all_conditions (conds w_ctr_prev) = false /\ accepted (run without_fix3 w_ctr_prev) = true /\
  ignored (run fixed w_ctr_prev) = true.
Proof. vm_compute. repeat split; reflexivity. Qed.

(* C12-4: an aggregate whose target is on another branch than the voted block (same shuffling) is ACCEPTed *)
Lemma aggregate_target_branch_witness :
  all_conditions (conds w_agg_branch) = false /\ no_reject_fails (conds w_agg_branch) = false /\
  accepted (run without_fix4 w_agg_branch) = true /\ rejected (run fixed w_agg_branch) = true.
Proof. vm_compute. repeat split; reflexivity. Qed.

(* C12-5: an attestation whose target is an older ancestor than the checkpoint block of the vote is ACCEPTed *)
Lemma attestation_target_checkpoint_witness :
  all_conditions (conds w_att_older) = false /\ no_reject_fails (conds w_att_older) = false /\
  accepted (run without_fix5 w_att_older) = true /\ accepted (run orig w_att_older) = true /\
  rejected (run fixed w_att_older) = true.
Proof. vm_compute. repeat split; reflexivity. Qed.

(* C12-6: a contribution with a single participant satisfies every condition and is REJECTed as "no participants" *)
Lemma contribution_single_participant_witness :
  all_conditions (conds w_ctr_single) = true /\ accepted (run fixed w_ctr_single) = true /\
  rejected (run without_fix6 w_ctr_single) = true /\ rejected (run orig w_ctr_single) = true.
Proof. vm_compute. repeat split; reflexivity. Qed.

(* ---------- non-vacuity: a backend that meets every hypothesis of the theorems, with ACCEPTed messages ---------- *)
Definition toy_validator : vrec := {| v_slashed := false; v_activation := 0; v_exit := FAR_FUTURE_EPOCH; v_withdrawable := FAR_FUTURE_EPOCH |}.
Definition toy : backend :=
  {| cfg := {| SLOTS_PER_EPOCH := 8; MAX_VALIDATORS_PER_COMMITTEE := 16; SHARD_COMMITTEE_PERIOD := 1; SYNC_COMMITTEE_SIZE := 32 |};
     slot_after := fun _ => 9;
     seen_exit := fun _ => false; seen_proposer_slashing := fun _ => false; attester_slashable_all_seen := fun _ => false;
     seen_attestation := fun _ _ => false; seen_aggregate := fun _ => false; seen_aggregator := fun _ _ => false;
     seen_block := fun _ _ => false; seen_sync_msg := fun _ _ _ => false; seen_contribution := fun _ _ _ => false;
     is_bad_block := fun _ => false;
     get_domain := fun _ _ => Some 7; fork_digest_at := fun _ => 5; proposer_domain_at := fun _ => 6;
     head_info := Some 1; by_block := fun _ => Some 1; by_block_slot := fun _ _ => Some 1;
     in_subtree := fun _ _ => (false, true); finalized := (0, 11); towards := fun _ _ => Some 1;
     entry_slot := fun _ => 8; epc_avail := fun _ => true; state_avail := fun _ => true; epc_epoch := fun _ => 1;
     committee_count := fun _ _ => Some 2;
     committee := fun _ _ i => if i <? 2 then Some [3; 4] else None;
     proposer_at := fun _ _ => Some 3;
     sync_committee := fun _ => Some (repeat 3 32);
     pubkey_of := fun _ i => Some i; validator_count := fun _ => 64;
     validator := fun _ i => if i <? 64 then Some toy_validator else None;
     state_domain := fun _ _ _ => 7; block_root_at := fun _ _ => Some 11;
     H := fun x => x; verify := fun _ _ _ => true; fast_aggregate_verify := fun _ _ _ => true;
     sig_ok := fun _ => true; sig_is_infinity := fun _ => false; sel_hash := fun _ => 0 |}.

Definition toy_data : att_data :=
  {| ad_slot := 9; ad_index := 0; ad_bbr := 11; ad_source := {| cp_epoch := 0; cp_root := 11 |};
     ad_target := {| cp_epoch := 1; cp_root := 11 |}; ad_htr := 12 |}.
Definition toy_attestation : attestation := {| a_bits := [true; false]; a_data := toy_data; a_sig := 1 |}.
Definition toy_aggregate : signed_aggregate :=
  {| sa_msg := {| ap_aggregator := 3; ap_aggregate := {| a_bits := [true; true]; a_data := toy_data; a_sig := 1 |};
                  ap_selection := 2; ap_htr := 13; ap_agg_htr := 14 |}; sa_sig := 3 |}.
Definition toy_block : block_envelope := {| b_slot := 9; b_proposer := 3; b_parent := 11; b_root := 15; b_digest := 5; b_sig := 4 |}.
Definition toy_exit : voluntary_exit := {| ex_epoch := 1; ex_index := 5; ex_htr := 16; ex_sig := 5 |}.
Definition toy_sync : sync_message := {| sm_slot := 9; sm_bbr := 11; sm_index := 3; sm_sig := 6 |}.

Lemma toy_hypotheses :
  cfg_wf (cfg toy) /\ exit_bounds toy /\ counts_wf toy /\ committee_coherent toy /\ registry_coherent toy /\ fin_wf toy /\
  att_wf toy_data.
Proof.
  split; [split; reflexivity|].
  split; [intros h _; reflexivity|].
  split; [intros e ep n H; injection H as <-; reflexivity|].
  split.
  { intros e s i cm H. exists 2. split; [reflexivity|]. cbn in H. destruct (i <? 2) eqn:E; [|discriminate].
    apply N.ltb_lt. exact E. }
  split.
  { intros h i Hi. cbn in *. apply N.ltb_lt in Hi. rewrite Hi. discriminate. }
  split; [reflexivity|]. split; reflexivity.
Qed.

Lemma toy_accepts :
  all_conditions (attestation_conditions toy 2 toy_attestation) = true /\
  validate_attestation toy 2 toy_attestation = (ACCEPT, [MkAttestation 1 3]) /\
  all_conditions (aggregate_conditions toy toy_aggregate) = true /\
  fst (validate_aggregate toy toy_aggregate) = ACCEPT /\
  all_conditions (block_conditions toy toy_block) = true /\
  validate_block toy toy_block = (ACCEPT, [MkBlock 9 3]) /\
  all_conditions (voluntary_exit_conditions toy toy_exit) = true /\
  validate_voluntary_exit toy toy_exit = (ACCEPT, [MkExit 5]) /\
  all_conditions (sync_message_conditions toy 0 toy_sync) = true /\
  validate_sync_message toy 0 toy_sync = (ACCEPT, [MkSyncCommMsg 3 9 0]).
Proof. vm_compute. repeat split; reflexivity. Qed.
