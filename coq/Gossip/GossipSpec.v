(* C12 — Spec: the gossip validation conditions of the networking specification
   (consensus-specs phase0/p2p-interface.md and altair/p2p-interface.md), per topic, each tagged
   [REJECT] or [IGNORE], evaluated on the same backend record as the Impl model.  NO proofs here.

   Written from the specification text, independently of GossipModel.v (only the message/backend types,
   the byte encoders and the signing-root helper are shared).  Three origins of a condition:
     P2P    a bullet of the p2p specification
     Extra  a condition zrnt adds (never loosens a verdict towards ACCEPT)
     Avail  the node can evaluate the bullets against its chain view (data available); always [IGNORE]
   A bullet that needs data the chain view cannot provide is vacuous (`on None _ = true`): the
   matching Avail condition fails instead.  Spec arithmetic is the pyspec's checked uint64
   arithmetic: a sum or product that is not representable makes the condition fail. *)
From Coq Require Import NArith ZArith List Bool String.
From V Require Import Base.U64 Base.Outcome Math.MathModel Gossip.GossipModel.
Import ListNotations.
Local Open Scope N_scope.

Inductive tag := TIgnore | TReject.
Inductive origin := P2P | Extra | Avail.
Record cond := { c_name : string; c_origin : origin; c_tag : tag; c_ok : bool }.
Definition mk (n : string) (o : origin) (t : tag) (ok : bool) : cond :=
  {| c_name := n; c_origin := o; c_tag := t; c_ok := ok |}.
Arguments mk n%string o t ok.
Definition is_ignore (t : tag) : bool := match t with TIgnore => true | TReject => false end.

Definition all_conditions (cs : list cond) : bool := forallb c_ok cs.
Definition some_condition_fails (cs : list cond) : bool := existsb (fun c => negb (c_ok c)) cs.
(* at least one condition fails and every failing one is an [IGNORE] condition *)
Definition only_ignore_conditions_fail (cs : list cond) : bool :=
  some_condition_fails cs && forallb (fun c => c_ok c || is_ignore (c_tag c)) cs.
Definition failing (cs : list cond) : list string := map c_name (filter (fun c => negb (c_ok c)) cs).

Definition on {A} (o : option A) (f : A -> bool) : bool := match o with Some a => f a | None => true end.
Definition is_some {A} (o : option A) : bool := match o with Some _ => true | None => false end.


Section Spec.
  Variable b : backend.
  Local Notation c := (cfg b).

  (* ---------- pyspec helpers ---------- *)
  Definition compute_epoch_at_slot (s : N) : N := s / SLOTS_PER_EPOCH c.
  (* checked: None when not representable *)
  Definition compute_start_slot_at_epoch (e : N) : option N :=
    let r := e * SLOTS_PER_EPOCH c in if r <? two64 then Some r else None.
  Definition compute_signing_root (obj : bytes) (dom : N) : bytes := H b (obj ++ root_bytes dom).

  Definition is_active_validator (v : vrec) (epoch : N) : bool := (v_activation v <=? epoch) && (epoch <? v_exit v).
  Definition is_slashable_validator (v : vrec) (epoch : N) : bool :=
    negb (v_slashed v) && (v_activation v <=? epoch) && (epoch <? v_withdrawable v).

  (* clock conditions, with the MAXIMUM_GOSSIP_CLOCK_DISPARITY allowance on both sides *)
  Definition earliest_slot : N := slot_after b (- DISPARITY_MS)%Z.   (* current_slot as seen by a clock 500 ms behind *)
  Definition latest_slot : N := slot_after b DISPARITY_MS.           (* current_slot as seen by a clock 500 ms ahead *)
  (* slot + range >= current_slot >= slot *)
  Definition within_propagation_range (slot : N) : bool :=
    (slot + ATTESTATION_PROPAGATION_SLOT_RANGE <? two64) &&
    (earliest_slot <=? slot + ATTESTATION_PROPAGATION_SLOT_RANGE) && (slot <=? latest_slot).
  (* slot == current_slot *)
  Definition is_current_slot (slot : N) : bool := (earliest_slot <=? slot) && (slot <=? latest_slot).
  (* slot <= current_slot *)
  Definition not_from_future (slot : N) : bool := slot <=? latest_slot.

  (* ---------- process_voluntary_exit ---------- *)
  Definition process_voluntary_exit_ok (st : entry) (m : voluntary_exit) : bool :=
    let cur := epc_epoch b st in
    (ex_index m <? validator_count b st) &&
    match validator b st (ex_index m) with
    | None => false
    | Some v =>
      is_active_validator v cur &&
      (v_exit v =? FAR_FUTURE_EPOCH) &&
      (ex_epoch m <=? cur) &&
      (v_activation v + SHARD_COMMITTEE_PERIOD c <=? cur) &&
      match pubkey_of b st (ex_index m) with
      | None => false
      | Some pk =>
        sig_ok b (ex_sig m) &&
        verify b pk (compute_signing_root (root_bytes (ex_htr m)) (state_domain b st DVoluntaryExit (ex_epoch m))) (ex_sig m)
      end
    end.

  Definition voluntary_exit_conditions (m : voluntary_exit) : list cond :=
    [ mk "first valid exit for the validator index" P2P TIgnore (negb (seen_exit b (ex_index m)));
      mk "head state available" Avail TIgnore (is_some (head_info b));
      mk "process_voluntary_exit passes" P2P TReject (on (head_info b) (fun st => process_voluntary_exit_ok st m)) ].

  (* ---------- process_proposer_slashing ---------- *)
  Definition header_differs (x y : header) : bool :=
    negb ((h_slot x =? h_slot y) && (h_proposer x =? h_proposer y) && (h_parent x =? h_parent y) &&
          (h_state x =? h_state y) && (h_body x =? h_body y)).
  Definition proposer_slashing_static (ps : proposer_slashing) : bool :=
    let h1 := sh_msg (ps_1 ps) in let h2 := sh_msg (ps_2 ps) in
    (h_slot h1 =? h_slot h2) && (h_proposer h1 =? h_proposer h2) && header_differs h1 h2.
  Definition header_signature_ok (st : entry) (pk : pubkey) (sh : signed_header) : bool :=
    let dom := state_domain b st DBeaconProposer (compute_epoch_at_slot (h_slot (sh_msg sh))) in
    sig_ok b (sh_sig sh) && verify b pk (compute_signing_root (root_bytes (h_htr (sh_msg sh))) dom) (sh_sig sh).
  Definition proposer_slashing_dynamic (st : entry) (ps : proposer_slashing) : bool :=
    let p := h_proposer (sh_msg (ps_1 ps)) in
    (p <? validator_count b st) &&
    match validator b st p, pubkey_of b st p with
    | Some v, Some pk =>
      is_slashable_validator v (epc_epoch b st) &&
      header_signature_ok st pk (ps_1 ps) && header_signature_ok st pk (ps_2 ps)
    | _, _ => false
    end.

  Definition proposer_slashing_conditions (ps : proposer_slashing) : list cond :=
    [ mk "first valid proposer slashing for the proposer index" P2P TIgnore
         (negb (seen_proposer_slashing b (h_proposer (sh_msg (ps_1 ps)))));
      mk "head state available" Avail TIgnore (is_some (head_info b));
      mk "process_proposer_slashing passes" P2P TReject
         (proposer_slashing_static ps && on (head_info b) (fun st => proposer_slashing_dynamic st ps)) ].

  (* ---------- is_valid_indexed_attestation, process_attester_slashing ---------- *)
  Definition data_equal (x y : att_data) : bool :=
    (ad_slot x =? ad_slot y) && (ad_index x =? ad_index y) && (ad_bbr x =? ad_bbr y) &&
    (cp_epoch (ad_source x) =? cp_epoch (ad_source y)) && (cp_root (ad_source x) =? cp_root (ad_source y)) &&
    (cp_epoch (ad_target x) =? cp_epoch (ad_target y)) && (cp_root (ad_target x) =? cp_root (ad_target y)).
  Definition is_slashable_attestation_data_spec (d1 d2 : att_data) : bool :=
    (negb (data_equal d1 d2) && (cp_epoch (ad_target d1) =? cp_epoch (ad_target d2))) ||
    ((cp_epoch (ad_source d1) <? cp_epoch (ad_source d2)) && (cp_epoch (ad_target d2) <? cp_epoch (ad_target d1))).

  (* indices == sorted(set(indices)) *)
  Fixpoint strictly_increasing (l : list N) : bool :=
    match l with
    | x :: ((y :: _) as t) => (x <? y) && strictly_increasing t
    | _ => true
    end.
  (* the static half: non-empty, sorted, unique (and within the SSZ list limit) *)
  Definition indexed_attestation_static (ia : indexed_att) : bool :=
    negb (lenN (ia_indices ia) =? 0) && strictly_increasing (ia_indices ia) &&
    (lenN (ia_indices ia) <=? MAX_VALIDATORS_PER_COMMITTEE c).
  Fixpoint validator_pubkeys (st : entry) (l : list N) : option (list pubkey) :=
    match l with
    | [] => Some []
    | i :: t =>
      if i <? validator_count b st then
        match pubkey_of b st i, validator_pubkeys st t with
        | Some pk, Some r => Some (pk :: r)
        | _, _ => None
        end
      else None
    end.
  Definition indexed_attestation_signature (st : entry) (ia : indexed_att) : bool :=
    match validator_pubkeys st (ia_indices ia) with
    | None => false
    | Some pks =>
      let dom := state_domain b st DBeaconAttester (cp_epoch (ad_target (ia_data ia))) in
      sig_ok b (ia_sig ia) &&
      fast_aggregate_verify b pks (compute_signing_root (root_bytes (ad_htr (ia_data ia))) dom) (ia_sig ia)
    end.
  Definition is_valid_indexed_attestation (st : entry) (ia : indexed_att) : bool :=
    indexed_attestation_static ia && indexed_attestation_signature st ia.

  Definition intersection (l1 l2 : list N) : list N := filter (fun i => memN i l2) l1.
  Definition any_slashable (st : entry) (l : list N) : bool :=
    existsb (fun i => match validator b st i with
                      | Some v => is_slashable_validator v (epc_epoch b st)
                      | None => false end) l.

  Definition attester_slashing_static (sl : attester_slashing) : bool :=
    is_slashable_attestation_data_spec (ia_data (as_1 sl)) (ia_data (as_2 sl)) &&
    indexed_attestation_static (as_1 sl) && indexed_attestation_static (as_2 sl).
  Definition attester_slashing_dynamic (st : entry) (sl : attester_slashing) : bool :=
    indexed_attestation_signature st (as_1 sl) && indexed_attestation_signature st (as_2 sl) &&
    any_slashable st (intersection (ia_indices (as_1 sl)) (ia_indices (as_2 sl))).

  Definition attester_slashing_conditions (sl : attester_slashing) : list cond :=
    [ mk "some index of the intersection not seen in a prior attester slashing" P2P TIgnore
         (negb (attester_slashable_all_seen b (intersection (ia_indices (as_1 sl)) (ia_indices (as_2 sl)))));
      mk "head state available" Avail TIgnore (is_some (head_info b));
      mk "process_attester_slashing passes" P2P TReject
         (attester_slashing_static sl && on (head_info b) (fun st => attester_slashing_dynamic st sl)) ].

  (* ---------- attestations: shared ---------- *)
  (* get_checkpoint_block(store, root, epoch): the block at or before the epoch's start slot on root's chain,
     read from the block's own post-state history (exact for SLOTS_PER_HISTORICAL_ROOT slots back);
     None = the chain view cannot tell *)
  Definition get_checkpoint_block (blk_root : root) (epoch : N) : option root :=
    match by_block b blk_root, compute_start_slot_at_epoch epoch with
    | Some blk, Some s =>
      if entry_slot b blk <=? s then Some blk_root
      else if state_avail b blk then block_root_at b blk s else None
    | _, _ => None
    end.

  Definition attesting_indices (bits : list bool) (comm : list N) : list N :=
    map snd (filter fst (combine bits comm)).
  (* committees_per_slot * (slot % SLOTS_PER_EPOCH) + committee_index) % ATTESTATION_SUBNET_COUNT, checked *)
  Definition compute_subnet_for_attestation (cps slot index : N) : option N :=
    let x := cps * (slot mod SLOTS_PER_EPOCH c) + index in
    if (cps * SLOTS_PER_EPOCH c <? two64) && (x <? two64) then Some (x mod ATTESTATION_SUBNET_COUNT) else None.

  (* the state the committee/shuffling conditions are evaluated in: the target checkpoint state *)
  Definition target_state (d : att_data) : option entry :=
    match compute_start_slot_at_epoch (cp_epoch (ad_target d)) with
    | Some s =>
      match towards b (cp_root (ad_target d)) s with
      | Some e => if epc_avail b e then Some e else None
      | None => None
      end
    | None => None
    end.

  Definition lmd_known (d : att_data) : bool := is_some (by_block b (ad_bbr d)).
  Definition target_is_ancestor (d : att_data) : bool := snd (in_subtree b (cp_root (ad_target d)) (ad_bbr d)).
  Definition target_ancestry_known (d : att_data) : bool := negb (fst (in_subtree b (cp_root (ad_target d)) (ad_bbr d))).
  Definition finalized_is_ancestor (d : att_data) : bool :=
    (ad_bbr d =? snd (finalized b)) || snd (in_subtree b (snd (finalized b)) (ad_bbr d)).
  Definition finalized_ancestry_known (d : att_data) : bool :=
    (ad_bbr d =? snd (finalized b)) || negb (fst (in_subtree b (snd (finalized b)) (ad_bbr d))).
  (* conditions about the LMD vote that only make sense once the voted block is known *)
  Definition when_known (d : att_data) (x : bool) : bool := if lmd_known d then x else true.

  (* conditions shared by beacon_attestation_{subnet_id} and beacon_aggregate_and_proof *)
  Definition lmd_conditions (d : att_data) : list cond :=
    [ mk "the block being voted for passes validation" P2P TReject (negb (is_bad_block b (ad_bbr d)));
      mk "the block being voted for has been seen" P2P TIgnore (lmd_known d);
      mk "ancestry of the target is known to the chain view" Avail TIgnore (when_known d (target_ancestry_known d));
      mk "the target block is an ancestor of the LMD vote block" P2P TReject
         (when_known d (if target_ancestry_known d then target_is_ancestor d else true));
      mk "the checkpoint block of the LMD vote is readable" Avail TIgnore
         (when_known d (on (compute_start_slot_at_epoch (cp_epoch (ad_target d)))
                           (fun _ => is_some (get_checkpoint_block (ad_bbr d) (cp_epoch (ad_target d))))));
      mk "get_checkpoint_block(store, beacon_block_root, target.epoch) == target.root" P2P TReject
         (on (get_checkpoint_block (ad_bbr d) (cp_epoch (ad_target d))) (fun r => r =? cp_root (ad_target d)));
      mk "ancestry of the finalized checkpoint is known to the chain view" Avail TIgnore (finalized_ancestry_known d);
      mk "the finalized checkpoint is an ancestor of the LMD vote block" P2P TIgnore
         (if finalized_ancestry_known d then finalized_is_ancestor d else true);
      mk "zrnt: a vote for the finalized root itself has target.epoch >= finalized.epoch" Extra TReject
         (negb ((ad_bbr d =? snd (finalized b)) && (cp_epoch (ad_target d) <? fst (finalized b)))) ].

  (* ---------- beacon_attestation_{subnet_id} ---------- *)
  Definition the_voter (att : attestation) (comm : list N) : option N :=
    match attesting_indices (a_bits att) comm with [v] => Some v | _ => None end.

  Definition attestation_signature_ok (att : attestation) (e : entry) (voter : N) : bool :=
    on (pubkey_of b e voter) (fun pk =>
    on (get_domain b DBeaconAttester (cp_epoch (ad_target (a_data att)))) (fun dom =>
      sig_ok b (a_sig att) &&
      verify b pk (compute_signing_root (root_bytes (ad_htr (a_data att))) dom) (a_sig att))).

  Definition attestation_conditions (subnet : N) (att : attestation) : list cond :=
    let d := a_data att in
    let tep := cp_epoch (ad_target d) in
    let st := target_state d in
    let count := match st with Some e => committee_count b e tep | None => None end in
    let comm := match st with Some e => committee b e (ad_slot d) (ad_index d) | None => None end in
    let voter := match comm with Some cm => if lenN (a_bits att) =? lenN cm then the_voter att cm else None | None => None end in
    [ mk "attestation.data.slot within ATTESTATION_PROPAGATION_SLOT_RANGE" P2P TIgnore (within_propagation_range (ad_slot d));
      mk "target.epoch == compute_epoch_at_slot(slot)" P2P TReject (tep =? compute_epoch_at_slot (ad_slot d));
      mk "exactly one aggregation bit set" P2P TReject (count_true (a_bits att) =? 1) ]
    ++ lmd_conditions d ++
    [ mk "zrnt: the voted block is not from a slot after the attestation" Extra TReject
         (on (by_block b (ad_bbr d)) (fun blk => entry_slot b blk <=? ad_slot d));
      mk "target checkpoint state available" Avail TIgnore
         (on (compute_start_slot_at_epoch tep) (fun _ => is_some st));
      mk "zrnt: the target state's context covers target.epoch" Extra TReject (on st (fun _ => is_some count));
      mk "committee index < get_committee_count_per_slot(state, target.epoch)" P2P TReject
         (on count (fun n => ad_index d <? n));
      mk "attestation is for the correct subnet" P2P TReject
         (on count (fun n => match compute_subnet_for_attestation n (ad_slot d) (ad_index d) with
                             | Some s => s =? subnet | None => false end));
      mk "get_beacon_committee(state, slot, index) defined" Extra TReject
         (on st (fun _ => on count (fun n => if ad_index d <? n then is_some comm else true)));
      mk "len(aggregation_bits) == len(committee)" P2P TReject (on comm (fun cm => lenN (a_bits att) =? lenN cm));
      mk "no other valid attestation seen for (target.epoch, validator index)" P2P TIgnore
         (on voter (fun v => negb (seen_attestation b tep v)));
      mk "voter public key available" Avail TIgnore
         (on st (fun e => on voter (fun v => is_some (pubkey_of b e v))));
      mk "attester domain available" Avail TIgnore
         (on st (fun e => on voter (fun v => on (pubkey_of b e v) (fun _ => is_some (get_domain b DBeaconAttester tep)))));
      mk "the signature of the attestation is valid" P2P TReject
         (on st (fun e => on voter (fun v => attestation_signature_ok att e v))) ].

  (* ---------- beacon_aggregate_and_proof ---------- *)
  Definition is_aggregator_spec (comm_len : N) (sel : sigv) : bool :=
    sel_hash b sel mod N.max 1 (comm_len / TARGET_AGGREGATORS_PER_COMMITTEE) =? 0.
  Definition sorted_attesting_indices (bits : list bool) (comm : list N) : list N :=
    sort_indices (attesting_indices bits comm).

  Definition aggregate_conditions (sa : signed_aggregate) : list cond :=
    let m := sa_msg sa in
    let att := ap_aggregate m in
    let d := a_data att in
    let tep := cp_epoch (ad_target d) in
    let st := match target_state d with Some e => if state_avail b e then Some e else None | None => None end in
    let count := match st with Some e => committee_count b e tep | None => None end in
    let comm := match st with Some e => committee b e (ad_slot d) (ad_index d) | None => None end in
    let agg_pk := match st with Some e => pubkey_of b e (ap_aggregator m) | None => None end in
    [ mk "aggregate.data.slot within ATTESTATION_PROPAGATION_SLOT_RANGE" P2P TIgnore (within_propagation_range (ad_slot d));
      mk "target.epoch == compute_epoch_at_slot(slot)" P2P TReject (tep =? compute_epoch_at_slot (ad_slot d));
      mk "first valid aggregate for (target.epoch, aggregator index)" P2P TIgnore (negb (seen_aggregator b tep (ap_aggregator m)));
      mk "hash_tree_root(aggregate) not already seen" P2P TIgnore (negb (seen_aggregate b (ap_agg_htr m)));
      mk "the aggregate has participants" P2P TReject (1 <=? count_true (a_bits att)) ]
    ++ lmd_conditions d ++
    [ mk "target checkpoint state available" Avail TIgnore
         (on (compute_start_slot_at_epoch tep) (fun _ => is_some st));
      mk "committee index < get_committee_count_per_slot(state, target.epoch)" P2P TReject
         (on st (fun _ => match count with Some n => ad_index d <? n | None => false end));
      mk "zrnt: aggregator index is a validator index" Extra TReject
         (on st (fun e => ap_aggregator m <? validator_count b e));
      mk "get_beacon_committee(state, slot, index) defined" Extra TReject (on st (fun _ => is_some comm));
      mk "aggregator index within the committee" P2P TReject (on comm (fun cm => memN (ap_aggregator m) cm));
      mk "selection_proof selects the validator as an aggregator" P2P TReject
         (on comm (fun cm => is_aggregator_spec (lenN cm) (ap_selection m)));
      mk "aggregator public key available" Avail TIgnore (on st (fun _ => on comm (fun _ => is_some agg_pk)));
      mk "selection_proof is a valid signature of the slot by the aggregator" P2P TReject
         (on st (fun e => on comm (fun _ => on agg_pk (fun pk =>
            sig_ok b (ap_selection m) &&
            verify b pk (compute_signing_root (u64_htr_bytes (ad_slot d))
                           (state_domain b e DSelectionProof (compute_epoch_at_slot (ad_slot d)))) (ap_selection m)))));
      mk "the aggregator signature (signed_aggregate_and_proof.signature) is valid" P2P TReject
         (on st (fun e => on comm (fun _ => on agg_pk (fun pk =>
            sig_ok b (sa_sig sa) &&
            verify b pk (compute_signing_root (root_bytes (ap_htr m)) (state_domain b e DAggregateAndProof tep)) (sa_sig sa)))));
      mk "len(aggregation_bits) == len(committee)" P2P TReject (on comm (fun cm => lenN (a_bits att) =? lenN cm));
      mk "the signature of the aggregate is valid" P2P TReject
         (on st (fun e => on comm (fun cm =>
            if lenN (a_bits att) =? lenN cm then
              is_valid_indexed_attestation e
                {| ia_indices := sorted_attesting_indices (a_bits att) cm; ia_data := d; ia_sig := a_sig att |}
            else true))) ].

  (* ---------- beacon_block ---------- *)
  (* the state "defined by parent_root/slot": the parent's own context within its epoch, else the parent
     advanced to the start of the block's epoch *)
  Definition shuffling_state (blk : block_envelope) (parent : entry) : option entry :=
    if compute_epoch_at_slot (entry_slot b parent) =? compute_epoch_at_slot (b_slot blk) then Some parent
    else match compute_start_slot_at_epoch (compute_epoch_at_slot (b_slot blk)) with
         | Some s => match towards b (b_parent blk) s with
                     | Some e => if epc_avail b e then Some e else None
                     | None => None end
         | None => None
         end.

  Definition block_conditions (blk : block_envelope) : list cond :=
    let parent := by_block b (b_parent blk) in
    let fin := finalized b in
    let anc := in_subtree b (snd fin) (b_parent blk) in
    let pk := match parent with Some p => if epc_avail b p then pubkey_of b p (b_proposer blk) else None | None => None end in
    let sh := match parent with Some p => if epc_avail b p then shuffling_state blk p else None | None => None end in
    [ mk "the block is not from a future slot" P2P TIgnore (not_from_future (b_slot blk));
      mk "first block with valid signature for (slot, proposer)" P2P TIgnore (negb (seen_block b (b_slot blk) (b_proposer blk)));
      mk "the block's parent has been seen" P2P TIgnore (is_some parent);
      mk "the block is from a higher slot than its parent" P2P TReject
         (on parent (fun p => entry_slot b p <? b_slot blk));
      mk "slot > compute_start_slot_at_epoch(finalized_checkpoint.epoch)" P2P TIgnore
         (match compute_start_slot_at_epoch (fst fin) with Some s => s <? b_slot blk | None => false end);
      mk "ancestry of the finalized checkpoint is known to the chain view" Avail TIgnore (on parent (fun _ => negb (fst anc)));
      mk "the finalized checkpoint is an ancestor of the block" P2P TReject
         (on parent (fun _ => if fst anc then true else snd anc));
      mk "parent context available" Avail TIgnore (on parent (fun p => epc_avail b p));
      mk "proposer public key available" Avail TIgnore
         (on parent (fun p => if epc_avail b p then is_some pk else true));
      mk "zrnt: the envelope's fork digest is the digest of the block's slot" Extra TReject
         (on pk (fun _ => fork_digest_at b (b_slot blk) =? b_digest blk));
      mk "the proposer signature is valid" P2P TReject
         (on pk (fun k => sig_ok b (b_sig blk) &&
                          verify b k (compute_signing_root (root_bytes (b_root blk)) (proposer_domain_at b (b_slot blk))) (b_sig blk)));
      mk "the proposer shuffling for the block's slot is available" Avail TIgnore
         (on pk (fun _ => match sh with Some e => is_some (proposer_at b e (b_slot blk)) | None => false end));
      mk "the block is proposed by the expected proposer_index" P2P TReject
         (on sh (fun e => on (proposer_at b e (b_slot blk)) (fun p => p =? b_proposer blk))) ].

  (* ---------- sync_committee_{subnet_id} ---------- *)
  Definition sync_subcommittee_size : N := SYNC_COMMITTEE_SIZE c / SYNC_COMMITTEE_SUBNET_COUNT.
  (* compute_subnets_for_sync_committee: the subnets of every position the validator holds *)
  Definition positions_of (indices : list N) (val : N) : list N :=
    map fst (filter (fun p => snd p =? val) (combine (map N.of_nat (seq 0 (List.length indices))) indices)).
  Definition subnets_for_sync_committee (indices : list N) (val : N) : list N :=
    map (fun i => i / sync_subcommittee_size) (positions_of indices val).

  Definition sync_state (bbr : root) (slot : N) : option entry :=
    match by_block_slot b bbr slot with
    | Some e => if epc_avail b e then Some e else None
    | None => None
    end.

  Definition sync_message_conditions (subnet : N) (m : sync_message) : list cond :=
    let st := sync_state (sm_bbr m) (sm_slot m) in
    let members := match st with Some e => sync_committee b e | None => None end in
    [ mk "sync_committee_message.slot == current_slot" P2P TIgnore (is_current_slot (sm_slot m));
      mk "state of (beacon_block_root, slot) available" Avail TIgnore (is_some st);
      mk "zrnt: the state has a sync committee" Extra TReject (on st (fun _ => is_some members));
      mk "subnet_id in compute_subnets_for_sync_committee(state, validator_index)" P2P TReject
         (on members (fun l => memN subnet (subnets_for_sync_committee l (sm_index m))));
      mk "no other valid sync committee message for (validator, slot, subnet)" P2P TIgnore
         (negb (seen_sync_msg b (sm_index m) (sm_slot m) subnet));
      mk "the signature is valid for beacon_block_root by validator_index" P2P TReject
         (on st (fun e => on members (fun _ =>
            match pubkey_of b e (sm_index m), get_domain b DSyncCommittee (compute_epoch_at_slot (sm_slot m)) with
            | Some pk, Some dom =>
              sig_ok b (sm_sig m) && verify b pk (compute_signing_root (root_bytes (sm_bbr m)) dom) (sm_sig m)
            | _, _ => false
            end))) ].

  (* ---------- sync_committee_contribution_and_proof ---------- *)
  Definition is_sync_committee_aggregator (sel : sigv) : bool :=
    sel_hash b sel mod N.max 1 (SYNC_COMMITTEE_SIZE c / SYNC_COMMITTEE_SUBNET_COUNT / TARGET_AGGREGATORS_PER_SYNC_SUBCOMMITTEE) =? 0.
  (* get_sync_subcommittee_pubkeys, as validator indices *)
  Definition sync_subcommittee (indices : list N) (sub : N) : list N :=
    firstN sync_subcommittee_size (skipN (sub * sync_subcommittee_size) indices).

  Fixpoint member_pubkeys (e : entry) (l : list N) : option (list pubkey) :=
    match l with
    | [] => Some []
    | i :: t => match pubkey_of b e i, member_pubkeys e t with
                | Some pk, Some r => Some (pk :: r)
                | _, _ => None end
    end.

  Definition signed_by (e : entry) (idx : N) (dt : dtype) (epoch : N) (obj : bytes) (s : sigv) : bool :=
    match pubkey_of b e idx, get_domain b dt epoch with
    | Some pk, Some dom => sig_ok b s && verify b pk (compute_signing_root obj dom) s
    | _, _ => false
    end.

  Definition contribution_conditions (sc : signed_contribution) : list cond :=
    let m := sc_msg sc in
    let ct := cap_contribution m in
    let ep := compute_epoch_at_slot (c_slot ct) in
    let st := sync_state (c_bbr ct) (c_slot ct) in
    let members := match st with Some e => sync_committee b e | None => None end in
    let sub := match members with Some l => Some (sync_subcommittee l (c_sub ct)) | None => None end in
    [ mk "contribution.slot == current_slot" P2P TIgnore (is_current_slot (c_slot ct));
      mk "subcommittee_index < SYNC_COMMITTEE_SUBNET_COUNT" P2P TReject (c_sub ct <? SYNC_COMMITTEE_SUBNET_COUNT);
      mk "the contribution has participants" P2P TReject (existsb (fun x => x) (c_bits ct));
      mk "selection_proof selects the validator as a sync aggregator" P2P TReject (is_sync_committee_aggregator (cap_selection m));
      mk "state of (beacon_block_root, slot) available" Avail TIgnore (is_some st);
      mk "zrnt: the state has a sync committee" Extra TReject (on st (fun _ => is_some members));
      mk "aggregator index in the declared subcommittee" P2P TReject
         (on sub (fun l => if c_sub ct <? SYNC_COMMITTEE_SUBNET_COUNT then memN (cap_aggregator m) l else true));
      mk "first valid contribution for (aggregator, slot, subcommittee)" P2P TIgnore
         (negb (seen_contribution b (cap_aggregator m) (c_slot ct) (c_sub ct)));
      mk "selection_proof is a valid signature of SyncAggregatorSelectionData by the aggregator" P2P TReject
         (on st (fun e => on sub (fun _ =>
            signed_by e (cap_aggregator m) DSyncSelectionProof ep
                      (H b (u64_htr_bytes (c_slot ct) ++ u64_htr_bytes (c_sub ct))) (cap_selection m))));
      mk "the aggregator signature (signed_contribution_and_proof.signature) is valid" P2P TReject
         (on st (fun e => on sub (fun _ =>
            signed_by e (cap_aggregator m) DContributionAndProof ep (root_bytes (cap_htr m)) (sc_sig sc))));
      mk "the aggregate signature is valid for the participants of the subcommittee" P2P TReject
         (on st (fun e => on sub (fun l =>
            match member_pubkeys e (attesting_indices (c_bits ct) l), get_domain b DSyncCommittee ep with
            | Some pks, Some dom =>
              sig_ok b (c_sig ct) &&
              (match pks with [] => sig_is_infinity b (c_sig ct)
                            | _ => fast_aggregate_verify b pks (compute_signing_root (root_bytes (c_bbr ct)) dom) (c_sig ct) end)
            | _, _ => false
            end))) ].
End Spec.
