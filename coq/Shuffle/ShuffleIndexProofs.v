(* C06: the per-index functions.
   (a) one swap-or-not round is an involution on [0,n);
   (b) permute_index / unpermute_index are mutually inverse bijections of [0,n);
   (c) permute_index = the specification's compute_shuffled_index. *)
From Coq Require Import NArith ZArith Lia List Bool.
From Coq Require Import ZifyN ZifyNat ZifyBool.
From V Require Import Base.U64 Base.Outcome Shuffle.ShuffleModel Shuffle.ShuffleArith.
Import ListNotations.
Local Open Scope N_scope.
Ltac Zify.zify_post_hook ::= Z.div_mod_to_equations.

Definition max_size : N := 9223372036854775808.   (* 2^63 *)
Definition spec_limit : N := 1099511627776.       (* 2^40 = VALIDATOR_REGISTRY_LIMIT *)
Lemma max_size_pow : max_size = 2 ^ 63. Proof. reflexivity. Qed.
Lemma spec_limit_pow : spec_limit = 2 ^ 40. Proof. reflexivity. Qed.

(* ---------- outcome plumbing ---------- *)
Lemma bind_ext {A B} (x : outcome A) (f g : A -> outcome B) : (forall a, f a = g a) -> bind x f = bind x g.
Proof. intros E. destruct x; cbn; auto. Qed.
Lemma bind_Ok_r {A} (x : outcome A) : bind x (fun a => Ok a) = x.
Proof. destruct x; reflexivity. Qed.

(* the rounds of a run, in the order they are executed, as a fold *)
Definition run_rounds {St} (body : N -> St -> outcome St) (rs : list N) (s : St) : outcome St :=
  fold_left (fun acc r => bind acc (body r)) rs (Ok s).

Lemma fold_bind_not_ok {St} (body : N -> St -> outcome St) rs (x : outcome St) :
  is_ok x = false -> fold_left (fun acc r => bind acc (body r)) rs x = x.
Proof. revert x. induction rs as [|r rs IH]; intros x Hx; cbn; [reflexivity|]. rewrite IH; destruct x; cbn in *; congruence. Qed.
Lemma run_rounds_nil {St} (body : N -> St -> outcome St) s : run_rounds body [] s = Ok s.
Proof. reflexivity. Qed.
Lemma run_rounds_cons {St} (body : N -> St -> outcome St) r rs s :
  run_rounds body (r :: rs) s = bind (body r s) (run_rounds body rs).
Proof.
  unfold run_rounds. cbn [fold_left bind]. destruct (body r s) eqn:E; cbn [bind]; try reflexivity;
    apply fold_bind_not_ok; reflexivity.
Qed.
Lemma run_rounds_app {St} (body : N -> St -> outcome St) rs1 rs2 s :
  run_rounds body (rs1 ++ rs2) s = bind (run_rounds body rs1 s) (run_rounds body rs2).
Proof.
  revert s. induction rs1 as [|r rs1 IH]; intros s; [reflexivity|].
  cbn [app]. rewrite !run_rounds_cons. destruct (body r s); cbn [bind]; auto.
Qed.

Definition rounds_fwd (R : nat) : list N := map N.of_nat (seq 0 R).          (* 0,1,..,R-1 *)
Definition rounds_bwd (R : nat) : list N := map N.of_nat (rev (seq 0 R)).    (* R-1,..,1,0 *)
Lemma rounds_bwd_rev R : rounds_bwd R = rev (rounds_fwd R).
Proof. unfold rounds_bwd, rounds_fwd. apply map_rev. Qed.
Lemma rounds_fwd_rev R : rounds_fwd R = rev (rounds_bwd R).
Proof. rewrite rounds_bwd_rev, rev_involutive. reflexivity. Qed.
Lemma rounds_fwd_lt R r : In r (rounds_fwd R) -> r < N.of_nat R.
Proof. unfold rounds_fwd. rewrite in_map_iff. intros (x & <- & Hx). apply in_seq in Hx. lia. Qed.
Lemma rounds_bwd_lt R r : In r (rounds_bwd R) -> r < N.of_nat R.
Proof. rewrite rounds_bwd_rev, <- in_rev. apply rounds_fwd_lt. Qed.

(* the Go round driver, forwards: r = r0, r0+1, .., rounds-1 *)
Lemma round_loop_fwd {St} (body : N -> St -> outcome St) rounds : rounds <= 255 ->
  forall k fuel r0 s, (1 <= k)%nat -> (k <= fuel)%nat -> N.of_nat r0 + N.of_nat k = rounds ->
  round_loop body fuel true rounds (N.of_nat r0) s = run_rounds body (map N.of_nat (seq r0 k)) s.
Proof.
  intros HR. induction k as [|k IH]; intros fuel r0 s Hk Hf Hr; [lia|].
  destruct fuel as [|f]; [lia|].
  cbn [round_loop seq map]. rewrite run_rounds_cons. apply bind_ext. intros s'.
  assert (Hw : wrap8 (N.of_nat r0 + 1) = N.of_nat (S r0)) by (unfold wrap8; lia).
  rewrite Hw.
  destruct k as [|k].
  - cbn [seq map]. rewrite run_rounds_nil.
    replace (N.of_nat (S r0) =? rounds) with true by (symmetry; apply N.eqb_eq; lia). reflexivity.
  - replace (N.of_nat (S r0) =? rounds) with false by (symmetry; apply N.eqb_neq; lia).
    apply IH; lia.
Qed.

(* backwards: r = r0, r0-1, .., 0 *)
Lemma round_loop_bwd {St} (body : N -> St -> outcome St) rounds :
  forall r0 fuel s, (r0 < fuel)%nat ->
  round_loop body fuel false rounds (N.of_nat r0) s = run_rounds body (map N.of_nat (rev (seq 0 (S r0)))) s.
Proof.
  induction r0 as [|r0 IH]; intros fuel s Hf; (destruct fuel as [|f]; [lia|]).
  - cbn [round_loop seq rev app map]. rewrite run_rounds_cons. apply bind_ext. intros s'. reflexivity.
  - rewrite seq_S, rev_app_distr. cbn [rev app map plus]. cbn [round_loop].
    rewrite run_rounds_cons. apply bind_ext. intros s'.
    replace (N.of_nat (S r0) =? 0) with false by (symmetry; apply N.eqb_neq; lia).
    replace (N.of_nat (S r0) - 1) with (N.of_nat r0) by lia.
    apply IH. lia.
Qed.

(* both directions of the shared driver, as used by innerPermuteIndex and innerShuffleList *)
Lemma round_loop_dir {St} (body : N -> St -> outcome St) rounds dir s :
  0 < rounds -> rounds <= 255 ->
  round_loop body 256 dir rounds (start_round dir rounds) s =
  run_rounds body (if dir then rounds_fwd (N.to_nat rounds) else rounds_bwd (N.to_nat rounds)) s.
Proof.
  intros H0 HR. destruct dir; unfold start_round.
  - change 0 with (N.of_nat 0). unfold rounds_fwd. apply round_loop_fwd; lia.
  - unfold rounds_bwd. replace (rounds - 1) with (N.of_nat (N.to_nat rounds - 1)) by lia.
    replace (N.to_nat rounds) with (S (N.to_nat rounds - 1)) at 2 by lia.
    apply round_loop_bwd. lia.
Qed.

(* ---------- swap-or-not on [0,n) ---------- *)
Definition flipN (n p i : N) : N := (p + n - i) mod n.
Definition sw (n p : N) (coin : N -> bool) (i : N) : N :=
  let f := flipN n p i in if coin (N.max i f) then f else i.

Lemma flipN_cases n p i : p < n -> i < n ->
  (i <= p /\ flipN n p i = p - i) \/ (p < i /\ flipN n p i = p + n - i).
Proof.
  intros Hp Hi. unfold flipN. destruct (N.le_gt_cases i p) as [Hle|Hgt]; [left|right]; split; try assumption.
  - replace (p + n - i) with ((p - i) + 1 * n) by lia. rewrite N.mod_add by lia. apply N.mod_small. lia.
  - apply N.mod_small. lia.
Qed.
Lemma flipN_lt n p i : p < n -> i < n -> flipN n p i < n.
Proof. intros Hp Hi. destruct (flipN_cases n p i Hp Hi) as [[? ->]|[? ->]]; lia. Qed.
Lemma flipN_invol n p i : p < n -> i < n -> flipN n p (flipN n p i) = i.
Proof.
  intros Hp Hi. destruct (flipN_cases n p i Hp Hi) as [[H1 E]|[H1 E]]; rewrite E.
  - destruct (flipN_cases n p (p - i) Hp ltac:(lia)) as [[? ->]|[? ->]]; lia.
  - destruct (flipN_cases n p (p + n - i) Hp ltac:(lia)) as [[? ->]|[? ->]]; lia.
Qed.
Lemma sw_lt n p coin i : p < n -> i < n -> sw n p coin i < n.
Proof. intros Hp Hi. unfold sw. destruct (coin _); [apply flipN_lt|]; assumption. Qed.
(* (a) in its abstract form: for ANY coin function of the position *)
Lemma sw_invol n p coin i : p < n -> i < n -> sw n p coin (sw n p coin i) = i.
Proof.
  intros Hp Hi. unfold sw at 2. destruct (coin (N.max i (flipN n p i))) eqn:E.
  - unfold sw. rewrite flipN_invol by assumption. rewrite N.max_comm, E. reflexivity.
  - unfold sw. rewrite E. reflexivity.
Qed.

Section IndexProofs.
  Variable H : list N -> list N.
  Variable seed : list N.

  (* the coin of round r at a position, exactly as the Go code selects it *)
  Definition coin (r pos : N) : bool :=
    go_bit (go_byte (go_source H seed r pos) pos) pos =? 1.
  Definition step (n r i : N) : N := sw n (go_pivot H seed n r) (coin r) i.
  Definition apply_rounds (n : N) (rs : list N) (i : N) : N := fold_left (fun i r => step n r i) rs i.

  Lemma go_pivot_lt n r : 0 < n -> go_pivot H seed n r < n.
  Proof. intros. unfold go_pivot. apply N.mod_lt. lia. Qed.

  (* the Go loop body is the abstract swap-or-not step (no wrap-around for n <= 2^63) *)
  Lemma index_round_step n r i : 0 < n -> n <= max_size -> i < n ->
    index_round H seed n r i = Ok (step n r i).
  Proof.
    intros Hn Hmax Hi. unfold index_round, step, sw, coin.
    replace (n =? 0) with false by (symmetry; apply N.eqb_neq; lia).
    pose proof (go_pivot_lt n r Hn) as Hp. set (p := go_pivot H seed n r) in *.
    unfold max_size in Hmax.
    assert (E : add64 p (sub64 n i) = p + n - i).
    { rewrite sub64_ge by lia. rewrite add64_small by (unfold two64; lia). lia. }
    rewrite E. fold (flipN n p i). set (f := flipN n p i).
    assert (M : (if i <? f then f else i) = N.max i f).
    { destruct (N.ltb_spec i f); [rewrite N.max_r|rewrite N.max_l]; lia. }
    rewrite M. destruct (go_bit _ _ =? 1); reflexivity.
  Qed.

  Lemma step_lt n r i : 0 < n -> i < n -> step n r i < n.
  Proof. intros. apply sw_lt; [apply go_pivot_lt|]; assumption. Qed.
  Lemma step_invol n r i : 0 < n -> i < n -> step n r (step n r i) = i.
  Proof. intros. apply sw_invol; [apply go_pivot_lt|]; assumption. Qed.

  (* (a) one round of innerPermuteIndex is an involution on [0,n) *)
  Theorem index_round_involutive n r i : 0 < n -> n <= max_size -> i < n ->
    exists j, index_round H seed n r i = Ok j /\ j < n /\ index_round H seed n r j = Ok i.
  Proof.
    intros Hn Hmax Hi. exists (step n r i). split; [apply index_round_step; assumption|].
    split; [apply step_lt; assumption|].
    rewrite index_round_step by (try assumption; apply step_lt; assumption).
    rewrite step_invol by assumption. reflexivity.
  Qed.

  Lemma apply_rounds_lt n rs i : 0 < n -> i < n -> apply_rounds n rs i < n.
  Proof.
    intros Hn. revert i. induction rs as [|r rs IH]; intros i Hi; cbn; [assumption|].
    apply IH. apply step_lt; assumption.
  Qed.
  Lemma apply_rounds_app n rs1 rs2 i : apply_rounds n (rs1 ++ rs2) i = apply_rounds n rs2 (apply_rounds n rs1 i).
  Proof. unfold apply_rounds. apply fold_left_app. Qed.
  Lemma apply_rounds_cancel n rs i : 0 < n -> i < n -> apply_rounds n (rev rs) (apply_rounds n rs i) = i.
  Proof.
    intros Hn. revert i. induction rs as [|r rs IH]; intros i Hi; [reflexivity|].
    cbn [rev]. rewrite apply_rounds_app. cbn [apply_rounds fold_left].
    change (fold_left (fun i r => step n r i) rs (step n r i)) with (apply_rounds n rs (step n r i)).
    rewrite IH by (apply step_lt; assumption). cbn. apply step_invol; assumption.
  Qed.

  Lemma run_index_rounds n rs i : 0 < n -> n <= max_size -> i < n ->
    run_rounds (index_round H seed n) rs i = Ok (apply_rounds n rs i).
  Proof.
    intros Hn Hmax. revert i. induction rs as [|r rs IH]; intros i Hi; [reflexivity|].
    rewrite run_rounds_cons, index_round_step by assumption. cbn [bind].
    rewrite IH by (apply step_lt; assumption). reflexivity.
  Qed.

  Definition dir_rounds (dir : bool) (rounds : N) : list N :=
    if dir then rounds_fwd (N.to_nat rounds) else rounds_bwd (N.to_nat rounds).

  (* the Go function as a fold over its rounds *)
  Lemma inner_permute_index_eq rounds i n dir : rounds <= 255 -> 0 < n -> n <= max_size -> i < n ->
    inner_permute_index H seed rounds i n dir = Ok (apply_rounds n (dir_rounds dir rounds) i).
  Proof.
    intros HR Hn Hmax Hi. unfold inner_permute_index.
    destruct (N.eqb_spec rounds 0) as [->|Hr].
    - destruct dir; reflexivity.
    - rewrite round_loop_dir by lia. apply run_index_rounds; assumption.
  Qed.

  Definition perm (n rounds i : N) : N := apply_rounds n (rounds_fwd (N.to_nat rounds)) i.
  Definition unperm (n rounds i : N) : N := apply_rounds n (rounds_bwd (N.to_nat rounds)) i.

  Lemma permute_index_eq rounds i n : rounds <= 255 -> 0 < n -> n <= max_size -> i < n ->
    permute_index H seed rounds i n = Ok (perm n rounds i).
  Proof. intros. unfold permute_index. rewrite inner_permute_index_eq by assumption. reflexivity. Qed.
  Lemma unpermute_index_eq rounds i n : rounds <= 255 -> 0 < n -> n <= max_size -> i < n ->
    unpermute_index H seed rounds i n = Ok (unperm n rounds i).
  Proof. intros. unfold unpermute_index. rewrite inner_permute_index_eq by assumption. reflexivity. Qed.

  Lemma perm_lt n rounds i : 0 < n -> i < n -> perm n rounds i < n.
  Proof. apply apply_rounds_lt. Qed.
  Lemma unperm_lt n rounds i : 0 < n -> i < n -> unperm n rounds i < n.
  Proof. apply apply_rounds_lt. Qed.
  Lemma unperm_perm n rounds i : 0 < n -> i < n -> unperm n rounds (perm n rounds i) = i.
  Proof. intros. unfold unperm, perm. rewrite rounds_bwd_rev. apply apply_rounds_cancel; assumption. Qed.
  Lemma perm_unperm n rounds i : 0 < n -> i < n -> perm n rounds (unperm n rounds i) = i.
  Proof. intros. unfold unperm, perm. rewrite rounds_fwd_rev. apply apply_rounds_cancel; assumption. Qed.

  (* (b) mutually inverse, into [0,n) : bijections *)
  Theorem permute_unpermute rounds i n : rounds <= 255 -> 0 < n -> n <= max_size -> i < n ->
    exists j, permute_index H seed rounds i n = Ok j /\ j < n /\ unpermute_index H seed rounds j n = Ok i.
  Proof.
    intros HR Hn Hmax Hi. exists (perm n rounds i). split; [apply permute_index_eq; assumption|].
    split; [apply perm_lt; assumption|].
    rewrite unpermute_index_eq by (try assumption; apply perm_lt; assumption).
    rewrite unperm_perm by assumption. reflexivity.
  Qed.
  Theorem unpermute_permute rounds i n : rounds <= 255 -> 0 < n -> n <= max_size -> i < n ->
    exists j, unpermute_index H seed rounds i n = Ok j /\ j < n /\ permute_index H seed rounds j n = Ok i.
  Proof.
    intros HR Hn Hmax Hi. exists (unperm n rounds i). split; [apply unpermute_index_eq; assumption|].
    split; [apply unperm_lt; assumption|].
    rewrite permute_index_eq by (try assumption; apply unperm_lt; assumption).
    rewrite perm_unperm by assumption. reflexivity.
  Qed.
  Theorem permute_index_injective rounds i1 i2 n j : rounds <= 255 -> 0 < n -> n <= max_size -> i1 < n -> i2 < n ->
    permute_index H seed rounds i1 n = Ok j -> permute_index H seed rounds i2 n = Ok j -> i1 = i2.
  Proof.
    intros HR Hn Hmax H1 H2. rewrite !permute_index_eq by assumption. intros E1 E2.
    injection E1 as E1. injection E2 as E2.
    rewrite <- (unperm_perm n rounds i1), <- (unperm_perm n rounds i2) by assumption. congruence.
  Qed.
  Theorem permute_index_surjective rounds j n : rounds <= 255 -> 0 < n -> n <= max_size -> j < n ->
    exists i, i < n /\ permute_index H seed rounds i n = Ok j.
  Proof.
    intros HR Hn Hmax Hj. exists (unperm n rounds j). split; [apply unperm_lt; assumption|].
    rewrite permute_index_eq by (try assumption; apply unperm_lt; assumption).
    rewrite perm_unperm by assumption. reflexivity.
  Qed.

  (* trivial / out-of-domain shapes, as the Go code behaves *)
  Lemma permute_index_rounds0 i n dir : inner_permute_index H seed 0 i n dir = Ok i.
  Proof. reflexivity. Qed.
  Lemma permute_index_size0_panics rounds i dir : 0 < rounds -> rounds <= 255 ->
    inner_permute_index H seed rounds i 0 dir = Panic DivZero.
  Proof.
    intros H0 HR. unfold inner_permute_index.
    replace (rounds =? 0) with false by (symmetry; apply N.eqb_neq; lia).
    rewrite round_loop_dir by assumption.
    assert (E : exists r rs, (if dir then rounds_fwd (N.to_nat rounds) else rounds_bwd (N.to_nat rounds)) = r :: rs).
    { replace (N.to_nat rounds) with (S (N.to_nat rounds - 1)) by lia.
      destruct dir; unfold rounds_fwd, rounds_bwd.
      - cbn [seq map]. eauto.
      - rewrite seq_S, rev_app_distr. cbn [rev app map]. eauto. }
    destruct E as (r & rs & ->). rewrite run_rounds_cons. reflexivity.
  Qed.

  (* ---------- (c) Impl = Spec ---------- *)
  Hypothesis Hbytes : forall m, bytes_ok (H m).

  Lemma spec_round_step n i r : 0 < n -> n <= spec_limit -> i < n -> r < 256 ->
    spec_round H seed n i r = Some (step n r i).
  Proof.
    intros Hn Hlim Hi Hr. unfold spec_round, step, sw, coin. unfold spec_limit in Hlim.
    replace (256 <=? r) with false by (symmetry; apply N.leb_gt; assumption).
    cbn [uint_to_bytes]. rewrite (N.mod_small r 256) by assumption.
    rewrite <- le_uint64_spec by apply Hbytes.
    change (le_uint64 (H (seed ++ [r])) mod n) with (go_pivot H seed n r).
    pose proof (go_pivot_lt n r Hn) as Hp. set (p := go_pivot H seed n r) in *.
    fold (flipN n p i). pose proof (flipN_lt n p i Hp Hi) as Hf. set (f := flipN n p i) in *.
    set (pos := N.max i f). assert (Hpos : pos < n) by (unfold pos; lia).
    assert (Hblk : pos / 256 < 4294967296) by lia.
    replace (4294967296 <=? pos / 256) with false by (symmetry; apply N.leb_gt; assumption).
    assert (Esrc : H (seed ++ [r] ++ (pos / 256) mod 256 :: (pos / 256 / 256) mod 256 ::
                      (pos / 256 / 256 / 256) mod 256 :: [(pos / 256 / 256 / 256 / 256) mod 256])
                   = go_source H seed r pos).
    { unfold go_source, source_hash. rewrite put_uint32_spec, shiftr_8.
      unfold wrap32. rewrite (N.mod_small (pos / 256) 4294967296) by assumption. reflexivity. }
    cbn [uint_to_bytes] in Esrc |- *. rewrite Esrc.
    unfold go_byte. rewrite byte_index_spec.
    set (b := nth (N.to_nat (pos mod 256 / 8)) (go_source H seed r pos) 0).
    rewrite <- go_bit_spec.
    destruct (go_bit_01 b pos) as [E|E]; rewrite E; reflexivity.
  Qed.

  Theorem permute_index_is_spec rounds i n : rounds <= 255 -> 0 < n -> n <= spec_limit -> i < n ->
    exists j, permute_index H seed rounds i n = Ok j /\ compute_shuffled_index H seed rounds i n = Some j /\ j < n.
  Proof.
    intros HR Hn Hlim Hi.
    assert (Hmax : n <= max_size) by (unfold spec_limit, max_size in *; lia).
    exists (perm n rounds i). split; [apply permute_index_eq; assumption|].
    split; [|apply perm_lt; assumption].
    unfold compute_shuffled_index, perm.
    replace (i <? n) with true by (symmetry; apply N.ltb_lt; assumption).
    assert (G : forall rs i, i < n -> (forall r, In r rs -> r < 256) ->
      fold_left (fun acc r => match acc with Some i => spec_round H seed n i r | None => None end) rs (Some i)
      = Some (apply_rounds n rs i)).
    { induction rs as [|r rs IH]; intros i0 Hi0 Hrs; [reflexivity|].
      cbn [fold_left]. rewrite spec_round_step by (try assumption; apply Hrs; left; reflexivity).
      rewrite IH; [reflexivity|apply step_lt; assumption|intros; apply Hrs; right; assumption]. }
    apply G; [assumption|]. intros r Hr. apply rounds_fwd_lt in Hr. lia.
  Qed.
End IndexProofs.
