(* C06: bit-level and arithmetic facts used by the shuffling proofs. *)
From Coq Require Import NArith ZArith Lia List Bool.
From Coq Require Import ZifyN ZifyNat ZifyBool.
From V Require Import Base.U64 Base.Outcome Shuffle.ShuffleModel.
Import ListNotations.
Local Open Scope N_scope.
Ltac Zify.zify_post_hook ::= Z.div_mod_to_equations.

Lemma land_255 x : N.land x 255 = x mod 256.
Proof. change 255 with (N.ones 8). rewrite N.land_ones. reflexivity. Qed.
Lemma land_7 x : N.land x 7 = x mod 8.
Proof. change 7 with (N.ones 3). rewrite N.land_ones. reflexivity. Qed.
Lemma land_1 x : N.land x 1 = x mod 2.
Proof. change 1 with (N.ones 1) at 1. rewrite N.land_ones. reflexivity. Qed.
Lemma shiftr_8 x : N.shiftr x 8 = x / 256.
Proof. rewrite N.shiftr_div_pow2. reflexivity. Qed.
Lemma shiftr_3 x : N.shiftr x 3 = x / 8.
Proof. rewrite N.shiftr_div_pow2. reflexivity. Qed.
Lemma shiftr_1 x : N.shiftr x 1 = x / 2.
Proof. rewrite N.shiftr_div_pow2. reflexivity. Qed.

(* a | (b << k) = a + b * 2^k when a < 2^k *)
Lemma lor_shiftl_add a b k : a < 2 ^ k -> N.lor a (N.shiftl b k) = a + b * 2 ^ k.
Proof.
  intros Ha.
  assert (Hl : N.land a (N.shiftl b k) = 0).
  { apply N.bits_inj. intros i. rewrite N.land_spec, N.bits_0.
    destruct (N.lt_ge_cases i k) as [Hi|Hi].
    - rewrite N.shiftl_spec_low by exact Hi. apply andb_false_r.
    - assert (N.testbit a i = false) as ->; [|reflexivity].
      destruct (N.eq_dec a 0) as [->|Hz]; [apply N.bits_0|].
      apply N.bits_above_log2. apply N.lt_le_trans with k; [|exact Hi].
      apply N.log2_lt_pow2; [lia|exact Ha]. }
  rewrite <- N.lxor_lor by exact Hl.
  rewrite <- N.add_nocarry_lxor by exact Hl.
  rewrite N.shiftl_mul_pow2. reflexivity.
Qed.

Definition bytes_ok (h : list N) : Prop := Forall (fun b => b < 256) h.

Lemma byte_at_lt h k : bytes_ok h -> byte_at h k < 256.
Proof.
  intros Hh. unfold byte_at. destruct (nth_in_or_default k h 0) as [Hin| ->]; [|lia].
  unfold bytes_ok in Hh. rewrite Forall_forall in Hh. apply Hh. exact Hin.
Qed.

Lemma bytes_to_uint_firstn8 h :
  bytes_to_uint (firstn 8 h) =
  byte_at h 0 + 256 * (byte_at h 1 + 256 * (byte_at h 2 + 256 * (byte_at h 3 + 256 * (byte_at h 4 +
  256 * (byte_at h 5 + 256 * (byte_at h 6 + 256 * byte_at h 7)))))).
Proof.
  unfold byte_at.
  destruct h as [|b0 [|b1 [|b2 [|b3 [|b4 [|b5 [|b6 [|b7 t]]]]]]]]; cbn [firstn bytes_to_uint nth]; lia.
Qed.

(* binary.LittleEndian.Uint64 = int.from_bytes(.., 'little') on real bytes *)
Lemma le_uint64_spec h : bytes_ok h -> le_uint64 h = bytes_to_uint (firstn 8 h).
Proof.
  intros Hh. rewrite bytes_to_uint_firstn8. unfold le_uint64.
  pose proof (byte_at_lt h 0 Hh) as H0. pose proof (byte_at_lt h 1 Hh) as H1.
  pose proof (byte_at_lt h 2 Hh) as H2. pose proof (byte_at_lt h 3 Hh) as H3.
  pose proof (byte_at_lt h 4 Hh) as H4. pose proof (byte_at_lt h 5 Hh) as H5.
  pose proof (byte_at_lt h 6 Hh) as H6. pose proof (byte_at_lt h 7 Hh) as H7.
  set (b0 := byte_at h 0) in *. set (b1 := byte_at h 1) in *. set (b2 := byte_at h 2) in *.
  set (b3 := byte_at h 3) in *. set (b4 := byte_at h 4) in *. set (b5 := byte_at h 5) in *.
  set (b6 := byte_at h 6) in *. set (b7 := byte_at h 7) in *.
  rewrite (lor_shiftl_add b0 b1 8) by (change (2 ^ 8) with 256; lia).
  rewrite (lor_shiftl_add _ b2 16) by (change (2 ^ 8) with 256; change (2 ^ 16) with 65536; lia).
  rewrite (lor_shiftl_add _ b3 24) by (change (2 ^ 8) with 256; change (2 ^ 16) with 65536; change (2 ^ 24) with 16777216; lia).
  rewrite (lor_shiftl_add _ b4 32) by (change (2 ^ 8) with 256; change (2 ^ 16) with 65536; change (2 ^ 24) with 16777216; change (2 ^ 32) with 4294967296; lia).
  rewrite (lor_shiftl_add _ b5 40) by (change (2 ^ 8) with 256; change (2 ^ 16) with 65536; change (2 ^ 24) with 16777216; change (2 ^ 32) with 4294967296; change (2 ^ 40) with 1099511627776; lia).
  rewrite (lor_shiftl_add _ b6 48) by (change (2 ^ 8) with 256; change (2 ^ 16) with 65536; change (2 ^ 24) with 16777216; change (2 ^ 32) with 4294967296; change (2 ^ 40) with 1099511627776; change (2 ^ 48) with 281474976710656; lia).
  rewrite (lor_shiftl_add _ b7 56) by (change (2 ^ 8) with 256; change (2 ^ 16) with 65536; change (2 ^ 24) with 16777216; change (2 ^ 32) with 4294967296; change (2 ^ 40) with 1099511627776; change (2 ^ 48) with 281474976710656; change (2 ^ 56) with 72057594037927936; lia).
  change (2 ^ 8) with 256; change (2 ^ 16) with 65536; change (2 ^ 24) with 16777216;
  change (2 ^ 32) with 4294967296; change (2 ^ 40) with 1099511627776;
  change (2 ^ 48) with 281474976710656; change (2 ^ 56) with 72057594037927936. lia.
Qed.

(* PutUint32 = uint_to_bytes(uint32(v)) *)
Lemma put_uint32_spec v : put_uint32 v = uint_to_bytes 4 v.
Proof.
  unfold put_uint32. cbn [uint_to_bytes].
  rewrite !land_255, !N.shiftr_div_pow2.
  change (2 ^ 8) with 256. change (2 ^ 16) with (256 * 256). change (2 ^ 24) with (256 * 256 * 256).
  rewrite <- !N.div_div by discriminate. reflexivity.
Qed.

(* the coin: (byteV >> (pos & 7)) & 1 = (byte >> (position % 8)) % 2 *)
Lemma go_bit_spec b pos : go_bit b pos = (b / 2 ^ (pos mod 8)) mod 2.
Proof. unfold go_bit. rewrite land_1, land_7, N.shiftr_div_pow2. reflexivity. Qed.
Lemma go_bit_01 b pos : go_bit b pos = 0 \/ go_bit b pos = 1.
Proof. rewrite go_bit_spec. generalize (b / 2 ^ (pos mod 8)). intros q. lia. Qed.

(* (pos & 0xff) >> 3 = (position % 256) // 8 *)
Lemma byte_index_spec pos : N.shiftr (N.land pos 255) 3 = (pos mod 256) / 8.
Proof. rewrite land_255, shiftr_3. reflexivity. Qed.

(* cache facts: stepping j down by one keeps the 256-block / the byte unless the low bits are all ones *)
Lemma block_stable j : 0 < j -> N.land (j - 1) 255 <> 255 -> N.shiftr (j - 1) 8 = N.shiftr j 8.
Proof. rewrite land_255, !shiftr_8. intros. lia. Qed.
Lemma byte_stable j : 0 < j -> N.land (j - 1) 7 <> 7 ->
  N.shiftr (j - 1) 8 = N.shiftr j 8 /\ N.shiftr (N.land (j - 1) 255) 3 = N.shiftr (N.land j 255) 3.
Proof.
  rewrite land_7, !land_255, !shiftr_8, !shiftr_3. intros Hj H7.
  assert (H256 : (j - 1) / 256 = j / 256) by lia.
  assert (H8 : (j - 1) / 8 = j / 8) by lia.
  split; [exact H256|].
  rewrite (N.mod_eq (j - 1) 256), (N.mod_eq j 256) by lia. rewrite H256. lia.
Qed.

(* 64-bit wrappers are exact in range *)
Lemma add64_small a b : a + b < two64 -> add64 a b = a + b.
Proof. intros. unfold add64. apply wrap64_small. assumption. Qed.
