(* C06: final statements about ShuffleList / UnshuffleList.
   (d) whole-list routine = per-index function applied to each position;
   (e) ShuffleList and UnshuffleList are mutually inverse;
   (f) the result is a Permutation of the input. *)
From Coq Require Import NArith ZArith Lia List Bool Permutation.
From Coq Require Import ZifyN ZifyNat ZifyBool.
From V Require Import Base.U64 Base.Outcome Shuffle.ShuffleModel Shuffle.ShuffleArith
  Shuffle.ShuffleIndexProofs Shuffle.ShuffleListProofs.
Import ListNotations.
Local Open Scope N_scope.

(* ---------- re-indexing a list by a bijection of its index range gives a permutation ---------- *)
Lemma NoDup_map_inj_on {X Y} (f : X -> Y) (l : list X) :
  NoDup l -> (forall x y, In x l -> In y l -> f x = f y -> x = y) -> NoDup (map f l).
Proof.
  induction 1 as [|a l Ha Hl IH]; intros Hinj; cbn; constructor.
  - intros Hin. apply in_map_iff in Hin. destruct Hin as (y & Hy & Hyl).
    assert (y = a) by (apply Hinj; [right; assumption|left; reflexivity|assumption]). subst. contradiction.
  - apply IH. intros x y Hx Hy. apply Hinj; right; assumption.
Qed.
Lemma nth_error_seq s n k : (k < n)%nat -> nth_error (seq s n) k = Some (s + k)%nat.
Proof.
  intros Hk. rewrite (nth_error_nth' (seq s n) O) by (rewrite seq_length; exact Hk).
  rewrite seq_nth by exact Hk. reflexivity.
Qed.

Lemma reindex_Permutation {A} (l l' : list A) (f g : N -> N) : let n := N.of_nat (length l) in
  length l' = length l ->
  (forall x, x < n -> f x < n) -> (forall x, x < n -> g (f x) = x) ->
  (forall x, x < n -> get l' x = get l (f x)) ->
  Permutation l' l.
Proof.
  intros n Hlen Hrange Hinv Hget.
  destruct l as [|d l0].
  { destruct l'; [constructor|discriminate]. }
  set (l := d :: l0) in *. set (n0 := length l).
  set (fn := fun k : nat => N.to_nat (f (N.of_nat k))).
  assert (Hfn : forall k, (k < n0)%nat -> (fn k < n0)%nat).
  { intros k Hk. unfold fn. specialize (Hrange (N.of_nat k)). subst n n0. lia. }
  assert (P : Permutation (map fn (seq 0 n0)) (seq 0 n0)).
  { apply NoDup_Permutation_bis.
    - apply NoDup_map_inj_on; [apply seq_NoDup|].
      intros x y Hx Hy E. apply in_seq in Hx. apply in_seq in Hy. unfold fn in E.
      assert (E' : f (N.of_nat x) = f (N.of_nat y)) by
        (pose proof (Hrange (N.of_nat x)); pose proof (Hrange (N.of_nat y)); subst n n0; lia).
      apply (f_equal g) in E'. rewrite !Hinv in E' by (subst n n0; lia). lia.
    - rewrite map_length. lia.
    - intros y Hy. apply in_map_iff in Hy. destruct Hy as (k & <- & Hk). apply in_seq in Hk.
      apply in_seq. specialize (Hfn k). lia. }
  assert (E1 : l' = map (fun k => nth k l d) (map fn (seq 0 n0))).
  { apply nth_error_ext_eq. intros k. destruct (Nat.lt_ge_cases k n0) as [Hk|Hk].
    - rewrite !nth_error_map, nth_error_seq by exact Hk. cbn [option_map plus].
      specialize (Hget (N.of_nat k) ltac:(subst n n0; lia)). unfold get in Hget. rewrite Nat2N.id in Hget.
      rewrite Hget. fold (fn k). apply nth_error_nth'. apply Hfn. exact Hk.
    - assert (nth_error l' k = None) as -> by (apply nth_error_None; subst n0; lia).
      symmetry. apply nth_error_None. rewrite !map_length, seq_length. exact Hk. }
  assert (E2 : l = map (fun k => nth k l d) (seq 0 n0)).
  { apply nth_error_ext_eq. intros k. destruct (Nat.lt_ge_cases k n0) as [Hk|Hk].
    - rewrite nth_error_map, nth_error_seq by exact Hk. cbn [option_map plus].
      apply nth_error_nth'. exact Hk.
    - assert (nth_error l k = None) as -> by (apply nth_error_None; exact Hk).
      symmetry. apply nth_error_None. rewrite map_length, seq_length. exact Hk. }
  rewrite E1. apply (Permutation_trans (l' := map (fun k => nth k l d) (seq 0 n0))).
  - apply Permutation_map. exact P.
  - rewrite <- E2. apply Permutation_refl.
Qed.

Section Final.
  Variable H : list N -> list N.
  Variable seed : list N.
  Context {A : Type}.

  Notation perm := (perm H seed).
  Notation unperm := (unperm H seed).

  Lemma rev_dir_rounds_true rounds : rev (dir_rounds true rounds) = rounds_bwd (N.to_nat rounds).
  Proof. unfold dir_rounds. rewrite <- rounds_bwd_rev. reflexivity. Qed.
  Lemma rev_dir_rounds_false rounds : rev (dir_rounds false rounds) = rounds_fwd (N.to_nat rounds).
  Proof. unfold dir_rounds. rewrite <- rounds_fwd_rev. reflexivity. Qed.

  (* in terms of the pure permutation *)
  Lemma unshuffle_list_perm rounds (l : list A) : let n := N.of_nat (length l) in
    rounds <= 255 -> n < max_size ->
    exists l', unshuffle_list H seed rounds l = Ok l' /\ length l' = length l /\
      forall x, x < n -> get l' x = get l (perm n rounds x).
  Proof.
    intros n HR Hmax. destruct (inner_shuffle_list_spec H seed rounds l false HR Hmax) as (l' & E & L & G).
    exists l'. split; [exact E|]. split; [exact L|]. intros x Hx. rewrite G by exact Hx.
    rewrite rev_dir_rounds_false. reflexivity.
  Qed.
  Lemma shuffle_list_unperm rounds (l : list A) : let n := N.of_nat (length l) in
    rounds <= 255 -> n < max_size ->
    exists l', shuffle_list H seed rounds l = Ok l' /\ length l' = length l /\
      forall x, x < n -> get l' x = get l (unperm n rounds x).
  Proof.
    intros n HR Hmax. destruct (inner_shuffle_list_spec H seed rounds l true HR Hmax) as (l' & E & L & G).
    exists l'. split; [exact E|]. split; [exact L|]. intros x Hx. rewrite G by exact Hx.
    rewrite rev_dir_rounds_true. reflexivity.
  Qed.

  (* (d) THE MAIN THEOREM, stated with the Go functions on both sides:
     UnshuffleList(l)[i] = l[PermuteIndex(i)]   for every position i *)
  Theorem unshuffle_list_spec rounds (l : list A) : let n := N.of_nat (length l) in
    rounds <= 255 -> n < max_size ->
    exists l', unshuffle_list H seed rounds l = Ok l' /\ length l' = length l /\
      forall i, i < n -> exists j, permute_index H seed rounds i n = Ok j /\ j < n /\
                                   nth_error l' (N.to_nat i) = nth_error l (N.to_nat j).
  Proof.
    intros n HR Hmax. destruct (unshuffle_list_perm rounds l HR Hmax) as (l' & E & L & G).
    exists l'. split; [exact E|]. split; [exact L|]. intros i Hi.
    assert (Hn : 0 < n) by lia. assert (Hm : n <= max_size) by lia.
    exists (perm n rounds i). split; [apply permute_index_eq; assumption|].
    split; [apply perm_lt; assumption|]. apply G. exact Hi.
  Qed.
  (* the dual:  ShuffleList(l)[PermuteIndex(i)] = l[i],  i.e.  ShuffleList(l)[i] = l[UnpermuteIndex(i)] *)
  Theorem shuffle_list_spec rounds (l : list A) : let n := N.of_nat (length l) in
    rounds <= 255 -> n < max_size ->
    exists l', shuffle_list H seed rounds l = Ok l' /\ length l' = length l /\
      (forall i, i < n -> exists j, permute_index H seed rounds i n = Ok j /\ j < n /\
                                    nth_error l' (N.to_nat j) = nth_error l (N.to_nat i)) /\
      (forall i, i < n -> exists j, unpermute_index H seed rounds i n = Ok j /\ j < n /\
                                    nth_error l' (N.to_nat i) = nth_error l (N.to_nat j)).
  Proof.
    intros n HR Hmax. destruct (shuffle_list_unperm rounds l HR Hmax) as (l' & E & L & G).
    exists l'. split; [exact E|]. split; [exact L|]. split; intros i Hi;
      assert (Hn : 0 < n) by lia; assert (Hm : n <= max_size) by lia.
    - exists (perm n rounds i). split; [apply permute_index_eq; assumption|].
      split; [apply perm_lt; assumption|].
      change (get l' (perm n rounds i) = get l i).
      rewrite G by (apply perm_lt; assumption). rewrite unperm_perm by assumption. reflexivity.
    - exists (unperm n rounds i). split; [apply unpermute_index_eq; assumption|].
      split; [apply unperm_lt; assumption|]. apply G. exact Hi.
  Qed.

  (* with `nth` and any default, as in the informal statement *)
  Corollary unshuffle_list_nth rounds (l : list A) d : let n := N.of_nat (length l) in
    rounds <= 255 -> n < max_size ->
    exists l', unshuffle_list H seed rounds l = Ok l' /\
      forall i, i < n -> exists j, permute_index H seed rounds i n = Ok j /\
                                   nth (N.to_nat i) l' d = nth (N.to_nat j) l d.
  Proof.
    intros n HR Hmax. destruct (unshuffle_list_spec rounds l HR Hmax) as (l' & E & L & G).
    exists l'. split; [exact E|]. intros i Hi. destruct (G i Hi) as (j & Ej & Hj & Gj).
    exists j. split; [exact Ej|].
    rewrite (nth_error_nth' l d) in Gj by (subst n; lia).
    apply nth_error_nth. exact Gj.
  Qed.

  (* (e) mutually inverse *)
  Theorem unshuffle_shuffle rounds (l : list A) :
    rounds <= 255 -> N.of_nat (length l) < max_size ->
    exists l1, shuffle_list H seed rounds l = Ok l1 /\ unshuffle_list H seed rounds l1 = Ok l.
  Proof.
    intros HR Hmax. destruct (shuffle_list_unperm rounds l HR Hmax) as (l1 & E1 & L1 & G1).
    exists l1. split; [exact E1|].
    destruct (unshuffle_list_perm rounds l1 HR ltac:(rewrite L1; exact Hmax)) as (l2 & E2 & L2 & G2).
    rewrite E2. f_equal. apply get_ext; [lia|]. intros x Hx.
    rewrite L2, L1 in Hx. rewrite L1 in G2.
    rewrite G2 by exact Hx. rewrite G1 by (apply perm_lt; lia). rewrite unperm_perm by lia. reflexivity.
  Qed.
  Theorem shuffle_unshuffle rounds (l : list A) :
    rounds <= 255 -> N.of_nat (length l) < max_size ->
    exists l1, unshuffle_list H seed rounds l = Ok l1 /\ shuffle_list H seed rounds l1 = Ok l.
  Proof.
    intros HR Hmax. destruct (unshuffle_list_perm rounds l HR Hmax) as (l1 & E1 & L1 & G1).
    exists l1. split; [exact E1|].
    destruct (shuffle_list_unperm rounds l1 HR ltac:(rewrite L1; exact Hmax)) as (l2 & E2 & L2 & G2).
    rewrite E2. f_equal. apply get_ext; [lia|]. intros x Hx.
    rewrite L2, L1 in Hx. rewrite L1 in G2.
    rewrite G2 by exact Hx. rewrite G1 by (apply unperm_lt; lia). rewrite perm_unperm by lia. reflexivity.
  Qed.

  (* (f) no element lost or duplicated *)
  Theorem shuffle_list_Permutation rounds (l : list A) :
    rounds <= 255 -> N.of_nat (length l) < max_size ->
    exists l', shuffle_list H seed rounds l = Ok l' /\ Permutation l' l.
  Proof.
    intros HR Hmax. destruct (shuffle_list_unperm rounds l HR Hmax) as (l' & E & L & G).
    exists l'. split; [exact E|].
    apply (reindex_Permutation l l' (unperm (N.of_nat (length l)) rounds) (perm (N.of_nat (length l)) rounds)); try assumption.
    - intros x Hx. apply unperm_lt; lia.
    - intros x Hx. apply perm_unperm; lia.
  Qed.
  Theorem unshuffle_list_Permutation rounds (l : list A) :
    rounds <= 255 -> N.of_nat (length l) < max_size ->
    exists l', unshuffle_list H seed rounds l = Ok l' /\ Permutation l' l.
  Proof.
    intros HR Hmax. destruct (unshuffle_list_perm rounds l HR Hmax) as (l' & E & L & G).
    exists l'. split; [exact E|].
    apply (reindex_Permutation l l' (perm (N.of_nat (length l)) rounds) (unperm (N.of_nat (length l)) rounds)); try assumption.
    - intros x Hx. apply perm_lt; lia.
    - intros x Hx. apply unperm_perm; lia.
  Qed.

  (* the property's headline: the whole-list routines against the SPECIFICATION's per-index function
     (needs the spec's own size limit and a hash that returns bytes) *)
  Theorem unshuffle_list_is_spec rounds (l : list A) : let n := N.of_nat (length l) in
    (forall m, bytes_ok (H m)) -> rounds <= 255 -> n <= spec_limit ->
    exists l', unshuffle_list H seed rounds l = Ok l' /\ length l' = length l /\
      forall i, i < n -> exists j, compute_shuffled_index H seed rounds i n = Some j /\ j < n /\
                                   nth_error l' (N.to_nat i) = nth_error l (N.to_nat j).
  Proof.
    intros n Hb HR Hlim.
    assert (Hmax : n < max_size) by (unfold spec_limit, max_size in *; lia).
    destruct (unshuffle_list_spec rounds l HR Hmax) as (l' & E & L & G).
    exists l'. split; [exact E|]. split; [exact L|]. intros i Hi.
    destruct (G i Hi) as (j & Ej & Hj & Gj).
    destruct (permute_index_is_spec H seed Hb rounds i n HR ltac:(lia) Hlim Hi) as (j' & Ej' & Sj' & _).
    fold n in Ej. rewrite Ej in Ej'. injection Ej' as <-. exists j. auto.
  Qed.
  Theorem shuffle_list_is_spec rounds (l : list A) : let n := N.of_nat (length l) in
    (forall m, bytes_ok (H m)) -> rounds <= 255 -> n <= spec_limit ->
    exists l', shuffle_list H seed rounds l = Ok l' /\ length l' = length l /\
      forall i, i < n -> exists j, compute_shuffled_index H seed rounds i n = Some j /\ j < n /\
                                   nth_error l' (N.to_nat j) = nth_error l (N.to_nat i).
  Proof.
    intros n Hb HR Hlim.
    assert (Hmax : n < max_size) by (unfold spec_limit, max_size in *; lia).
    destruct (shuffle_list_spec rounds l HR Hmax) as (l' & E & L & G & _).
    exists l'. split; [exact E|]. split; [exact L|]. intros i Hi.
    destruct (G i Hi) as (j & Ej & Hj & Gj).
    destruct (permute_index_is_spec H seed Hb rounds i n HR ltac:(lia) Hlim Hi) as (j' & Ej' & Sj' & _).
    fold n in Ej. rewrite Ej in Ej'. injection Ej' as <-. exists j. auto.
  Qed.

  (* trivial shapes: the early return of the Go code *)
  Lemma shuffle_list_trivial rounds (l : list A) dir :
    (length l <= 1)%nat \/ rounds = 0 -> inner_shuffle_list H seed rounds l dir = Ok l.
  Proof.
    intros Ht. unfold inner_shuffle_list.
    replace ((N.of_nat (length l) <=? 1) || (rounds =? 0)) with true; [reflexivity|].
    symmetry. apply orb_true_iff. destruct Ht as [Ht| ->]; [left; apply N.leb_le; lia|right; reflexivity].
  Qed.
End Final.
