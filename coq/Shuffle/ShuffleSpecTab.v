(* C06: a faster EVALUATOR of the specification, proved equal to it.
   compute_shuffled_index hashes twice per round per index.  Judging a whole list of n positions
   against the spec therefore costs 2*n*R hashes; here the R pivot hashes and the R*ceil(n/256)
   source hashes are computed once (spec_tables) and looked up.  spec_all_eq states that the result
   is exactly  map (compute_shuffled_index ..) (positions) ; ShuffleRun.spec_ok uses spec_all. *)
From Coq Require Import NArith ZArith Lia List Bool.
From Coq Require Import ZifyN ZifyNat ZifyBool.
From V Require Import Base.U64 Base.Outcome Shuffle.ShuffleModel.
Import ListNotations.
Local Open Scope N_scope.
Ltac Zify.zify_post_hook ::= Z.div_mod_to_equations.

Section SpecTab.
  Variable H : list N -> list N.
  Variable seed : list N.

  (* spec_round with the two hashes abstracted *)
  Definition spec_round_with (pivot : N) (source_of_block : N -> list N)
             (index_count index current_round : N) : option N :=
    if 256 <=? current_round then None else
    let flip := (pivot + index_count - index) mod index_count in
    let position := N.max index flip in
    if 4294967296 <=? position / 256 then None else
    let source := source_of_block (position / 256) in
    let byte := nth (N.to_nat ((position mod 256) / 8)) source 0 in
    let bit := (byte / 2 ^ (position mod 8)) mod 2 in
    Some (if bit =? 0 then index else flip).

  Definition pivot_spec (index_count r : N) : N :=
    bytes_to_uint (firstn 8 (H (seed ++ uint_to_bytes 1 r))) mod index_count.
  Definition source_hash_spec (r blk : N) : list N := H (seed ++ uint_to_bytes 1 r ++ uint_to_bytes 4 blk).

  Lemma spec_round_is_with n i r :
    spec_round H seed n i r = spec_round_with (pivot_spec n r) (source_hash_spec r) n i r.
  Proof. reflexivity. Qed.

  Lemma spec_round_with_ext p s1 s2 n i r :
    (forall blk, blk * 256 < n -> s1 blk = s2 blk) -> 0 < n -> i < n ->
    spec_round_with p s1 n i r = spec_round_with p s2 n i r.
  Proof.
    intros E Hn Hi. unfold spec_round_with.
    destruct (256 <=? r); [reflexivity|].
    assert (Hf : (p + n - i) mod n < n) by (apply N.mod_lt; lia).
    set (f := (p + n - i) mod n) in *.
    assert (Hpos : N.max i f < n) by lia. set (pos := N.max i f) in *.
    destruct (4294967296 <=? pos / 256); [reflexivity|].
    rewrite E; [reflexivity|]. lia.
  Qed.
  Lemma spec_round_with_lt p s n i r j : 0 < n -> i < n -> spec_round_with p s n i r = Some j -> j < n.
  Proof.
    intros Hn Hi. unfold spec_round_with.
    destruct (256 <=? r); [discriminate|].
    assert (Hf : (p + n - i) mod n < n) by (apply N.mod_lt; lia).
    set (f := (p + n - i) mod n) in *.
    destruct (4294967296 <=? N.max i f / 256); [discriminate|].
    destruct (_ =? 0); intros E; injection E as <-; assumption.
  Qed.

  (* tables: one entry per round *)
  Definition round_table (index_count : N) (nblk : nat) (r : N) : N * (N * list (list N)) :=
    (r, (pivot_spec index_count r, map (fun b => source_hash_spec r (N.of_nat b)) (seq 0 nblk))).
  Definition spec_tables (rounds index_count : N) (nblk : nat) : list (N * (N * list (list N))) :=
    map (fun r => round_table index_count nblk (N.of_nat r)) (seq 0 (N.to_nat rounds)).
  Definition lookup (tab : list (list N)) (blk : N) : list N :=
    match nth_error tab (N.to_nat blk) with Some s => s | None => [] end.

  Definition shuffled_index_tab (tabs : list (N * (N * list (list N)))) (index index_count : N) : option N :=
    if index <? index_count then
      fold_left (fun acc t => match acc with
                              | Some i => spec_round_with (fst (snd t)) (lookup (snd (snd t))) index_count i (fst t)
                              | None => None end) tabs (Some index)
    else None.

  Lemma lookup_table nblk r blk : (N.to_nat blk < nblk)%nat ->
    lookup (map (fun b => source_hash_spec r (N.of_nat b)) (seq 0 nblk)) blk = source_hash_spec r blk.
  Proof.
    intros Hb. unfold lookup. rewrite nth_error_map.
    rewrite (nth_error_nth' (seq 0 nblk) O) by (rewrite seq_length; exact Hb).
    rewrite seq_nth by exact Hb. cbn [option_map plus]. rewrite N2Nat.id. reflexivity.
  Qed.

  Lemma shuffled_index_tab_eq rounds nblk i n : n <= 256 * N.of_nat nblk ->
    shuffled_index_tab (spec_tables rounds n nblk) i n = compute_shuffled_index H seed rounds i n.
  Proof.
    intros Hblk. unfold shuffled_index_tab, compute_shuffled_index, spec_tables.
    destruct (N.ltb_spec i n) as [Hi|Hi]; [|reflexivity].
    assert (Hn : 0 < n) by lia.
    generalize (seq 0 (N.to_nat rounds)). intros rs. revert i Hi.
    induction rs as [|r rs IH]; intros i Hi; [reflexivity|].
    cbn [map fold_left round_table fst snd].
    rewrite spec_round_is_with.
    rewrite (spec_round_with_ext _ (lookup _) (source_hash_spec (N.of_nat r)) n i (N.of_nat r)); try assumption.
    - destruct (spec_round_with _ _ n i (N.of_nat r)) as [j|] eqn:E.
      + apply IH. eapply spec_round_with_lt; eassumption.
      + clear. induction rs as [|r' rs IH']; [reflexivity|]. cbn [map fold_left]. rewrite IH'.
        symmetry. clear. induction rs as [|r'' rs IH'']; [reflexivity|]. cbn [map fold_left]. exact IH''.
    - intros blk Hb. apply lookup_table. lia.
  Qed.

  (* every position of a list of n elements, sharing the tables *)
  Definition spec_all (rounds : N) (n : nat) : list (option N) :=
    let nblk := S (n / 256) in
    let tabs := spec_tables rounds (N.of_nat n) nblk in
    map (fun i => shuffled_index_tab tabs (N.of_nat i) (N.of_nat n)) (seq 0 n).

  Theorem spec_all_eq rounds n :
    spec_all rounds n = map (fun i => compute_shuffled_index H seed rounds (N.of_nat i) (N.of_nat n)) (seq 0 n).
  Proof.
    unfold spec_all. apply map_ext. intros i. apply shuffled_index_tab_eq.
    pose proof (Nat.div_mod n 256 ltac:(lia)). pose proof (Nat.mod_upper_bound n 256 ltac:(lia)). lia.
  Qed.

  (* "for every position i < n the spec value s is defined, in range and rel i s holds", with shared tables *)
  Definition all_positions (rounds : N) (n : nat) (rel : N -> N -> bool) : bool :=
    forallb (fun p => match snd p with
                      | Some s => (s <? N.of_nat n) && rel (N.of_nat (fst p)) s
                      | None => false end)
            (combine (seq 0 n) (spec_all rounds n)).
  Theorem all_positions_spec rounds n rel :
    all_positions rounds n rel =
    forallb (fun i => match compute_shuffled_index H seed rounds (N.of_nat i) (N.of_nat n) with
                      | Some s => (s <? N.of_nat n) && rel (N.of_nat i) s
                      | None => false end) (seq 0 n).
  Proof.
    unfold all_positions. rewrite spec_all_eq. generalize (seq 0 n) as l. intros l.
    induction l as [|i l IH]; [reflexivity|]. cbn [map combine forallb fst snd]. rewrite IH. reflexivity.
  Qed.
End SpecTab.
