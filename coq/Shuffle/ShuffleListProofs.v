(* C06 (d): the whole-list routine innerShuffleList.
   seg_loop_spec   : loop invariant of one mirrored segment loop, including the CACHED source hash and byte
                     (cache_inv) and the pairs (i, c-i) being visited exactly once;
   list_round_spec : one outer iteration = apply that round's swap-or-not to every position;
   inner_shuffle_list_spec : all rounds. *)
From Coq Require Import NArith ZArith Lia List Bool.
From Coq Require Import ZifyN ZifyNat ZifyBool.
From V Require Import Base.U64 Base.Outcome Shuffle.ShuffleModel Shuffle.ShuffleArith Shuffle.ShuffleIndexProofs.
Import ListNotations.
Local Open Scope N_scope.
Ltac Zify.zify_post_hook ::= Z.div_mod_to_equations.

(* ---------- functional slices ---------- *)
Definition get {A} (l : list A) (x : N) : option A := nth_error l (N.to_nat x).

Lemma set_nth_length {A} k (v : A) l : length (set_nth k v l) = length l.
Proof. revert k. induction l as [|a l IH]; intros [|k]; cbn; auto. Qed.
Lemma set_nth_same {A} k (v : A) l : (k < length l)%nat -> nth_error (set_nth k v l) k = Some v.
Proof. revert k. induction l as [|a l IH]; intros [|k] Hk; cbn in *; try lia; auto. apply IH. lia. Qed.
Lemma set_nth_other {A} k k' (v : A) l : k' <> k -> nth_error (set_nth k v l) k' = nth_error l k'.
Proof. revert k k'. induction l as [|a l IH]; intros [|k] [|k'] Hk; cbn; try congruence; auto. Qed.

Lemma get_Some_lt {A} (l : list A) x : x < N.of_nat (length l) -> exists a, get l x = Some a.
Proof.
  intros Hx. unfold get. destruct (nth_error l (N.to_nat x)) eqn:E; [eauto|].
  apply nth_error_None in E. lia.
Qed.

Lemma swap_spec {A} (l : list A) i j : i < N.of_nat (length l) -> j < N.of_nat (length l) ->
  exists l', swap l i j = Ok l' /\ length l' = length l /\
    get l' i = get l j /\ get l' j = get l i /\ (forall x, x <> i -> x <> j -> get l' x = get l x).
Proof.
  intros Hi Hj. unfold swap.
  destruct (get_Some_lt l i Hi) as [a Ha]. destruct (get_Some_lt l j Hj) as [b Hb].
  unfold get in *. rewrite Ha, Hb. eexists. split; [reflexivity|].
  split; [rewrite !set_nth_length; reflexivity|].
  split; [|split].
  - destruct (N.eq_dec i j) as [->|Hne].
    + rewrite set_nth_same by (rewrite set_nth_length; lia). congruence.
    + rewrite set_nth_other by lia. rewrite set_nth_same by lia. reflexivity.
  - rewrite set_nth_same by (rewrite set_nth_length; lia). reflexivity.
  - intros x Hxi Hxj. rewrite !set_nth_other by lia. reflexivity.
Qed.

Lemma nth_error_ext_eq {A} (a b : list A) : (forall k, nth_error a k = nth_error b k) -> a = b.
Proof.
  revert b. induction a as [|x a IH]; intros [|y b] E.
  - reflexivity.
  - specialize (E O). discriminate.
  - specialize (E O). discriminate.
  - pose proof (E O) as E0. cbn in E0. injection E0 as ->. f_equal. apply IH. intros k. apply (E (S k)).
Qed.
Lemma get_ext {A} (a b : list A) : length a = length b ->
  (forall x, x < N.of_nat (length a) -> get a x = get b x) -> a = b.
Proof.
  intros Hl E. apply nth_error_ext_eq. intros k.
  destruct (Nat.lt_ge_cases k (length a)) as [Hk|Hk].
  - specialize (E (N.of_nat k) ltac:(lia)). unfold get in E. rewrite Nat2N.id in E. exact E.
  - assert (nth_error a k = None) as -> by (apply nth_error_None; lia).
    symmetry. apply nth_error_None. lia.
Qed.

Section ListProofs.
  Variable H : list N -> list N.
  Variable seed : list N.
  Context {A : Type}.

  Notation coin := (coin H seed).
  Notation step := (step H seed).
  Notation apply_rounds := (apply_rounds H seed).

  (* what the per-index function does to a position x of a mirrored segment with i + j = c *)
  Definition sig (r c x : N) : N := if coin r (N.max x (c - x)) then c - x else x.

  (* THE CACHE INVARIANT at the head of an iteration with loop variable j:
     unless this iteration refreshes them, the cached block and byte are the ones the per-index
     function would compute freshly for position j *)
  Definition cache_inv (r j : N) (source : list N) (byteV : N) : Prop :=
    (N.land j 255 <> 255 -> source = go_source H seed r j) /\
    (N.land j 7 <> 7 -> byteV = go_byte (go_source H seed r j) j).

  Lemma cache_inv_init r j : cache_inv r j (go_source H seed r j) (go_byte (go_source H seed r j) j).
  Proof. split; reflexivity. Qed.

  Lemma go_source_block r j j' : N.shiftr j' 8 = N.shiftr j 8 -> go_source H seed r j' = go_source H seed r j.
  Proof. unfold go_source. intros ->. reflexivity. Qed.

  Lemma cache_inv_next r j : 0 < j ->
    cache_inv r (j - 1) (go_source H seed r j) (go_byte (go_source H seed r j) j).
  Proof.
    intros Hj. split; intros Hne.
    - symmetry. apply go_source_block. apply block_stable; assumption.
    - destruct (byte_stable j Hj Hne) as [E1 E2].
      rewrite (go_source_block r j (j - 1) E1). unfold go_byte. rewrite E2. reflexivity.
  Qed.

  Definition in_seg (c i j mirror x : N) : Prop := (i <= x /\ x < mirror) \/ (c < x + mirror /\ x <= j).

  (* one segment loop: pairs (i,j), (i+1,j-1), .. with i + j = c, while i < mirror *)
  Lemma seg_loop_spec r c mirror : 2 * mirror <= c + 1 ->
    forall k fuel i j source byteV (l : list A),
    mirror = i + N.of_nat k -> (k < fuel)%nat -> i + j = c ->
    j < N.of_nat (length l) -> N.of_nat (length l) < max_size ->
    cache_inv r j source byteV ->
    exists l', seg_loop H seed fuel r i j mirror source byteV l = Ok l' /\ length l' = length l /\
      (forall x, in_seg c i j mirror x -> get l' x = get l (sig r c x)) /\
      (forall x, ~ in_seg c i j mirror x -> get l' x = get l x).
  Proof.
    intros Hm. unfold max_size. induction k as [|k IH]; intros fuel i j source byteV l Hk Hf Hc Hj Hlen Hinv;
      (destruct fuel as [|f]; [lia|]); cbn [seg_loop].
    - replace (i <? mirror) with false by (symmetry; apply N.ltb_ge; lia).
      exists l. split; [reflexivity|]. split; [reflexivity|]. split; [|reflexivity].
      intros x Hx. unfold in_seg in Hx. lia.
    - replace (i <? mirror) with true by (symmetry; apply N.ltb_lt; lia).
      destruct Hinv as [Hsrc Hbyte].
      (* the refreshed-or-cached source and byte are the fresh ones *)
      assert (Esrc : (if N.land j 255 =? 255 then go_source H seed r j else source) = go_source H seed r j).
      { destruct (N.eqb_spec (N.land j 255) 255); [reflexivity|auto]. }
      rewrite Esrc.
      assert (Ebyte : (if N.land j 7 =? 7 then go_byte (go_source H seed r j) j else byteV)
                      = go_byte (go_source H seed r j) j).
      { destruct (N.eqb_spec (N.land j 7) 7); [reflexivity|auto]. }
      rewrite Ebyte.
      change (go_bit (go_byte (go_source H seed r j) j) j =? 1) with (coin r j).
      assert (Hij : i < j) by lia.
      rewrite add64_small by (unfold two64; lia). rewrite sub64_ge by lia.
      (* the list after this iteration *)
      assert (Hl1 : exists l1, (if coin r j then swap l i j else Ok l) = Ok l1 /\ length l1 = length l /\
                get l1 i = (if coin r j then get l j else get l i) /\
                get l1 j = (if coin r j then get l i else get l j) /\
                (forall x, x <> i -> x <> j -> get l1 x = get l x)).
      { destruct (coin r j).
        - destruct (swap_spec l i j ltac:(lia) Hj) as (l1 & E & L & G1 & G2 & G3). exists l1. auto.
        - exists l. auto. }
      destruct Hl1 as (l1 & E1 & L1 & Gi & Gj & Go). rewrite E1. cbn [bind].
      destruct (IH f (i + 1) (j - 1) (go_source H seed r j) (go_byte (go_source H seed r j) j) l1)
        as (l' & E' & L' & HA & HB); try lia.
      { apply cache_inv_next. lia. }
      exists l'. split; [exact E'|]. split; [lia|].
      assert (Hjm : mirror <= j) by lia.
      split.
      + intros x Hx. unfold in_seg in Hx.
        destruct (N.eq_dec x i) as [->|Hxi]; [|destruct (N.eq_dec x j) as [->|Hxj]].
        * rewrite HB by (unfold in_seg; lia). rewrite Gi. unfold sig.
          replace (c - i) with j by lia. replace (N.max i j) with j by lia.
          destruct (coin r j); reflexivity.
        * rewrite HB by (unfold in_seg; lia). rewrite Gj. unfold sig.
          replace (c - j) with i by lia. replace (N.max j i) with j by lia.
          destruct (coin r j); reflexivity.
        * rewrite HA by (unfold in_seg; lia). apply Go; unfold sig; destruct (coin r (N.max x (c - x))); lia.
      + intros x Hx. unfold in_seg in Hx.
        rewrite HB by (unfold in_seg; lia). apply Go; lia.
  Qed.

  (* the per-index step on the two segments *)
  Lemma step_low n r x : 0 < n -> x <= go_pivot H seed n r ->
    step n r x = sig r (go_pivot H seed n r) x.
  Proof.
    intros Hn Hx. pose proof (go_pivot_lt H seed n r Hn) as Hp. unfold step, sw, sig.
    destruct (flipN_cases n (go_pivot H seed n r) x Hp ltac:(lia)) as [[_ ->]|[? _]]; [reflexivity|lia].
  Qed.
  Lemma step_high n r x : 0 < n -> go_pivot H seed n r < x -> x < n ->
    step n r x = sig r (go_pivot H seed n r + n) x.
  Proof.
    intros Hn Hx Hxn. pose proof (go_pivot_lt H seed n r Hn) as Hp. unfold step, sw, sig.
    destruct (flipN_cases n (go_pivot H seed n r) x Hp Hxn) as [[? _]|[_ ->]]; [lia|reflexivity].
  Qed.

  (* ONE ROUND of the list routine = that round's swap-or-not applied to every position *)
  Lemma list_round_spec r (l : list A) : let n := N.of_nat (length l) in
    0 < n -> n < max_size ->
    exists l', list_round H seed n r l = Ok l' /\ length l' = length l /\
      forall x, x < n -> get l' x = get l (step n r x).
  Proof.
    intros n Hn Hmax. unfold list_round.
    pose proof (go_pivot_lt H seed n r Hn) as Hp. set (p := go_pivot H seed n r) in *.
    unfold max_size in Hmax.
    rewrite (add64_small p 1) by (unfold two64; lia).
    rewrite (add64_small p n) by (unfold two64; lia).
    rewrite (add64_small (p + n) 1) by (unfold two64; lia).
    rewrite sub64_ge by lia. rewrite !shiftr_1.
    set (m1 := (p + 1) / 2). set (m2 := (p + n + 1) / 2).
    (* segment 1: positions 0..p, pairs (i, p - i) *)
    destruct (seg_loop_spec r p m1 ltac:(subst m1; lia) (N.to_nat m1) (S (length l)) 0 p
                (go_source H seed r p) (go_byte (go_source H seed r p) p) l)
      as (l1 & E1 & L1 & A1 & B1); try (subst m1; unfold max_size; lia).
    { apply cache_inv_init. }
    rewrite E1. cbn [bind].
    (* segment 2: positions p+1..n-1, pairs (i, p + n - i) *)
    destruct (seg_loop_spec r (p + n) m2 ltac:(subst m2; lia) (N.to_nat (m2 - (p + 1))) (S (length l)) (p + 1) (n - 1)
                (go_source H seed r (n - 1)) (go_byte (go_source H seed r (n - 1)) (n - 1)) l1)
      as (l2 & E2 & L2 & A2 & B2); try (subst m2; unfold max_size; lia).
    { apply cache_inv_init. }
    replace (length l1) with (length l) in E2 by lia. rewrite E2.
    exists l2. split; [reflexivity|]. split; [lia|].
    intros x Hx. destruct (N.le_gt_cases x p) as [Hlow|Hhigh].
    - (* x in the first segment: untouched by the second loop *)
      rewrite B2 by (unfold in_seg; subst m2; lia).
      rewrite step_low by assumption. fold p.
      destruct (N.lt_ge_cases x m1) as [Hc1|Hc1]; [apply A1; unfold in_seg; lia|].
      destruct (N.lt_ge_cases p (x + m1)) as [Hc2|Hc2]; [apply A1; unfold in_seg; lia|].
      (* the middle element of an odd-length segment: its own partner *)
      rewrite B1 by (unfold in_seg; lia). unfold sig.
      replace (p - x) with x by (subst m1; lia). destruct (coin r (N.max x x)); reflexivity.
    - rewrite step_high by assumption. fold p.
      assert (Hs : p < sig r (p + n) x) by (unfold sig; destruct (coin r (N.max x (p + n - x))); lia).
      destruct (N.lt_ge_cases x m2) as [Hc1|Hc1];
        [rewrite A2 by (unfold in_seg; lia); apply B1; unfold in_seg; lia|].
      destruct (N.lt_ge_cases (p + n) (x + m2)) as [Hc2|Hc2];
        [rewrite A2 by (unfold in_seg; lia); apply B1; unfold in_seg; lia|].
      rewrite B2 by (unfold in_seg; lia). rewrite B1 by (unfold in_seg; lia). unfold sig.
      replace (p + n - x) with x by (subst m2; lia). destruct (coin r (N.max x x)); reflexivity.
  Qed.

  (* the same, phrased with the Go loop body of innerPermuteIndex *)
  Lemma list_round_is_index_round r (l : list A) : let n := N.of_nat (length l) in
    0 < n -> n < max_size ->
    exists l', list_round H seed n r l = Ok l' /\ length l' = length l /\
      forall x, x < n -> exists y, index_round H seed n r x = Ok y /\
                                   nth_error l' (N.to_nat x) = nth_error l (N.to_nat y).
  Proof.
    intros n Hn Hmax. destruct (list_round_spec r l Hn Hmax) as (l' & E & L & G).
    exists l'. split; [exact E|]. split; [exact L|]. intros x Hx. exists (step n r x).
    split; [apply index_round_step; try assumption; apply N.lt_le_incl; assumption|apply G; assumption].
  Qed.

  (* all the rounds of a run: position x receives the element that the per-index function,
     run through the same rounds in the opposite order, points at *)
  Lemma run_list_rounds n rs : 0 < n -> n < max_size ->
    forall (l : list A), N.of_nat (length l) = n ->
    exists l', run_rounds (list_round H seed n) rs l = Ok l' /\ length l' = length l /\
      forall x, x < n -> get l' x = get l (apply_rounds n (rev rs) x).
  Proof.
    intros Hn Hmax. induction rs as [|r rs IH]; intros l Hl.
    - exists l. split; [reflexivity|]. split; [reflexivity|]. intros; reflexivity.
    - rewrite run_rounds_cons.
      destruct (list_round_spec r l ltac:(lia) ltac:(lia)) as (l1 & E1 & L1 & G1).
      rewrite Hl in E1, G1. rewrite E1. cbn [bind].
      destruct (IH l1 ltac:(lia)) as (l' & E' & L' & G'). exists l'.
      split; [exact E'|]. split; [lia|]. intros x Hx.
      rewrite G' by assumption. cbn [rev]. rewrite apply_rounds_app. cbn.
      apply G1. apply apply_rounds_lt; assumption.
  Qed.

  (* innerShuffleList, both directions; never panics, never runs out of fuel *)
  Theorem inner_shuffle_list_spec rounds (l : list A) dir : let n := N.of_nat (length l) in
    rounds <= 255 -> n < max_size ->
    exists l', inner_shuffle_list H seed rounds l dir = Ok l' /\ length l' = length l /\
      forall x, x < n -> get l' x = get l (apply_rounds n (rev (dir_rounds dir rounds)) x).
  Proof.
    intros n HR Hmax. unfold inner_shuffle_list. fold n.
    destruct ((n <=? 1) || (rounds =? 0)) eqn:Etriv.
    - exists l. split; [reflexivity|]. split; [reflexivity|]. intros x Hx. f_equal.
      apply orb_true_iff in Etriv. destruct Etriv as [E|E].
      + apply N.leb_le in E. pose proof (apply_rounds_lt H seed n (rev (dir_rounds dir rounds)) x ltac:(lia) Hx). lia.
      + apply N.eqb_eq in E. subst rounds. destruct dir; reflexivity.
    - apply orb_false_iff in Etriv. destruct Etriv as [E1 E2].
      apply N.leb_gt in E1. apply N.eqb_neq in E2.
      rewrite round_loop_dir by lia.
      apply run_list_rounds; try assumption; try lia; reflexivity.
  Qed.
End ListProofs.
