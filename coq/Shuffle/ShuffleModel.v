(* C06: implementation model (Impl) of zrnt's swap-or-not shuffling and the
   consensus specification's compute_shuffled_index (Spec).  No proofs here, so the
   model still runs when a proof breaks.
   Go source: /repo/eth2/beacon/common/shuffle.go
     innerPermuteIndex  -> inner_permute_index   (PermuteIndex / UnpermuteIndex)
     innerShuffleList   -> inner_shuffle_list    (ShuffleList / UnshuffleList)
   Everything is parametric in the hash H : list N -> list N (bytes are N < 256) and the seed. *)
From Coq Require Import NArith List Bool.
From V Require Import Base.U64 Base.Outcome.
Import ListNotations.
Local Open Scope N_scope.

(* ---------- machine arithmetic used by the Go code ---------- *)
Definition wrap8 (x : N) : N := x mod 256.              (* uint8 *)
Definition wrap32 (x : N) : N := x mod 4294967296.      (* uint32(x) *)

(* binary.LittleEndian.Uint64(b):
   uint64(b[0]) | uint64(b[1])<<8 | ... | uint64(b[7])<<56   (b = h[:8], h a [32]byte) *)
Definition byte_at (h : list N) (k : nat) : N := nth k h 0.
Definition le_uint64 (h : list N) : N :=
  N.lor (N.lor (N.lor (N.lor (N.lor (N.lor (N.lor
    (byte_at h 0)
    (N.shiftl (byte_at h 1) 8))
    (N.shiftl (byte_at h 2) 16))
    (N.shiftl (byte_at h 3) 24))
    (N.shiftl (byte_at h 4) 32))
    (N.shiftl (byte_at h 5) 40))
    (N.shiftl (byte_at h 6) 48))
    (N.shiftl (byte_at h 7) 56).
(* binary.LittleEndian.PutUint32(buf, v): byte(v), byte(v>>8), byte(v>>16), byte(v>>24) *)
Definition put_uint32 (v : N) : list N :=
  [N.land v 255; N.land (N.shiftr v 8) 255; N.land (N.shiftr v 16) 255; N.land (N.shiftr v 24) 255].

(* ---------- functional slices ---------- *)
Fixpoint set_nth {A} (k : nat) (v : A) (l : list A) : list A :=
  match l with
  | [] => []
  | x :: t => match k with O => v :: t | S k' => x :: set_nth k' v t end
  end.
(* input[i], input[j] = input[j], input[i]   (index out of range panics) *)
Definition swap {A} (l : list A) (i j : N) : outcome (list A) :=
  match nth_error l (N.to_nat i), nth_error l (N.to_nat j) with
  | Some a, Some b => Ok (set_nth (N.to_nat j) a (set_nth (N.to_nat i) b l))
  | _, _ => Panic IndexOOR
  end.

(* ---------- the round driver shared by both Go functions ----------
     r := 0 ; if !dir { r = rounds - 1 }
     for { <body r> ; if dir { r++ ; if r == rounds {break} } else { if r == 0 {break} ; r-- } }
   r is a uint8.  Fuel 256 = number of values of r. *)
Fixpoint round_loop {St} (body : N -> St -> outcome St) (fuel : nat) (dir : bool) (rounds r : N) (s : St)
  : outcome St :=
  match fuel with
  | O => OutOfFuel
  | S f =>
      bind (body r s) (fun s' =>
        if dir then
          let r' := wrap8 (r + 1) in
          if r' =? rounds then Ok s' else round_loop body f dir rounds r' s'
        else
          if r =? 0 then Ok s' else round_loop body f dir rounds (r - 1) s')
  end.
Definition start_round (dir : bool) (rounds : N) : N := if dir then 0 else rounds - 1.

Section Shuffle.
  Variable H : list N -> list N.       (* hashFn; a [32]byte in Go *)
  Variable seed : list N.              (* Root, 32 bytes *)

  (* buf = seed(32) | round(1) | position window(4) *)
  Definition pivot_hash (r : N) : list N := H (seed ++ [r]).
  Definition source_hash (r blk : N) : list N := H (seed ++ [r] ++ put_uint32 blk).
  (* pivot := binary.LittleEndian.Uint64(h[:8]) % listSize          (listSize = 0 panics: see callers) *)
  Definition go_pivot (n r : N) : N := le_uint64 (pivot_hash r) mod n.
  (* PutUint32(buf[33:], uint32(pos>>8)); source := hashFn(buf) *)
  Definition go_source (r pos : N) : list N := source_hash r (wrap32 (N.shiftr pos 8)).
  (* byteV := source[(pos&0xff)>>3] *)
  Definition go_byte (source : list N) (pos : N) : N :=
    nth (N.to_nat (N.shiftr (N.land pos 255) 3)) source 0.
  (* bitV := (byteV >> (pos & 0x7)) & 0x1 *)
  Definition go_bit (byteV pos : N) : N := N.land (N.shiftr byteV (N.land pos 7)) 1.

  (* ----- innerPermuteIndex: one iteration of the for-loop ----- *)
  Definition index_round (n r index : N) : outcome N :=
    if n =? 0 then Panic DivZero else                 (* `% listSize` *)
    let pivot := go_pivot n r in
    let flip := (add64 pivot (sub64 n index)) mod n in
    let position := if index <? flip then flip else index in
    let source := go_source r position in
    let byteV := go_byte source position in
    let bitV := go_bit byteV position in
    Ok (if bitV =? 1 then flip else index).

  Definition inner_permute_index (rounds input n : N) (dir : bool) : outcome N :=
    if rounds =? 0 then Ok input
    else round_loop (index_round n) 256 dir rounds (start_round dir rounds) input.
  (* public API *)
  Definition permute_index (rounds index n : N) : outcome N := inner_permute_index rounds index n true.
  Definition unpermute_index (rounds index n : N) : outcome N := inner_permute_index rounds index n false.

  (* ----- innerShuffleList ----- *)
  (* for i, j := i0, j0; i < mirror; i, j = i+1, j-1 { ... }  with the cached `source` and `byteV` *)
  Fixpoint seg_loop {A} (fuel : nat) (r i j mirror : N) (source : list N) (byteV : N) (l : list A)
    : outcome (list A) :=
    match fuel with
    | O => OutOfFuel
    | S f =>
        if i <? mirror then
          let source' := if N.land j 255 =? 255 then go_source r j else source in
          let byteV' := if N.land j 7 =? 7 then go_byte source' j else byteV in
          let bitV := go_bit byteV' j in
          bind (if bitV =? 1 then swap l i j else Ok l) (fun l' =>
            seg_loop f r (add64 i 1) (sub64 j 1) mirror source' byteV' l')
        else Ok l
    end.

  (* body of the outer for-loop; n = listSize = uint64(len(input)) >= 2 *)
  Definition list_round {A} (n r : N) (l : list A) : outcome (list A) :=
    let fuel := S (length l) in
    let pivot := go_pivot n r in
    let mirror := N.shiftr (add64 pivot 1) 1 in
    let source := go_source r pivot in
    let byteV := go_byte source pivot in
    bind (seg_loop fuel r 0 pivot mirror source byteV l) (fun l1 =>
      let mirror2 := N.shiftr (add64 (add64 pivot n) 1) 1 in
      let end_ := sub64 n 1 in
      let source2 := go_source r end_ in
      let byteV2 := go_byte source2 end_ in
      seg_loop fuel r (add64 pivot 1) end_ mirror2 source2 byteV2 l1).

  Definition inner_shuffle_list {A} (rounds : N) (l : list A) (dir : bool) : outcome (list A) :=
    let n := N.of_nat (length l) in
    if (n <=? 1) || (rounds =? 0) then Ok l
    else round_loop (list_round n) 256 dir rounds (start_round dir rounds) l.
  (* public API *)
  Definition shuffle_list {A} (rounds : N) (l : list A) : outcome (list A) := inner_shuffle_list rounds l true.
  Definition unshuffle_list {A} (rounds : N) (l : list A) : outcome (list A) := inner_shuffle_list rounds l false.

  (* ---------- Spec: consensus-specs phase0 beacon-chain.md, compute_shuffled_index ----------
     def compute_shuffled_index(index: uint64, index_count: uint64, seed: Bytes32) -> uint64:
         assert index < index_count
         for current_round in range(SHUFFLE_ROUND_COUNT):
             pivot = bytes_to_uint64(hash(seed + uint_to_bytes(uint8(current_round)))[0:8]) % index_count
             flip = (pivot + index_count - index) % index_count
             position = max(index, flip)
             source = hash(seed + uint_to_bytes(uint8(current_round)) + uint_to_bytes(uint32(position // 256)))
             byte = uint8(source[(position % 256) // 8])
             bit = (byte >> (position % 8)) % 2
             index = flip if bit else index
         return index
     Unbounded integers; a failing assert / an out-of-range uint8(..)/uint32(..) conversion is None. *)
  Fixpoint uint_to_bytes (len : nat) (v : N) : list N :=      (* little-endian, len bytes *)
    match len with O => [] | S k => v mod 256 :: uint_to_bytes k (v / 256) end.
  Fixpoint bytes_to_uint (bs : list N) : N :=                 (* int.from_bytes(bs, 'little') *)
    match bs with [] => 0 | b :: t => b + 256 * bytes_to_uint t end.

  Definition spec_round (index_count index current_round : N) : option N :=
    if 256 <=? current_round then None else                           (* uint8(current_round) *)
    let pivot := bytes_to_uint (firstn 8 (H (seed ++ uint_to_bytes 1 current_round))) mod index_count in
    let flip := (pivot + index_count - index) mod index_count in
    let position := N.max index flip in
    if 4294967296 <=? position / 256 then None else                   (* uint32(position // 256) *)
    let source := H (seed ++ uint_to_bytes 1 current_round ++ uint_to_bytes 4 (position / 256)) in
    let byte := nth (N.to_nat ((position mod 256) / 8)) source 0 in
    let bit := (byte / 2 ^ (position mod 8)) mod 2 in
    Some (if bit =? 0 then index else flip).

  Definition compute_shuffled_index (shuffle_round_count index index_count : N) : option N :=
    if index <? index_count then
      fold_left (fun acc current_round =>
                   match acc with Some i => spec_round index_count i current_round | None => None end)
                (map N.of_nat (seq 0 (N.to_nat shuffle_round_count))) (Some index)
    else None.                                                        (* assert index < index_count *)
End Shuffle.
