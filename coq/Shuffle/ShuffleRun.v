(* C06 correspondence: evaluate Impl and Spec on the cases the Go harness ran.
   impl_ok : Go's observed result = the Impl model (ShuffleModel.v) on the same input.
   spec_ok : Go's observed result judged DIRECTLY against the specification's
             compute_shuffled_index (position by position), the inverse law and the
             permutation property; independent of the Impl model. *)
From Coq Require Import NArith List Bool Sorting.Mergesort Orders.
From V Require Import Base.U64 Base.Outcome Base.Sha256 Shuffle.ShuffleModel Shuffle.ShuffleSpecTab.
Import ListNotations.
Local Open Scope N_scope.

(* ---------- hashes ---------- *)
(* Weak hashes (used through the verif hook, which lets the harness supply hashFn):
   33-byte input (pivot hash):  first 8 bytes = little-endian (a + round*b), rest 0
   37-byte input (source hash): byte k = (c + k*d + blk*e + round*f) mod 256
   The same function is written in Go in harness/cmd/c06/main.go (weakHash). *)
Definition weak_hash (a b c d e f : N) (m : list N) : list N :=
  let round := nth 32 m 0 in
  if Nat.eqb (length m) 33 then uint_to_bytes 8 (wrap64 (a + round * b)) ++ repeat 0 24%nat
  else
    let blk := bytes_to_uint (firstn 4 (skipn 33 m)) in
    map (fun k => (c + N.of_nat k * d + blk * e + round * f) mod 256) (seq 0 32).

Inductive hsel := HSha | HWeak (a b c d e f : N).
Definition hash_of (h : hsel) : list N -> list N :=
  match h with HSha => sha256 | HWeak a b c d e f => weak_hash a b c d e f end.

(* ---------- input lists (generated on both sides from a formula, to keep case files small) ---------- *)
Inductive lin :=
| LIota (n : N)                 (* 0,1,..,n-1 : distinct *)
| LAff (n a b m : N)            (* (a*i + b) mod m : duplicates when m is small *)
| LExplicit (l : list N).
Definition lin_list (x : lin) : list N :=
  match x with
  | LIota n => map N.of_nat (seq 0 (N.to_nat n))
  | LAff n a b m => map (fun i => (a * N.of_nat i + b) mod m) (seq 0 (N.to_nat n))
  | LExplicit l => l
  end.

Fixpoint list_eqb (a b : list N) : bool :=
  match a, b with
  | [], [] => true
  | x :: a', y :: b' => (x =? y) && list_eqb a' b'
  | _, _ => false
  end.

Module NOrder <: TotalLeBool.
  Definition t := N.
  Definition leb := N.leb.
  Theorem leb_total : forall a1 a2, leb a1 a2 = true \/ leb a2 a1 = true.
  Proof. intros a b. unfold leb. destruct (N.leb_spec a b); [left; reflexivity|right]. apply N.leb_le. apply N.lt_le_incl. assumption. Qed.
End NOrder.
Module NSort := Sort NOrder.
Definition same_multiset (a b : list N) : bool := list_eqb (NSort.sort a) (NSort.sort b).

Inductive scase :=
(* PermuteIndex (dir = true) / UnpermuteIndex (dir = false) *)
| CPerm (h : hsel) (seed : list N) (rounds index n : N) (dir : bool) (go : gores N)
(* ShuffleList (dir = true) / UnshuffleList (dir = false): go = the slice after the call *)
| CList (h : hsel) (seed : list N) (rounds : N) (input : lin) (dir : bool) (go : gores (list N))
(* dir = true: ShuffleList then UnshuffleList; dir = false: the other order; go = final slice equals the input *)
| CTrip (h : hsel) (seed : list N) (rounds : N) (input : lin) (dir : bool) (go : gores bool)
(* the executable hash instance vs Go's hash on the two message lengths used *)
| CHash (h : hsel) (msg : list N) (go : list N).

Definition impl_ok (c : scase) : bool :=
  match c with
  | CPerm h seed rounds index n dir go =>
      agree N.eqb (inner_permute_index (hash_of h) seed rounds index n dir) go
  | CList h seed rounds input dir go =>
      agree list_eqb (inner_shuffle_list (hash_of h) seed rounds (lin_list input) dir) go
  | CTrip h seed rounds input dir go =>
      let l := lin_list input in
      agree Bool.eqb
        (bind (inner_shuffle_list (hash_of h) seed rounds l dir) (fun l1 =>
         bind (inner_shuffle_list (hash_of h) seed rounds l1 (negb dir)) (fun l2 => Ok (list_eqb l2 l)))) go
  | CHash h msg go => list_eqb (hash_of h msg) go
  end.

(* the property's domain *)
Definition max_count : N := 1099511627776. (* 2^40 = VALIDATOR_REGISTRY_LIMIT *)

Definition spec_index (h : hsel) (seed : list N) (rounds n i : N) : option N :=
  compute_shuffled_index (hash_of h) seed rounds i n.

(* every position i < n : spec i defined, in range, and rel i (spec i) holds.
   ShuffleSpecTab.all_positions shares the hash tables between positions and is PROVED equal
   (all_positions_spec) to evaluating compute_shuffled_index at every position. *)
Definition all_positions (h : hsel) (seed : list N) (rounds : N) (n : nat) (rel : N -> N -> bool) : bool :=
  ShuffleSpecTab.all_positions (hash_of h) seed rounds n rel.
Definition at_ (l : list N) (i : N) : option N := nth_error l (N.to_nat i).
Definition opt_eqb (a b : option N) : bool :=
  match a, b with Some x, Some y => x =? y | _, _ => false end.

Definition spec_ok (c : scase) : bool :=
  match c with
  | CPerm h seed rounds index n dir go =>
      if (index <? n) && (n <=? max_count) && (rounds <? 256) then
        match go with
        | GoOk x =>
            if dir then opt_eqb (spec_index h seed rounds n index) (Some x)
            else (x <? n) && opt_eqb (spec_index h seed rounds n x) (Some index)
        | _ => false
        end
      else true
  | CList h seed rounds input dir go =>
      let l := lin_list input in
      if rounds <? 256 then
        match go with
        | GoOk out =>
            Nat.eqb (length out) (length l) && same_multiset out l &&
            all_positions h seed rounds (length l)
              (fun i s => if dir then opt_eqb (at_ out s) (at_ l i)      (* shuffled[spec i] = input[i] *)
                          else opt_eqb (at_ out i) (at_ l s))            (* unshuffled[i] = input[spec i] *)
        | _ => false
        end
      else true
  | CTrip h seed rounds input dir go =>
      if rounds <? 256 then match go with GoOk b => b | _ => false end else true
  | CHash h msg go => list_eqb (hash_of h msg) go
  end.

Fixpoint mism (i : N) (cs : list scase) : list (N * N) :=
  match cs with
  | [] => []
  | c :: cs' =>
      let r := (if impl_ok c then 0 else 1) + (if spec_ok c then 0 else 2) in
      if r =? 0 then mism (i + 1) cs' else (i, r) :: mism (i + 1) cs'
  end.
Definition mismatches (cs : list scase) : list (N * N) := mism 0 cs.
