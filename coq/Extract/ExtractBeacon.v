(* Extraction of the executable beacon model to OCaml (correspondence runs only; proofs are about the Gallina terms).
   Directives in force: ExtrOcamlBasic (bool, option, unit, list, prod, sumbool -> OCaml natives),
   ExtrOcamlNativeString (string/ascii -> OCaml string/char), ExtrOCamlInt63 (Uint63 -> coq-core.kernel Uint63).
   N / positive / nat / Z stay the extracted inductive types. *)
Require Extraction.
Require Import ExtrOcamlBasic ExtrOcamlNativeString ExtrOCamlInt63.
From Coq Require Import NArith.
From V Require Import Base.Sha256 Ssz.SszCore Beacon.Config Beacon.Schemas Beacon.State Beacon.Spec.Helpers Beacon.Run Beacon.Impl.Genesis
  Beacon.Impl.Epc Beacon.Refine.EpcRefine Beacon.Refine.EpcRun.
Extraction Language OCaml.
Extraction "beacon_model.ml" N.add N.mul N.of_nat N.to_nat N.eqb sha256 config_of config_num_keys config_byte_keys
  mk_env run_slots run_transition run_genesis diff_state_fields run_epc_view fork_idx diagnose_transition payload_root run_state_root run_genesis_impl run_kickstart_impl
  run_epc_impl_fresh run_epc_impl_slots run_epc_impl_trans epc_to_view epc_pubkeys.
