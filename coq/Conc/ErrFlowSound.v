(* C18 — soundness of the error-flow checker, and determinism of fault-free runs.

     errflow_ok_sound     errflow_ok p = true -> for every fuel, schedule and function f of the table whose only
                          result is the error: a fault was observed during the run  ->  the run returns Err
                          (in particular it neither returns Ok, nor panics, nor runs out of fuel after the fault)
     errflow_ok_sound_verdict   the same for the (bool, error) functions: Err or (false, nil)
     no_fault_same        for EVERY program (checked or not): a run in which no Poll saw a cancelled context and
                          every engine answer was Valid is, state and result, the run under the quiet schedule
     quiet_no_fault       the quiet schedule never produces a fault
     ok_is_undisturbed    errflow_ok p = true -> a run that returns Ok is the undisturbed run
     errflow_ok_no_panic  errflow_ok p = true -> no run panics through an error handler

   All by induction on the fuel (call depth) and, inside, on the statement. No axioms. *)
From Coq Require Import String List Bool Arith PeanoNat Lia.
From V Require Import Conc.ErrFlow Conc.ErrFlowCheck.
Import ListNotations.

(* ------------------------------------------------------------------------------------------------ *)
(* Part A: the observation flag only ever goes up                                                      *)
(* ------------------------------------------------------------------------------------------------ *)
Definition mono_call (callf : string -> st -> fres * st) : Prop :=
  forall f x, obs x = true -> obs (snd (callf f x)) = true.

Lemma loop_iter_mono (body : st -> ctl * st) :
  (forall x, obs x = true -> obs (snd (body x)) = true) ->
  forall k x, obs x = true -> obs (snd (loop_iter k body x)) = true.
Proof.
  intros Hb k. induction k as [|k IH]; intros x Hx; simpl; [exact Hx|].
  specialize (Hb x Hx). destruct (body x) as [c x1]. simpl in Hb.
  destruct c; simpl; auto.
Qed.

Lemma exec_mono sch callf : mono_call callf ->
  forall s x, obs x = true -> obs (snd (exec sch callf s x)) = true.
Proof.
  intros Hc s. induction s; intros x Hx; simpl; try exact Hx.
  - (* Poll *) unfold do_poll. simpl. rewrite Hx. reflexivity.
  - (* Call *) specialize (Hc f (enter x)). simpl in Hc. specialize (Hc Hx).
    destruct (callf f (enter x)) as [r x1]. simpl in Hc. destruct r; simpl; exact Hc.
  - (* CallThread *) unfold do_thread. destruct (_ && _); simpl; exact Hx.
  - (* Engine *) unfold do_engine. destruct (engine_ans sch (ne x)); simpl; auto.
  - (* IfErr *) destruct (_ && _); [destruct h|]; simpl; exact Hx.
  - (* CheckVerdict *) destruct (_ && _); [destruct h|]; simpl; exact Hx.
  - (* Seq *) specialize (IHs1 x Hx). destruct (exec sch callf s1 x) as [c x1]. simpl in IHs1.
    destruct c; simpl; auto.
  - (* Branch *) destruct (_ =? 0); [apply IHs1|apply IHs2]; exact Hx.
  - (* Loop *) apply loop_iter_mono; [exact IHs|exact Hx].
Qed.

Lemma callfn_mono p sch fuel : mono_call (callfn p sch fuel).
Proof.
  induction fuel as [|n IH]; intros f x Hx; simpl; [exact Hx|].
  destruct (lookup p f) as [fd|]; [|simpl; exact Hx].
  pose proof (exec_mono sch _ IH (fbody fd) x Hx) as H.
  destruct (exec sch (callfn p sch n) (fbody fd) x) as [c x1]. simpl in H.
  destruct c; simpl; exact H.
Qed.

(* ------------------------------------------------------------------------------------------------ *)
(* Part B: a run without an observed fault is the quiet run                                            *)
(* ------------------------------------------------------------------------------------------------ *)
Definition agree_call (c1 c2 : string -> st -> fres * st) : Prop :=
  forall f x, obs (snd (c1 f x)) = false -> c1 f x = c2 f x.

Lemma loop_iter_agree (b1 b2 : st -> ctl * st) :
  (forall x, obs x = true -> obs (snd (b1 x)) = true) ->
  (forall x, obs (snd (b1 x)) = false -> b1 x = b2 x) ->
  forall k x, obs (snd (loop_iter k b1 x)) = false -> loop_iter k b1 x = loop_iter k b2 x.
Proof.
  intros Hm Ha k. induction k as [|k IH]; intros x H; simpl in *; [reflexivity|].
  destruct (b1 x) as [c x1] eqn:E1.
  assert (Hx1 : obs x1 = false).
  { destruct (obs x1) eqn:Eo; [|reflexivity].
    destruct c; simpl in H; try (rewrite Eo in H; discriminate);
      rewrite (loop_iter_mono b1 Hm k x1 Eo) in H; discriminate. }
  rewrite <- (Ha x) by (rewrite E1; exact Hx1). rewrite E1.
  destruct c; try reflexivity; apply IH; exact H.
Qed.

Lemma exec_agree sch c1 c2 : mono_call c1 -> agree_call c1 c2 ->
  forall s x, obs (snd (exec sch c1 s x)) = false -> exec sch c1 s x = exec (quiet sch) c2 s x.
Proof.
  intros Hm Ha s. induction s; intros x H; simpl in *; try reflexivity.
  - (* Poll *) unfold do_poll, cancelled in *. simpl in *.
    destruct (cancel_at sch) as [k|]; [|reflexivity].
    destruct (k <=? np x); [|reflexivity]. rewrite orb_true_r in H. discriminate.
  - (* Call *) destruct (c1 f (enter x)) as [r x1] eqn:E.
    rewrite <- (Ha f (enter x)); rewrite E; [reflexivity|]. destruct r; exact H.
  - (* Engine *) unfold do_engine in *. simpl. destruct (engine_ans sch (ne x)); simpl in *; [reflexivity|discriminate|discriminate].
  - (* Seq *) destruct (exec sch c1 s1 x) as [c x1] eqn:E1.
    assert (Hx1 : obs x1 = false).
    { destruct (obs x1) eqn:Eo; [|reflexivity].
      destruct c; simpl in H; try (rewrite Eo in H; discriminate).
      rewrite (exec_mono sch c1 Hm s2 x1 Eo) in H. discriminate. }
    rewrite <- (IHs1 x) by (rewrite E1; exact Hx1). rewrite E1.
    destruct c; try reflexivity. apply IHs2. exact H.
  - (* Branch *) destruct (choice sch (nc x) =? 0); [apply IHs1|apply IHs2]; exact H.
  - (* Loop *) apply loop_iter_agree; [apply exec_mono; exact Hm|exact IHs|exact H].
Qed.

Lemma callfn_agree p sch fuel : agree_call (callfn p sch fuel) (callfn p (quiet sch) fuel).
Proof.
  induction fuel as [|n IH]; intros f x H; simpl in *; [reflexivity|].
  destruct (lookup p f) as [fd|]; [|reflexivity].
  destruct (exec sch (callfn p sch n) (fbody fd) x) as [c x1] eqn:E.
  rewrite <- (exec_agree sch _ _ (callfn_mono p sch n) IH (fbody fd) x); rewrite E; [reflexivity|].
  destruct c; exact H.
Qed.

Theorem no_fault_same : forall p fuel f s,
  no_fault fuel p f s -> run fuel p f s = run fuel p f (quiet s).
Proof. intros p fuel f s H. apply callfn_agree. exact H. Qed.

(* the quiet schedule never produces a fault *)
Definition still_call (callf : string -> st -> fres * st) : Prop :=
  forall f x, obs x = false -> obs (snd (callf f x)) = false.

Lemma loop_iter_still (body : st -> ctl * st) :
  (forall x, obs x = false -> obs (snd (body x)) = false) ->
  forall k x, obs x = false -> obs (snd (loop_iter k body x)) = false.
Proof.
  intros Hb k. induction k as [|k IH]; intros x Hx; simpl; [exact Hx|].
  specialize (Hb x Hx). destruct (body x) as [c x1]. simpl in Hb. destruct c; simpl; auto.
Qed.

Lemma exec_quiet_still sch callf : still_call callf ->
  forall s x, obs x = false -> obs (snd (exec (quiet sch) callf s x)) = false.
Proof.
  intros Hc s. induction s; intros x Hx; simpl; try exact Hx.
  - unfold do_poll, cancelled. simpl. rewrite Hx. reflexivity.
  - specialize (Hc f (enter x) Hx). destruct (callf f (enter x)) as [r x1]. simpl in Hc. destruct r; exact Hc.
  - unfold do_thread. destruct (_ && _); simpl; exact Hx.
  - destruct (_ && _); [destruct h|]; simpl; exact Hx.
  - destruct (_ && _); [destruct h|]; simpl; exact Hx.
  - specialize (IHs1 x Hx). destruct (exec (quiet sch) callf s1 x) as [c x1]. simpl in IHs1. destruct c; simpl; auto.
  - destruct (_ =? 0); [apply IHs1|apply IHs2]; exact Hx.
  - apply loop_iter_still; [exact IHs|exact Hx].
Qed.

Lemma callfn_quiet_still p sch fuel : still_call (callfn p (quiet sch) fuel).
Proof.
  induction fuel as [|n IH]; intros f x Hx; simpl; [exact Hx|].
  destruct (lookup p f) as [fd|]; [|simpl; exact Hx].
  pose proof (exec_quiet_still sch _ IH (fbody fd) x Hx) as H.
  destruct (exec (quiet sch) (callfn p (quiet sch) n) (fbody fd) x) as [c x1]. simpl in H. destruct c; exact H.
Qed.

Theorem quiet_no_fault : forall p fuel f s, no_fault fuel p f (quiet s).
Proof. intros. apply callfn_quiet_still. reflexivity. Qed.

(* ------------------------------------------------------------------------------------------------ *)
(* Part C: functions declared unable to observe a fault do not observe one                             *)
(* ------------------------------------------------------------------------------------------------ *)
Lemma exec_quiet_body sch callf faults :
  (forall f x, faults f = false -> obs x = false -> obs (snd (callf f x)) = false) ->
  forall s x, quiet_body faults s = true -> obs x = false -> obs (snd (exec sch callf s x)) = false.
Proof.
  intros Hc s. induction s; intros x Hq Hx; simpl in *; try exact Hx; try discriminate.
  - apply negb_true_iff in Hq. specialize (Hc f (enter x) Hq Hx).
    destruct (callf f (enter x)) as [r x1]. simpl in Hc. destruct r; exact Hc.
  - unfold do_thread. destruct (_ && _); simpl; exact Hx.
  - destruct (_ && _); [destruct h|]; simpl; exact Hx.
  - destruct (_ && _); [destruct h|]; simpl; exact Hx.
  - apply andb_true_iff in Hq. destruct Hq as [Hq1 Hq2]. specialize (IHs1 x Hq1 Hx).
    destruct (exec sch callf s1 x) as [c x1]. simpl in IHs1. destruct c; simpl; auto.
  - apply andb_true_iff in Hq. destruct Hq as [Hq1 Hq2]. destruct (_ =? 0); [apply IHs1|apply IHs2]; assumption.
  - apply loop_iter_still; [intros y Hy; apply IHs; assumption|exact Hx].
Qed.

Definition flags_consistent (p : program) : Prop :=
  forall fd, In fd (funs p) -> may_fault fd = false -> quiet_body (faults_prog p) (fbody fd) = true.

Lemma lookup_fun_in l f fd : lookup_fun l f = Some fd -> In fd l /\ fname fd = f.
Proof.
  induction l as [|g l IH]; simpl; [discriminate|].
  destruct (String.eqb (fname g) f) eqn:E.
  - intros H. injection H as <-. split; [left; reflexivity|apply String.eqb_eq; exact E].
  - intros H. destruct (IH H). split; [right|]; assumption.
Qed.

Lemma callfn_quiet_fn p sch : flags_consistent p ->
  forall fuel f x, faults_prog p f = false -> obs x = false -> obs (snd (callfn p sch fuel f x)) = false.
Proof.
  intros Hfc fuel. induction fuel as [|n IH]; intros f x Hf Hx; simpl; [exact Hx|].
  unfold faults_prog, lookup in Hf. unfold lookup.
  destruct (lookup_fun (funs p) f) as [fd|] eqn:El; [|simpl; exact Hx].
  destruct (lookup_fun_in _ _ _ El) as [Hin _].
  pose proof (exec_quiet_body sch _ (faults_prog p) IH (fbody fd) x (Hfc fd Hin Hf) Hx) as H.
  destruct (exec sch (callfn p sch n) (fbody fd) x) as [c x1]. simpl in H. destruct c; exact H.
Qed.

(* ------------------------------------------------------------------------------------------------ *)
(* Part D: soundness of the abstract interpretation                                                    *)
(* ------------------------------------------------------------------------------------------------ *)
Arguments assign : simpl never.
Arguments pend_after_test : simpl never.
Arguments join : simpl never.
Arguments chk_call : simpl never.
Arguments chk_thread : simpl never.
Arguments chk_iferr : simpl never.
Arguments chk_verdict : simpl never.
Arguments chk_ret : simpl never.
Arguments pend_loop : simpl never.

Definition pf_of (a : astate) : bool := match a with APend p => pf p | _ => false end.

(* the abstract state covers the register *)
Definition absr (a : astate) (x : st) : Prop :=
  match a with
  | ADead => False
  | AClean => reg x = ROk
  | APend p => (reg x = RErr -> tev x = pev p /\ pe p = true) /\
               (reg x = RFalse -> tbv x = pbv p /\ pv p = true)
  end.

(* an observed fault is still held by the register, and the abstract state knows it may be one *)
Definition inv (a : astate) (x : st) : Prop :=
  obs x = true -> reg x <> ROk /\ pf_of a = true.

Lemma faulty_app a b : faulty (a ++ b) = faulty a || faulty b.
Proof. unfold faulty. apply existsb_app. Qed.

Lemma faulty_app_false a b : faulty (a ++ b) = false -> faulty a = false /\ faulty b = false.
Proof. rewrite faulty_app. apply orb_false_iff. Qed.

Lemma clean_not_obs a x : absr a x -> inv a x -> pf_of a = false -> obs x = false.
Proof.
  intros _ Hi Hp. destruct (obs x) eqn:E; [|reflexivity].
  destruct (Hi E) as [_ H]. rewrite Hp in H. discriminate.
Qed.

Lemma clean_state_not_obs x : absr AClean x -> inv AClean x -> obs x = false.
Proof. intros Ha Hi. apply (clean_not_obs AClean x Ha Hi). reflexivity. Qed.

Section Sound.
  Variable sch : schedule.
  Variable callf : string -> st -> fres * st.
  Variable fn : string.
  Variable k : fkind.
  Variable kindof : string -> option fkind.
  Variable faults : string -> bool.

  (* what the soundness proof needs of the callees (the induction hypothesis on the fuel) *)
  Definition call_spec : Prop :=
    forall f x kf, kindof f = Some kf -> obs x = false -> reg x = ROk ->
      match callf f x with
      | (FRet r, x1) => (obs x1 = true -> (kf = VerdictFn \/ faults f = true) /\ (r = RErr \/ (kf = VerdictFn /\ r = RFalse)))
                        /\ (r = RFalse -> kf = VerdictFn)
      | (FPanic, _) => False
      | (FFuel, x1) => obs x1 = false
      end.

  Hypothesis Hcall : call_spec.

  Definition post (a' : astate) (r : ctl * st) : Prop :=
    match r with
    | (CNormal, x') => absr a' x' /\ inv a' x'
    | (CBrk, x') | (CCont, x') => reg x' = ROk /\ obs x' = false
    | (CRet v, x') => (obs x' = true -> v = RErr \/ (k = VerdictFn /\ v = RFalse)) /\ (v = RFalse -> k = VerdictFn)
    | (CPanic, _) => False
    | (CFuel, x') => obs x' = false
    end.

  (* a new assignment: the checker makes sure nothing that could be a fault is overwritten *)
  Lemma assign_sound a site ev bv vd fl a' ps x :
    assign fn a site ev bv vd fl = (a', ps) -> faulty ps = false -> absr a x -> inv a x ->
    obs x = false /\ a' = APend (mkpend site ev bv true vd fl).
  Proof.
    unfold assign. intros H Hf Ha Hi. destruct a as [|p|]; [| |destruct Ha]; injection H as <- <-.
    - split; [apply clean_state_not_obs; assumption|reflexivity].
    - simpl in Hf. rewrite orb_false_r in Hf. split; [|reflexivity].
      apply (clean_not_obs (APend p) x Ha Hi). exact Hf.
  Qed.

  Lemma join_sound a1 a2 j x : join a1 a2 = (j, true) ->
    (absr a1 x /\ inv a1 x -> absr j x /\ inv j x) /\ (absr a2 x /\ inv a2 x -> absr j x /\ inv j x).
  Proof.
    intros H. destruct a1 as [|p|], a2 as [|q|]; unfold join in H; simpl in H;
      try (injection H as <-; split; intros [Ha Hi]; try (split; assumption); try destruct Ha; fail).
    - (* AClean, APend q *) injection H as <-. split; intros [Ha Hi]; [|split; assumption].
      simpl in Ha. split.
      + simpl. rewrite Ha. split; intros; discriminate.
      + intros Ho. destruct (Hi Ho) as [Hn _]. contradiction.
    - (* APend p, AClean *) injection H as <-. split; intros [Ha Hi]; [split; assumption|].
      simpl in Ha. split.
      + simpl. rewrite Ha. split; intros; discriminate.
      + intros Ho. destruct (Hi Ho) as [Hn _]. contradiction.
    - (* APend p, APend q *)
      destruct ((pev p =? pev q) && (pbv p =? pbv q)) eqn:E; [|discriminate].
      injection H as <-. apply andb_true_iff in E. destruct E as [E1 E2].
      apply Nat.eqb_eq in E1. apply Nat.eqb_eq in E2.
      split; intros [[Ha1 Ha2] Hi]; (split; [split; simpl|]).
      + intros Hr. destruct (Ha1 Hr) as [-> ->]. split; reflexivity.
      + intros Hr. destruct (Ha2 Hr) as [-> ->]. split; reflexivity.
      + intros Ho. destruct (Hi Ho) as [Hn Hp]. simpl in *. rewrite Hp. split; [exact Hn|reflexivity].
      + intros Hr. destruct (Ha1 Hr) as [-> ->]. split; [symmetry; exact E1|apply orb_true_r].
      + intros Hr. destruct (Ha2 Hr) as [-> ->]. split; [symmetry; exact E2|apply orb_true_r].
      + intros Ho. destruct (Hi Ho) as [Hn Hp]. simpl in *. rewrite Hp. split; [exact Hn|apply orb_true_r].
  Qed.

  Lemma pend_loop_clean a : faulty (pend_loop fn a) = false -> a = AClean \/ a = ADead.
  Proof. destruct a as [|p|]; simpl; auto. discriminate. Qed.

  Lemma loop_sound (body : st -> ctl * st) a1 :
    (a1 = AClean \/ a1 = ADead) ->
    (forall x, absr AClean x -> inv AClean x -> post a1 (body x)) ->
    forall n x, absr AClean x -> inv AClean x -> post AClean (loop_iter n body x).
  Proof.
    intros Ha1 Hb n. induction n as [|n IH]; intros x Ha Hi; simpl; [split; assumption|].
    specialize (Hb x Ha Hi). destruct (body x) as [c x1]. simpl in Hb.
    assert (Hclean : forall y, reg y = ROk -> obs y = false -> absr AClean y /\ inv AClean y).
    { intros y Hr Ho. split; [exact Hr|]. intros Ho'. rewrite Ho in Ho'. discriminate. }
    destruct c; simpl; try exact Hb.
    - (* CNormal *) destruct Ha1 as [-> | ->]; [|destruct Hb as [[] _]]. destruct Hb. apply IH; assumption.
    - (* CBrk *) destruct Hb. apply Hclean; assumption.
    - (* CCont *) destruct Hb as [Hr Ho]. destruct (Hclean x1 Hr Ho). apply IH; assumption.
  Qed.

  Ltac inv_pair H := injection H as <- <-.

  Lemma obs_false_inv a x : obs x = false -> inv a x.
  Proof. intros Ho Ho'. rewrite Ho in Ho'. discriminate. Qed.

  (* the state right after a leaf assigned (ROk or RErr) without observing anything *)
  Lemma leaf_post site ev vd fl x r :
    obs x = false -> (r = ROk \/ r = RErr) ->
    post (APend (mkpend site ev 0 true vd fl)) (CNormal, mkst (np x) (ne x) (S (nc x)) (obs x) r ev 0).
  Proof.
    intros Ho Hr. simpl. split; [|apply obs_false_inv; exact Ho].
    split; simpl; [intros _; split; reflexivity|destruct Hr as [-> | ->]; discriminate].
  Qed.

  Lemma poll_case a site ev a' ps x :
    assign fn a site ev 0 false true = (a', ps) -> faulty ps = false -> absr a x -> inv a x ->
    post a' (exec sch callf (Poll site ev) x).
  Proof.
    intros Hc Hf Ha Hi. destruct (assign_sound _ _ _ _ _ _ _ _ _ Hc Hf Ha Hi) as [Ho ->].
    simpl. unfold do_poll. rewrite Ho. simpl.
    split; [split; simpl; [intros _; split; reflexivity|destruct (cancelled sch x); discriminate]|].
    intros Ho'. simpl in Ho'. rewrite Ho' . simpl. split; [discriminate|reflexivity].
  Qed.

  Lemma call_case a site f ev bv a' ps x :
    chk_call fn kindof faults a site f ev bv = (a', ps) -> faulty ps = false -> absr a x -> inv a x ->
    post a' (exec sch callf (Call site f ev bv) x).
  Proof.
    unfold chk_call. intros Hc Hf Ha Hi. destruct (kindof f) as [kf|] eqn:Ek.
    2:{ inv_pair Hc. simpl in Hf. discriminate. }
    assert (Hkf : exists vd fl, assign fn a site ev bv vd fl = (a', ps) /\
                   (kf = VerdictFn -> vd = true) /\ (kf = VerdictFn \/ faults f = true -> fl = true)).
    { destruct kf.
      - exists false, (faults f). split; [exact Hc|]. split; [discriminate|]. intros [H|H]; [discriminate|exact H].
      - exists true, true. auto. }
    destruct Hkf as (vd & fl & Hc' & Hvd & Hfl).
    destruct (assign_sound _ _ _ _ _ _ _ _ _ Hc' Hf Ha Hi) as [Ho ->].
    pose proof (Hcall f (enter x) kf Ek Ho eq_refl) as Hs. simpl.
    destruct (callf f (enter x)) as [r x1]. destruct r as [r| |]; simpl; [|exact Hs|exact Hs].
    destruct Hs as [Hs1 Hs2]. split.
    - split; simpl; intros ->; (split; [reflexivity|]); [reflexivity|]. apply Hvd, Hs2. reflexivity.
    - intros Ho'. simpl in Ho'. destruct (Hs1 Ho') as [Hk Hr]. simpl. split; [|apply Hfl; exact Hk].
      destruct Hr as [->|[_ ->]]; discriminate.
  Qed.

  Lemma lib_case a site name ev a' ps x :
    assign fn a site ev 0 false false = (a', ps) -> faulty ps = false -> absr a x -> inv a x ->
    post a' (exec sch callf (CallLib site name ev) x).
  Proof.
    intros Hc Hf Ha Hi. destruct (assign_sound _ _ _ _ _ _ _ _ _ Hc Hf Ha Hi) as [Ho ->].
    simpl. unfold do_lib. apply leaf_post; [exact Ho|]. destruct (_ =? 0); auto.
  Qed.

  Lemma thread_case a site name tin ev a' ps x :
    chk_thread fn a site tin ev = (a', ps) -> faulty ps = false -> absr a x -> inv a x ->
    post a' (exec sch callf (CallThread site name tin ev) x).
  Proof.
    unfold chk_thread. intros Hc Hf Ha Hi.
    assert (Hgen : forall a'' ps'', assign fn a site ev 0 false false = (a'', ps'') -> faulty ps'' = false ->
                     post a'' (exec sch callf (CallThread site name tin ev) x)).
    { intros a'' ps'' Hc' Hf'. destruct (assign_sound _ _ _ _ _ _ _ _ _ Hc' Hf' Ha Hi) as [Ho ->].
      simpl. unfold do_thread. destruct ((tev x =? tin) && is_err (reg x)).
      - unfold set_reg. simpl. split; [|apply obs_false_inv; exact Ho].
        split; simpl; [intros _; split; reflexivity|discriminate].
      - unfold do_lib. apply leaf_post; [exact Ho|]. destruct (_ =? 0); auto. }
    destruct a as [|p|]; [eapply Hgen; eassumption| |destruct Ha].
    destruct ((pev p =? tin) && negb (pv p)) eqn:E; [|eapply Hgen; eassumption].
    inv_pair Hc. apply andb_true_iff in E. destruct E as [E1 E2]. apply Nat.eqb_eq in E1.
    apply negb_true_iff in E2. destruct Ha as [Ha1 Ha2]. simpl. unfold do_thread.
    destruct ((tev x =? tin) && is_err (reg x)) eqn:Et.
    - unfold set_reg. simpl. split; [split; simpl; [intros _; split; reflexivity|discriminate]|].
      intros Ho'. simpl in Ho'. destruct (Hi Ho') as [_ Hp]. simpl. split; [discriminate|exact Hp].
    - assert (Ho : obs x = false).
      { destruct (obs x) eqn:Eo; [|reflexivity]. destruct (Hi Eo) as [Hn _].
        destruct (reg x) eqn:Er; [contradiction| |].
        - destruct (Ha2 eq_refl) as [_ Hpv]. rewrite Hpv in E2. discriminate.
        - destruct (Ha1 eq_refl) as [Ht _]. rewrite Ht, E1, Nat.eqb_refl in Et. discriminate. }
      unfold do_lib. apply leaf_post; [exact Ho|]. destruct (_ =? 0); auto.
  Qed.

  Lemma engine_case a site q ev bv a' ps x :
    assign fn a site ev bv true true = (a', ps) -> faulty ps = false -> absr a x -> inv a x ->
    post a' (exec sch callf (Engine site q ev bv) x).
  Proof.
    intros Hc Hf Ha Hi. destruct (assign_sound _ _ _ _ _ _ _ _ _ Hc Hf Ha Hi) as [Ho ->].
    simpl. unfold do_engine. destruct (engine_ans sch (ne x)); simpl.
    - split; [split; simpl; discriminate|]. apply obs_false_inv. exact Ho.
    - split; [split; simpl; [discriminate|intros _; split; reflexivity]|].
      intros _. simpl. split; [discriminate|reflexivity].
    - split; [split; simpl; [intros _; split; reflexivity|discriminate]|].
      intros _. simpl. split; [discriminate|reflexivity].
  Qed.

  Lemma seterr_case a site ev a' ps x :
    assign fn a site ev 0 false false = (a', ps) -> faulty ps = false -> absr a x -> inv a x ->
    post a' (exec sch callf (SetErr site ev) x).
  Proof.
    intros Hc Hf Ha Hi. destruct (assign_sound _ _ _ _ _ _ _ _ _ Hc Hf Ha Hi) as [Ho ->].
    simpl. split; [split; simpl; [intros _; split; reflexivity|discriminate]|].
    apply obs_false_inv. exact Ho.
  Qed.

  Lemma pend_after_err_tested p x :
    absr (APend p) x -> inv (APend p) x -> reg x <> RErr ->
    absr (pend_after_test p true false) x /\ inv (pend_after_test p true false) x.
  Proof.
    intros [Ha1 Ha2] Hi Hne. unfold pend_after_test. rewrite andb_false_r, andb_true_r. simpl.
    destruct (pv p) eqn:Epv; simpl.
    - split; [split; [intros; contradiction|intros Er; destruct (Ha2 Er); split; [assumption|reflexivity]]|].
      intros Ho. destruct (Hi Ho) as [Hn Hp]. split; assumption.
    - assert (Hr : reg x = ROk).
      { destruct (reg x) eqn:Er; [reflexivity| |contradiction].
        destruct (Ha2 eq_refl) as [_ Hx]. rewrite Hx in Epv. discriminate. }
      split; [exact Hr|]. intros Ho. destruct (Hi Ho) as [Hn _]. contradiction.
  Qed.

  Lemma pend_after_verdict_tested p x :
    absr (APend p) x -> inv (APend p) x -> reg x <> RFalse ->
    absr (pend_after_test p false true) x /\ inv (pend_after_test p false true) x.
  Proof.
    intros [Ha1 Ha2] Hi Hne. unfold pend_after_test. rewrite andb_false_r, andb_true_r, orb_false_r.
    destruct (pe p) eqn:Epe; simpl.
    - split; [split; [intros Er; destruct (Ha1 Er); split; [assumption|reflexivity]|intros; contradiction]|].
      intros Ho. destruct (Hi Ho) as [Hn Hp]. split; assumption.
    - assert (Hr : reg x = ROk).
      { destruct (reg x) eqn:Er; [reflexivity|contradiction|].
        destruct (Ha1 eq_refl) as [_ Hx]. rewrite Hx in Epe. discriminate. }
      split; [exact Hr|]. intros Ho. destruct (Hi Ho) as [Hn _]. contradiction.
  Qed.

  Lemma iferr_case a site v h a' ps x :
    chk_iferr fn a site v h = (a', ps) -> faulty ps = false -> absr a x -> inv a x ->
    post a' (exec sch callf (IfErr site v h) x).
  Proof.
    unfold chk_iferr. intros Hc Hf Ha Hi. destruct a as [|p|]; [| |destruct Ha].
    - inv_pair Hc. simpl in *. rewrite Ha. rewrite andb_false_r. simpl. split; assumption.
    - pose proof Ha as [Ha1 Ha2]. destruct ((pev p =? v) && pe p) eqn:E.
      + apply andb_true_iff in E. destruct E as [E1 E2]. apply Nat.eqb_eq in E1. inv_pair Hc. simpl.
        destruct ((tev x =? v) && is_err (reg x)) eqn:Et.
        * (* the test fires *)
          apply andb_true_iff in Et. destruct Et as [_ Et]. destruct (reg x) eqn:Er; try discriminate.
          assert (Hlost : pf p = false -> obs x = false).
          { intros Hp. apply (clean_not_obs (APend p) x Ha Hi). exact Hp. }
          destruct h; simpl in *.
          -- split; [intros _; left; reflexivity|discriminate].
          -- split; [intros _; left; reflexivity|discriminate].
          -- rewrite orb_false_r in Hf. specialize (Hlost Hf). unfold pend_after_test, set_reg.
             destruct (_ || _); simpl; (split; [|apply obs_false_inv; exact Hlost]); [split; discriminate|reflexivity].
          -- rewrite orb_false_r in Hf. specialize (Hlost Hf).
             split; [intros Ho'; rewrite Hlost in Ho'; discriminate|discriminate].
          -- discriminate.
        * (* the test does not fire: the register does not hold an error *)
          simpl. apply pend_after_err_tested; [exact Ha|exact Hi|].
          intros Er. destruct (Ha1 Er) as [Ht _]. rewrite Ht, E1, Nat.eqb_refl, Er in Et. discriminate.
      + inv_pair Hc. simpl.
        destruct ((tev x =? v) && is_err (reg x)) eqn:Et; [|simpl; split; assumption].
        apply andb_true_iff in Et. destruct Et as [Et1 Et2]. apply Nat.eqb_eq in Et1.
        destruct (reg x) eqn:Er; try discriminate. destruct (Ha1 eq_refl) as [Ht Hpe].
        rewrite <- Ht, Et1, Nat.eqb_refl, Hpe in E. discriminate.
  Qed.

  Lemma verdict_case a site v h a' ps x :
    chk_verdict fn k a site v h = (a', ps) -> faulty ps = false -> absr a x -> inv a x ->
    post a' (exec sch callf (CheckVerdict site v h) x).
  Proof.
    unfold chk_verdict. intros Hc Hf Ha Hi. destruct a as [|p|]; [| |destruct Ha].
    - inv_pair Hc. simpl in *. rewrite Ha. rewrite andb_false_r. simpl. split; assumption.
    - pose proof Ha as [Ha1 Ha2]. destruct ((pbv p =? v) && pv p) eqn:E.
      + apply andb_true_iff in E. destruct E as [E1 E2]. apply Nat.eqb_eq in E1. inv_pair Hc. simpl.
        destruct ((tbv x =? v) && is_false (reg x)) eqn:Et.
        * apply andb_true_iff in Et. destruct Et as [_ Et]. destruct (reg x) eqn:Er; try discriminate.
          destruct h; simpl in *; try discriminate.
          -- split; [intros _; left; reflexivity|discriminate].
          -- destruct k; [discriminate|]. split; [intros _; right; split; reflexivity|reflexivity].
        * simpl. apply pend_after_verdict_tested; [exact Ha|exact Hi|].
          intros Er. destruct (Ha2 Er) as [Ht _]. rewrite Ht, E1, Nat.eqb_refl, Er in Et. discriminate.
      + inv_pair Hc. simpl.
        destruct ((tbv x =? v) && is_false (reg x)) eqn:Et; [|simpl; split; assumption].
        apply andb_true_iff in Et. destruct Et as [Et1 Et2]. apply Nat.eqb_eq in Et1.
        destruct (reg x) eqn:Er; try discriminate. destruct (Ha2 eq_refl) as [Ht Hpv].
        rewrite <- Ht, Et1, Nat.eqb_refl, Hpv in E. discriminate.
  Qed.

  Lemma ret_case a site r x :
    faulty (chk_ret fn k a site r) = false -> absr a x -> inv a x ->
    post ADead (exec sch callf (Ret site r) x).
  Proof.
    unfold chk_ret. intros Hf Ha Hi. simpl. destruct a as [|p|]; [| |destruct Ha].
    - pose proof (clean_state_not_obs x Ha Hi) as Ho. simpl in Ha.
      split; [intros Ho'; rewrite Ho in Ho'; discriminate|].
      destruct r; simpl; rewrite ?Ha; simpl; rewrite ?andb_false_r; try discriminate;
        simpl in Hf; destruct k; try discriminate; reflexivity.
    - destruct Ha as [Ha1 Ha2].
      assert (Hobs : obs x = true -> pf p = true /\
                ((reg x = RErr /\ tev x = pev p /\ pe p = true) \/ (reg x = RFalse /\ tbv x = pbv p /\ pv p = true))).
      { intros Ho. destruct (Hi Ho) as [Hn Hp]. split; [exact Hp|].
        destruct (reg x) eqn:Er; [contradiction|right|left].
        - destruct (Ha2 eq_refl). auto.
        - destruct (Ha1 eq_refl). auto. }
      destruct r; simpl in *.
      + (* RetNil *) split; [|discriminate]. intros Ho. destruct (Hobs Ho) as [Hp [(_ & _ & He)|(_ & _ & Hv)]].
        * rewrite He, Hp in Hf. simpl in Hf. discriminate.
        * rewrite Hv in Hf. apply faulty_app_false in Hf. destruct Hf as [_ Hf]. simpl in Hf. discriminate.
      + (* RetFresh *) split; [intros _; left; reflexivity|discriminate].
      + (* RetReg *) split.
        * intros Ho. destruct (Hobs Ho) as [Hp [(Er & Ht & He)|(_ & _ & Hv)]].
          -- rewrite Er, Ht. simpl. destruct (pev p =? v) eqn:Ev; [left; reflexivity|].
             rewrite He, Hp in Hf. simpl in Hf. discriminate.
          -- rewrite Hv in Hf. apply faulty_app_false in Hf. destruct Hf as [_ Hf]. simpl in Hf. discriminate.
        * destruct ((tev x =? v) && is_err (reg x)); intros H; discriminate H.
      + (* RetFalse *) destruct k; [simpl in Hf; discriminate|]. split; [|reflexivity].
        intros Ho. destruct (Hobs Ho) as [Hp [(_ & _ & He)|_]]; [|right; split; reflexivity].
        rewrite He, Hp in Hf. simpl in Hf. discriminate.
      + (* RetBoth *) destruct k; [simpl in Hf; discriminate|]. simpl in Hf. split; [|reflexivity].
        intros Ho. apply faulty_app_false in Hf. destruct Hf as [Hf1 Hf2].
        destruct (Hobs Ho) as [Hp [(Er & Ht & He)|(Er & Ht & Hv)]]; rewrite Er, Ht; simpl.
        * destruct (pev p =? ev) eqn:Ev; [left; reflexivity|]. rewrite He, Hp in Hf1. simpl in Hf1. discriminate.
        * rewrite andb_false_r. destruct (pbv p =? bv) eqn:Eb; [right; split; reflexivity|].
          rewrite Hv in Hf2. simpl in Hf2. discriminate.
  Qed.

  Lemma chk_sound : forall s a a' ps x,
    chk fn k kindof faults s a = (a', ps) -> faulty ps = false ->
    absr a x -> inv a x -> post a' (exec sch callf s x).
  Proof.
    induction s; intros a a' ps x Hc Hf Ha Hi;
      (assert (Hnd : a <> ADead) by (intros ->; destruct Ha));
      (assert (Hred : forall T (u v : T), match a with ADead => u | _ => v end = v) by (intros; destruct a; [reflexivity|reflexivity|contradiction]));
      simpl in Hc; rewrite Hred in Hc; clear Hred.
    - (* Skip *) inv_pair Hc. simpl. split; assumption.
    - (* Poll *) eapply poll_case; eassumption.
    - (* Call *) eapply call_case; eassumption.
    - (* CallLib *) eapply lib_case; eassumption.
    - (* CallThread *) eapply thread_case; eassumption.
    - (* Engine *) eapply engine_case; eassumption.
    - (* SetErr *) eapply seterr_case; eassumption.
    - (* IfErr *) eapply iferr_case; eassumption.
    - (* CheckVerdict *) eapply verdict_case; eassumption.
    - (* Ret *) inv_pair Hc. eapply ret_case; eassumption.
    - (* Seq *)
      destruct (chk fn k kindof faults s1 a) as [a1 p1] eqn:E1.
      destruct (chk fn k kindof faults s2 a1) as [a2 p2] eqn:E2. inv_pair Hc.
      apply faulty_app_false in Hf. destruct Hf as [Hf1 Hf2].
      pose proof (IHs1 _ _ _ x E1 Hf1 Ha Hi) as H1. simpl.
      destruct (exec sch callf s1 x) as [c x1]. destruct c; simpl in H1 |- *; try exact H1.
      destruct H1 as [Ha1 Hi1]. exact (IHs2 _ _ _ x1 E2 Hf2 Ha1 Hi1).
    - (* Branch *)
      destruct (chk fn k kindof faults s1 a) as [a1 p1] eqn:E1.
      destruct (chk fn k kindof faults s2 a) as [a2 p2] eqn:E2.
      destruct (join a1 a2) as [j okj] eqn:Ej. inv_pair Hc.
      apply faulty_app_false in Hf. destruct Hf as [Hf1 Hf].
      apply faulty_app_false in Hf. destruct Hf as [Hf2 Hf3].
      destruct okj; [|simpl in Hf3; discriminate]. simpl.
      assert (Hweak : forall a0 r, (a0 = a1 \/ a0 = a2) -> post a0 r -> post j r).
      { intros a0 [c x1] Ha0 Hp. destruct c; simpl in Hp |- *; try exact Hp.
        destruct (join_sound _ _ _ x1 Ej) as [J1 J2]. destruct Ha0 as [-> | ->]; auto. }
      destruct (choice sch (nc x) =? 0).
      + apply (Hweak a1); [left; reflexivity|]. exact (IHs1 _ _ _ (bump_nc x) E1 Hf1 Ha Hi).
      + apply (Hweak a2); [right; reflexivity|]. exact (IHs2 _ _ _ (bump_nc x) E2 Hf2 Ha Hi).
    - (* Loop *)
      destruct (chk fn k kindof faults s AClean) as [a1 p1] eqn:E1. inv_pair Hc.
      apply faulty_app_false in Hf. destruct Hf as [Hf0 Hf].
      apply faulty_app_false in Hf. destruct Hf as [Hf1 Hf2].
      destruct (pend_loop_clean _ Hf0) as [-> | ->]; [|contradiction]. simpl.
      apply (loop_sound _ a1 (pend_loop_clean _ Hf2)); [|exact Ha|exact Hi].
      intros y Hay Hiy. exact (IHs _ _ _ y E1 Hf1 Hay Hiy).
    - (* Brk *) inv_pair Hc. destruct (pend_loop_clean _ Hf) as [-> | ->]; [|contradiction].
      simpl. split; [exact Ha|apply clean_state_not_obs; assumption].
    - (* Cont *) inv_pair Hc. destruct (pend_loop_clean _ Hf) as [-> | ->]; [|contradiction].
      simpl. split; [exact Ha|apply clean_state_not_obs; assumption].
    - (* Unknown *) inv_pair Hc. simpl in Hf. discriminate.
  Qed.
End Sound.

(* ------------------------------------------------------------------------------------------------ *)
(* Part E: whole programs                                                                              *)
(* ------------------------------------------------------------------------------------------------ *)
Lemma faulty_flat_map {A} (g : A -> list problem) l x :
  faulty (flat_map g l) = false -> In x l -> faulty (g x) = false.
Proof.
  induction l as [|y l IH]; simpl; [contradiction|].
  intros H [-> | Hin]; apply faulty_app_false in H; destruct H; auto.
Qed.

Lemma errflow_ok_fun p fd : errflow_ok p = true -> In fd (funs p) -> faulty (fun_problems p fd) = false.
Proof.
  unfold errflow_ok, errflow_problems. intros H Hin. apply negb_true_iff in H.
  eapply faulty_flat_map; eassumption.
Qed.

Lemma errflow_ok_flags p : errflow_ok p = true -> flags_consistent p.
Proof.
  intros Hok fd Hin Hm. pose proof (errflow_ok_fun p fd Hok Hin) as H. unfold fun_problems in H.
  destruct (chk _ _ _ _ _ _) as [a1 ps]. apply faulty_app_false in H. destruct H as [_ H].
  apply faulty_app_false in H. destruct H as [_ H]. apply faulty_app_false in H. destruct H as [H _].
  rewrite Hm in H. simpl in H. destruct (quiet_body _ _); [reflexivity|simpl in H; discriminate].
Qed.

Lemma callfn_spec p sch : errflow_ok p = true ->
  forall fuel, call_spec (callfn p sch fuel) (kindof_prog p) (faults_prog p).
Proof.
  intros Hok fuel. induction fuel as [|n IH]; intros f x kf Hk Ho Hr; simpl; [exact Ho|].
  unfold kindof_prog, lookup in Hk. unfold lookup.
  destruct (lookup_fun (funs p) f) as [fd|] eqn:El; [|discriminate]. injection Hk as <-.
  destruct (lookup_fun_in _ _ _ El) as [Hin Hname].
  pose proof (errflow_ok_fun p fd Hok Hin) as Hf. unfold fun_problems in Hf.
  destruct (chk (fname fd) (fkind_of fd) (kindof_prog p) (faults_prog p) (fbody fd) (entry_state fd)) as [a1 ps] eqn:Ec.
  apply faulty_app_false in Hf. destruct Hf as [Hf1 Hf2].
  apply faulty_app_false in Hf2. destruct Hf2 as [Hf2 _].
  assert (Ha0 : absr (entry_state fd) x).
  { unfold entry_state. destruct (takes_err fd); simpl; [rewrite Hr; split; discriminate|exact Hr]. }
  assert (Hi0 : inv (entry_state fd) x) by (intros Ho'; rewrite Ho in Ho'; discriminate).
  pose proof (chk_sound sch (callfn p sch n) (fname fd) (fkind_of fd) (kindof_prog p) (faults_prog p) IH
                        (fbody fd) _ _ _ x Ec Hf1 Ha0 Hi0) as Hpost.
  (* a function that cannot observe a fault does not *)
  assert (Hquiet : faults_prog p f = false -> obs (snd (callfn p sch (S n) f x)) = false).
  { intros Hq. apply callfn_quiet_fn; [apply errflow_ok_flags; exact Hok|exact Hq|exact Ho]. }
  simpl in Hquiet. unfold lookup in Hquiet. rewrite El in Hquiet.
  destruct (exec sch (callfn p sch n) (fbody fd) x) as [c x1]. destruct c; simpl in Hpost |- *.
  - (* fell off the end *) destruct Hpost as [Ha1 Hi1]. split; [|discriminate]. intros Ho1.
    destruct (Hi1 Ho1) as [_ Hp]. destruct a1 as [|q|]; simpl in Hp; try discriminate.
    simpl in Hf2. rewrite Hp in Hf2. discriminate.
  - destruct Hpost as [_ Ho1]. split; [|discriminate]. intros Ho1'. rewrite Ho1 in Ho1'. discriminate.
  - destruct Hpost as [_ Ho1]. split; [|discriminate]. intros Ho1'. rewrite Ho1 in Ho1'. discriminate.
  - destruct Hpost as [Hp1 Hp2]. split; [|exact Hp2]. intros Ho1. split; [|exact (Hp1 Ho1)].
    destruct (faults_prog p f) eqn:Eq; [right; reflexivity|].
    simpl in Hquiet. rewrite (Hquiet eq_refl) in Ho1. discriminate.
  - exact Hpost.
  - exact Hpost.
Qed.

(* THE THEOREM: in a checked program an observed fault always surfaces as an error *)
Theorem errflow_ok_sound : forall p, errflow_ok p = true ->
  forall fuel f s, is_plain p f -> fault_observed fuel p f s -> outcome fuel p f s = FRet RErr.
Proof.
  intros p Hok fuel f s (fd & Hl & Hk) Hobs. unfold fault_observed, outcome, run in *.
  assert (Hkf : kindof_prog p f = Some Plain) by (unfold kindof_prog; rewrite Hl, Hk; reflexivity).
  pose proof (callfn_spec p s Hok fuel f st0 Plain Hkf eq_refl eq_refl) as H.
  destruct (callfn p s fuel f st0) as [r x1]. simpl in *. destruct r as [r| |].
  - destruct H as [H _]. destruct (H Hobs) as [_ [-> | [Hd _]]]; [reflexivity|discriminate].
  - destruct H.
  - rewrite H in Hobs. discriminate.
Qed.

Theorem errflow_ok_sound_verdict : forall p, errflow_ok p = true ->
  forall fuel f s, is_verdict_fn p f -> fault_observed fuel p f s ->
    outcome fuel p f s = FRet RErr \/ outcome fuel p f s = FRet RFalse.
Proof.
  intros p Hok fuel f s (fd & Hl & Hk) Hobs. unfold fault_observed, outcome, run in *.
  assert (Hkf : kindof_prog p f = Some VerdictFn) by (unfold kindof_prog; rewrite Hl, Hk; reflexivity).
  pose proof (callfn_spec p s Hok fuel f st0 VerdictFn Hkf eq_refl eq_refl) as H.
  destruct (callfn p s fuel f st0) as [r x1]. simpl in *. destruct r as [r| |].
  - destruct H as [H _]. destruct (H Hobs) as [_ [-> | [_ ->]]]; auto.
  - destruct H.
  - rewrite H in Hobs. discriminate.
Qed.

(* no run of a checked program panics through an error handler *)
Theorem errflow_ok_no_panic : forall p, errflow_ok p = true ->
  forall fuel f s fd, lookup p f = Some fd -> outcome fuel p f s <> FPanic.
Proof.
  intros p Hok fuel f s fd Hl. unfold outcome, run.
  assert (Hkf : kindof_prog p f = Some (fkind_of fd)) by (unfold kindof_prog; rewrite Hl; reflexivity).
  pose proof (callfn_spec p s Hok fuel f st0 _ Hkf eq_refl eq_refl) as H.
  destruct (callfn p s fuel f st0) as [r x1]. simpl. destruct r; [discriminate|destruct H|discriminate].
Qed.

(* a run of a checked program that reports success is, state and result, the undisturbed run *)
Theorem ok_is_undisturbed : forall p, errflow_ok p = true ->
  forall fuel f s, is_plain p f -> outcome fuel p f s = FRet ROk -> run fuel p f s = run fuel p f (quiet s).
Proof.
  intros p Hok fuel f s Hp Hout. apply no_fault_same. unfold no_fault.
  destruct (obs (snd (run fuel p f s))) eqn:E; [|reflexivity].
  rewrite (errflow_ok_sound p Hok fuel f s Hp E) in Hout. discriminate.
Qed.

(* and a run that ran out of fuel had not observed any fault yet (so more fuel replays it unchanged up to there) *)
Theorem out_of_fuel_before_any_fault : forall p, errflow_ok p = true ->
  forall fuel f s fd, lookup p f = Some fd -> outcome fuel p f s = FFuel -> no_fault fuel p f s.
Proof.
  intros p Hok fuel f s fd Hl. unfold outcome, no_fault, run.
  assert (Hkf : kindof_prog p f = Some (fkind_of fd)) by (unfold kindof_prog; rewrite Hl; reflexivity).
  pose proof (callfn_spec p s Hok fuel f st0 _ Hkf eq_refl eq_refl) as H.
  destruct (callfn p s fuel f st0) as [r x1]. simpl. intros ->. exact H.
Qed.
