(* C17 — two-phase locking: `atomic_ok` => no goroutine acquires a mutex after it released one inside the same top-level
   call => the lock points order all conflicts: the precedence graph of every execution is acyclic. *)
From Coq Require Import List String Bool Arith Lia.
From V Require Import Conc.LockLang Conc.LockCheck Conc.LockInv Conc.LockSound.
Import ListNotations.
Local Open Scope list_scope.

(* ---- lock-free paths ---- *)
Definition lf (k : class) (m : string) : bool := lock_free (lf_fuel k) k m.

Definition lf_ev (k : class) (e : ev) : bool :=
  match e with
  | Read _ | Write _ => true
  | CallInternal m' | CallExported _ m' => lf k m'
  | _ => false
  end.
Definition lf_path (k : class) (p : path) : bool := forallb (lf_ev k) p.

Lemma lock_free_mono k m n n' : n <= n' -> lock_free n k m = true -> lock_free n' k m = true.
Proof.
  revert m n'. induction n as [|n IH]; intros m n' Hle H; [discriminate|].
  destruct n' as [|n']; [lia|]. simpl in *.
  destruct (find_method (c_methods k) m) as [mt|]; [|discriminate].
  rewrite forallb_forall in *. intros p Hp. specialize (H p Hp).
  rewrite forallb_forall in *. intros e He. specialize (H e He).
  destruct e; auto; (apply IH; [lia|exact H]).
Qed.

Lemma lf_paths k m mt p : lf k m = true -> find_method (c_methods k) m = Some mt -> In p (m_paths mt) ->
  lf_path k (norm p) = true.
Proof.
  unfold lf, lf_fuel. simpl. intros H Hm Hp. rewrite Hm in H.
  rewrite forallb_forall in H. specialize (H p Hp). unfold lf_path.
  rewrite forallb_forall in *. intros e He. specialize (H e He).
  destruct e; auto; simpl; unfold lf, lf_fuel; (eapply lock_free_mono; [|exact H]; lia).
Qed.

Lemma lf_path_app k a b : lf_path k (a ++ b) = true -> lf_path k b = true.
Proof. unfold lf_path. rewrite forallb_app. intro H. apply andb_true_iff in H. tauto. Qed.

Arguments lock_free : simpl never.

Lemma lf_ev_tp k ph e : lf_ev k e = true -> tp_ev k ph e = Some ph.
Proof.
  destruct e; simpl; try discriminate; auto; unfold lf; intro H; rewrite H; reflexivity.
Qed.

Lemma lf_path_tp k ph p : lf_path k p = true -> tp_path k ph p = true.
Proof.
  induction p as [|e p IH]; simpl; [reflexivity|]. intro H. apply andb_true_iff in H. destruct H as [He Hp].
  rewrite (lf_ev_tp _ ph _ He). auto.
Qed.

Lemma tp_ev_mono k e ph' : tp_ev k Shrink e = Some ph' -> ph' = Shrink /\ exists ph2, tp_ev k Grow e = Some ph2.
Proof.
  destruct e; simpl; try discriminate; intro H; inversion H; subst; split; eauto.
  - destruct (lock_free (lf_fuel k) k m); inversion H1; reflexivity.
  - destruct (lock_free (lf_fuel k) k m); eauto.
  - destruct (lock_free (lf_fuel k) k m); inversion H1; reflexivity.
  - destruct (lock_free (lf_fuel k) k m); eauto.
Qed.

Lemma tp_path_mono k p : tp_path k Shrink p = true -> tp_path k Grow p = true.
Proof.
  assert (Hs : forall q, tp_path k Shrink q = true -> tp_path k Grow q = true /\ True).
  { induction q as [|e q IH]; simpl; [auto|].
    destruct (tp_ev k Shrink e) as [ph'|] eqn:E; [|discriminate]. intro H.
    destruct (tp_ev_mono _ _ _ E) as [-> [ph2 E2]]. rewrite E2. split; [|exact I].
    destruct ph2; [apply IH; exact H|exact H]. }
  intro H. apply Hs. exact H.
Qed.

Lemma tp_path_any k ph p : tp_path k Shrink p = true -> tp_path k ph p = true.
Proof. destruct ph; [apply tp_path_mono|auto]. Qed.

Section Atomic.
Variable prog : program.
Variable w : world.
Variable excl : list (string * string).
Hypothesis Hat : atomic_ok excl prog = true.
Hypothesis Hw : wf_world w.

Definition not_excl (k : class) (m : string) : bool := negb (excluded excl (c_name k) m).

Definition frame_tp (ph : phase) (fr : frame) : Prop :=
  exists k mt, find_class prog (w_class w (f_obj fr)) = Some k /\ find_method (c_methods k) (f_meth fr) = Some mt /\
    not_excl k (f_meth fr) = true /\
    (exists p pre, In p (m_paths mt) /\ norm p = pre ++ f_rest fr) /\
    tp_path k ph (f_rest fr) = true /\
    forallb (not_excl k) (calls_of (f_rest fr)) = true.

(* the phase in which the caller resumes when this frame returns, if the thread is in phase ph now *)
Definition next_ph (ph : phase) (fr : frame) : phase :=
  match find_class prog (w_class w (f_obj fr)) with
  | Some k => if lf k (f_meth fr) then ph else Shrink
  | None => Shrink
  end.

Fixpoint tp_stack (ph : phase) (st : list frame) : Prop :=
  match st with
  | [] => True
  | fr :: st' => frame_tp ph fr /\ tp_stack (next_ph ph fr) st'
  end.

Definition todo_avoids (th : thread) : Prop :=
  Forall (fun om => forall k, find_class prog (w_class w (fst om)) = Some k -> not_excl k (snd om) = true) (t_todo th).

Definition tp_thread (ph : phase) (th : thread) : Prop := tp_stack ph (t_stack th) /\ todo_avoids th.

Lemma next_ph_shrink fr : next_ph Shrink fr = Shrink.
Proof. unfold next_ph. destruct (find_class prog (w_class w (f_obj fr))); [destruct (lf c (f_meth fr))|]; reflexivity. Qed.

Lemma frame_tp_any ph fr : frame_tp Shrink fr -> frame_tp ph fr.
Proof.
  intros (k & mt & H1 & H2 & H3 & H4 & H5 & H6). exists k, mt. repeat split; auto. apply tp_path_any. exact H5.
Qed.

Lemma tp_stack_any ph st : tp_stack Shrink st -> tp_stack ph st.
Proof.
  revert ph. induction st as [|fr st IH]; intros ph; simpl; [auto|]. intros [Hf Hs]. split; [apply frame_tp_any; exact Hf|].
  rewrite next_ph_shrink in Hs. apply IH. exact Hs.
Qed.

Lemma tp_stack_le ph ph' st : (ph' = ph \/ ph' = Shrink) -> tp_stack ph' st -> tp_stack ph st.
Proof. intros [->| ->]; [auto|apply tp_stack_any]. Qed.

(* what atomic_ok says about a method that is not excluded *)
Lemma method_tp c k m mt p : find_class prog c = Some k -> find_method (c_methods k) m = Some mt ->
  not_excl k m = true -> In p (m_paths mt) ->
  tp_path k Grow (norm p) = true /\ forallb (not_excl k) (calls_of (norm p)) = true.
Proof.
  intros Hk Hm Hne Hp. unfold atomic_ok in Hat. rewrite forallb_forall in Hat.
  destruct (find_class_some _ _ _ Hk) as [Hin _]. specialize (Hat k Hin). rewrite forallb_forall in Hat.
  destruct (find_method_some _ _ _ Hm) as [Hinm Hname]. specialize (Hat mt Hinm).
  unfold tp_method in Hat. unfold not_excl in Hne. rewrite Hname in Hat.
  apply negb_true_iff in Hne. rewrite Hne in Hat. simpl in Hat.
  rewrite forallb_forall in Hat. specialize (Hat p Hp). apply andb_true_iff in Hat. exact Hat.
Qed.

(* a frame whose remaining path still contains a lock operation or a call of a method that is not lock-free
   belongs to a method that is not lock-free *)
Lemma not_lf_of_rest k m mt p pre e rest :
  find_method (c_methods k) m = Some mt -> In p (m_paths mt) -> norm p = pre ++ e :: rest -> lf_ev k e = false ->
  lf k m = false.
Proof.
  intros Hm Hp Hn He. destruct (lf k m) eqn:E; [|reflexivity].
  pose proof (lf_paths _ _ _ _ E Hm Hp) as H. rewrite Hn in H. apply lf_path_app in H. simpl in H.
  rewrite He in H. discriminate.
Qed.

Lemma frame_tp_new ph o m ex p k :
  callable prog w o m ex p -> find_class prog (w_class w o) = Some k -> not_excl k m = true ->
  (ph = Grow \/ lf k m = true) -> frame_tp ph (new_frame o m p).
Proof.
  intros (mt & Hl & _ & Hp) Hk Hne Hph. unfold lookup in Hl. rewrite Hk in Hl.
  destruct (method_tp _ _ _ _ _ Hk Hl Hne Hp) as [Htp Hcalls].
  exists k, mt. simpl. repeat split; auto.
  - exists p, []. auto.
  - destruct Hph as [->|Hlf]; [exact Htp|]. apply lf_path_tp. eapply lf_paths; eauto.
Qed.

Definition phase_step (ph : phase) (l : label) : phase :=
  match l with LStart _ _ => Grow | LRel _ _ => Shrink | _ => ph end.

Lemma frame_tp_cons ph o m a e rest :
  frame_tp ph (Frame o m a (e :: rest)) ->
  exists k mt ph', find_class prog (w_class w o) = Some k /\ find_method (c_methods k) m = Some mt /\
    tp_ev k ph e = Some ph' /\ (forall a', frame_tp ph' (Frame o m a' rest)) /\
    (forall m', In m' (calls_of [e]) -> not_excl k m' = true) /\
    (lf_ev k e = false -> lf k m = false).
Proof.
  intros (k & mt & Hk & Hm & Hne & (p & pre & Hp & Hn) & Htp & Hc). simpl in *.
  destruct (tp_ev k ph e) as [ph'|] eqn:E; [|discriminate].
  exists k, mt, ph'. repeat split; auto.
  - intro a'. exists k, mt. simpl. repeat split; auto.
    + exists p, (pre ++ [e]). split; [exact Hp|]. rewrite <- app_assoc. exact Hn.
    + destruct e; simpl in Hc; auto; apply andb_true_iff in Hc; tauto.
  - intros m' Hin. destruct e; simpl in Hin; try contradiction; destruct Hin as [<-|[]]; simpl in Hc;
      apply andb_true_iff in Hc; tauto.
  - intro Hlf. eapply not_lf_of_rest; eauto.
Qed.

Lemma next_ph_ext ph fr fr' : f_obj fr' = f_obj fr -> f_meth fr' = f_meth fr -> next_ph ph fr' = next_ph ph fr.
Proof. intros H1 H2. unfold next_ph. rewrite H1, H2. reflexivity. Qed.

Lemma next_ph_of ph o m a rest k : find_class prog (w_class w o) = Some k ->
  next_ph ph (Frame o m a rest) = if lf k m then ph else Shrink.
Proof. intro H. unfold next_ph. simpl. rewrite H. reflexivity. Qed.

Lemma tp_ev_result k ph e ph' : tp_ev k ph e = Some ph' -> ph' = ph \/ ph' = Shrink.
Proof.
  destruct e; simpl; try discriminate; intro H; try (inversion H; auto; fail).
  - destruct ph; inversion H; auto.
  - destruct (lock_free (lf_fuel k) k m); [inversion H; auto|]. destruct ph; inversion H; auto.
  - destruct (lock_free (lf_fuel k) k m); [inversion H; auto|]. destruct ph; inversion H; auto.
Qed.

(* the top frame consumed an event that is not a call and not a lock operation, or a call that was skipped *)
Lemma tp_consume ph o m a a' e rest st :
  tp_stack ph (Frame o m a (e :: rest) :: st) -> tp_stack ph (Frame o m a' rest :: st).
Proof.
  intros [Hf Hs]. destruct (frame_tp_cons _ _ _ _ _ _ Hf) as (k & mt & ph' & Hk & Hm & Hev & Hf' & _).
  split.
  - destruct (tp_ev_result _ _ _ _ Hev) as [->| ->]; [apply Hf'|apply frame_tp_any; apply Hf'].
  - rewrite (next_ph_ext ph (Frame o m a (e :: rest)) (Frame o m a' rest)) by reflexivity. exact Hs.
Qed.

(* a call that pushes a frame *)
Lemma tp_push ph o m a t m' rest st oc p ex e :
  (e = CallExported t m' \/ e = CallInternal m') ->
  tp_stack ph (Frame o m a (e :: rest) :: st) ->
  w_class w oc = w_class w o -> callable prog w oc m' ex p ->
  tp_stack ph (new_frame oc m' p :: Frame o m a rest :: st).
Proof.
  intros He [Hf Hs] Hcls Hcall.
  destruct (frame_tp_cons _ _ _ _ _ _ Hf) as (k & mt & ph' & Hk & Hm & Hev & Hf' & Hne & Hnlf).
  assert (Hkc : find_class prog (w_class w oc) = Some k) by (rewrite Hcls; exact Hk).
  assert (Hnem : not_excl k m' = true) by (apply Hne; destruct He as [->| ->]; left; reflexivity).
  assert (Hevm : tp_ev k ph e = if lf k m' then Some ph else match ph with Grow => Some Shrink | Shrink => None end).
  { destruct He as [->| ->]; reflexivity. }
  assert (Hlfe : lf_ev k e = lf k m') by (destruct He as [->| ->]; reflexivity).
  rewrite Hevm in Hev. unfold new_frame.
  destruct (lf k m') eqn:Elf.
  - inversion Hev; subst ph'. split; [eapply (frame_tp_new ph oc m' ex p); eauto|].
    rewrite (next_ph_of _ _ _ _ _ _ Hkc). rewrite Elf. split; [apply Hf'|].
    rewrite (next_ph_ext ph (Frame o m a (e :: rest)) (Frame o m a rest)) by reflexivity. exact Hs.
  - destruct ph; [|discriminate]. inversion Hev; subst ph'.
    split; [eapply (frame_tp_new Grow oc m' ex p); eauto|].
    rewrite (next_ph_of _ _ _ _ _ _ Hkc). rewrite Elf. split; [apply Hf'|].
    rewrite next_ph_shrink.
    (* the caller is not lock-free either: the frames below it already expect phase Shrink *)
    rewrite Hlfe in Hnlf. specialize (Hnlf eq_refl).
    rewrite (next_ph_of _ _ _ _ _ _ Hk) in Hs. rewrite Hnlf in Hs. exact Hs.
Qed.

Lemma tstep_tp others th l th' ph :
  tstep prog w others th l th' -> tp_thread ph th ->
  tp_thread (phase_step ph l) th' /\ (forall o md, l = LAcq o md -> ph = Grow).
Proof.
  intros Hs [Hst Htd]. unfold tp_thread.
  inversion Hs; subst; simpl in *; (split; [split|intros ? ? E; try discriminate E]); try exact Htd.
  - (* start *)
    unfold todo_avoids in Htd. simpl in Htd. inversion Htd as [|x l' Hx Hl']; subst.
    destruct H as (mt & Hl & He & Hp). pose proof Hl as Hl2. unfold lookup in Hl2.
    destruct (find_class prog (w_class w o)) as [k|] eqn:Ek; [|discriminate].
    split; [|exact I]. eapply frame_tp_new; eauto. exists mt. auto.
  - unfold todo_avoids in *. simpl in *. inversion Htd; auto.
  - (* pop *)
    destruct Hst as [_ Hs']. destruct st as [|f st]; [exact I|].
    apply (tp_stack_le ph (next_ph ph (Frame o m None [])) (f :: st)); [|exact Hs']. unfold next_ph. simpl.
    destruct (find_class prog (w_class w o)); [destruct (lf c m)|]; auto.
  - destruct st; discriminate E.
  - (* acquire *) eapply tp_consume; eauto.
  - (* acquire happens in phase Grow *)
    destruct Hst as [Hf _]. destruct (frame_tp_cons _ _ _ _ _ _ Hf) as (k & mt & ph' & _ & _ & Hev & _).
    simpl in Hev. destruct ph; [reflexivity|discriminate].
  - (* release: the phase becomes Shrink *)
    destruct Hst as [Hf Hs']. destruct (frame_tp_cons _ _ _ _ _ _ Hf) as (k & mt & ph' & Hk & Hm & Hev & Hf' & _ & Hnlf).
    simpl in Hev. inversion Hev; subst ph'. split; [apply Hf'|].
    rewrite next_ph_shrink. specialize (Hnlf eq_refl).
    rewrite (next_ph_of _ _ _ _ _ _ Hk) in Hs'. rewrite Hnlf in Hs'. exact Hs'.
  - eapply tp_consume; eauto.
  - eapply tp_consume; eauto.
  - (* call self *)
    apply (tp_push ph o m a Self m' rest st o p true (CallExported Self m')); [left; reflexivity|exact Hst|reflexivity|exact H].
  - (* call internal *)
    apply (tp_push ph o m a Self m' rest st o p false (CallInternal m')); [right; reflexivity|exact Hst|reflexivity|exact H].
  - (* call parent *)
    apply (tp_push ph o m a Parent m' rest st po p true (CallExported Parent m')); [left; reflexivity|exact Hst| |exact H0].
    eapply parent_class; eauto.
  - eapply tp_consume; eauto.
  - (* call child *)
    apply (tp_push ph o m a Child m' rest st c p true (CallExported Child m')); [left; reflexivity|exact Hst| |exact H0].
    symmetry. eapply parent_class; eauto. eapply child_parent; eauto.
  - eapply tp_consume; eauto.
  - (* skip *) exfalso. destruct Hst as [Hf _]. destruct (frame_tp_cons _ _ _ _ _ _ Hf) as (k & mt & ph' & _ & _ & Hev & _).
    destruct e; try contradiction; discriminate.
Qed.

(* ---- phases along a trace ---- *)
Fixpoint phase_run (t : nat) (ph : phase) (tr : list (nat * label)) : phase :=
  match tr with
  | [] => ph
  | (t', l) :: tr' => phase_run t (if Nat.eqb t' t then phase_step ph l else ph) tr'
  end.

Definition tp_config (phs : nat -> phase) (c : config) : Prop :=
  forall t th, nth_error c t = Some th -> tp_thread (phs t) th.

Lemma exec_tp c tr c' : exec prog w c tr c' -> forall phs, tp_config phs c ->
  tp_config (fun t => phase_run t (phs t) tr) c' /\
  (forall a t o md, nth_error tr a = Some (t, LAcq o md) -> phase_run t (phs t) (firstn a tr) = Grow).
Proof.
  induction 1 as [c|c [i l] c1 tr c2 Hs He IH]; intros phs Hc.
  - split; [exact Hc|]. intros a t o md H. destruct a; discriminate.
  - destruct (step_moved _ _ _ _ _ _ Hs) as (th & th' & Hn & Ht & ->).
    destruct (tstep_tp _ _ _ _ (phs i) Ht (Hc _ _ Hn)) as [Hth' Hacq].
    set (phs1 := fun t => if Nat.eqb i t then phase_step (phs t) l else phs t).
    assert (Hc1 : tp_config phs1 (upd i th' c)).
    { intros t tht Htt. unfold phs1. destruct (Nat.eqb i t) eqn:E.
      - apply Nat.eqb_eq in E. subst t. rewrite nth_error_upd_same in Htt by (apply nth_error_Some; congruence).
        inversion Htt; subst. exact Hth'.
      - apply Nat.eqb_neq in E. rewrite nth_error_upd_other in Htt by exact E. apply Hc. exact Htt. }
    destruct (IH phs1 Hc1) as [IH1 IH2]. split.
    + intros t tht Htt. specialize (IH1 t tht Htt). simpl. exact IH1.
    + intros a t o md Ha. destruct a as [|a]; simpl in *.
      * inversion Ha; subst. apply (Hacq o md). reflexivity.
      * apply (IH2 a t o md Ha).
Qed.

Lemma shrink_to_grow t tr : forall a, phase_run t Shrink (firstn a tr) = Grow ->
  exists x o m, x < a /\ nth_error tr x = Some (t, LStart o m).
Proof.
  induction tr as [|[t' l'] tr IH]; intros a H.
  - rewrite firstn_nil in H. discriminate.
  - destruct a as [|a]; [discriminate|]. simpl in H.
    destruct (Nat.eqb t' t) eqn:E.
    + apply Nat.eqb_eq in E. subst t'.
      destruct l'; simpl in H;
        try (destruct (IH a H) as (x & o' & m' & Hx & Hn); exists (S x), o', m'; split; [lia|exact Hn]).
      exists 0, o, m. split; [lia|reflexivity].
    + destruct (IH a H) as (x & o' & m' & Hx & Hn). exists (S x), o', m'. split; [lia|exact Hn].
Qed.

Lemma release_then_start t tr : forall k a ph o md, k < a -> nth_error tr k = Some (t, LRel o md) ->
  phase_run t ph (firstn a tr) = Grow ->
  exists x o' m, k < x /\ x < a /\ nth_error tr x = Some (t, LStart o' m).
Proof.
  induction tr as [|[t' l'] tr IH]; intros k a ph o md Hka Hk H.
  - destruct k; discriminate.
  - destruct a as [|a]; [lia|]. simpl in H. destruct k as [|k]; simpl in Hk.
    + inversion Hk; subst. rewrite Nat.eqb_refl in H. simpl in H.
      destruct (shrink_to_grow _ _ _ H) as (x & o' & m' & Hx & Hn). exists (S x), o', m'. split; [lia|split; [lia|exact Hn]].
    + destruct (IH k a _ o md (proj2 (Nat.succ_lt_mono k a) Hka) Hk H) as (x & o' & m' & H1 & H2 & Hn).
      exists (S x), o', m'. split; [lia|split; [lia|exact Hn]].
Qed.

Definition avoids (c0 : config) : Prop := Forall todo_avoids c0.

(* two-phase locking holds along every execution *)
Theorem two_phase c0 tr c : initial prog w c0 -> avoids c0 -> exec prog w c0 tr c ->
  forall k a t o1 md1 o2 md2, k < a ->
    nth_error tr k = Some (t, LRel o1 md1) -> nth_error tr a = Some (t, LAcq o2 md2) ->
    exists x o m, k < x /\ x < a /\ nth_error tr x = Some (t, LStart o m).
Proof.
  intros Hi Hav He k a t o1 md1 o2 md2 Hka Hk Ha.
  assert (Hc : tp_config (fun _ => Grow) c0).
  { intros t' th Hn. split.
    - destruct (Forall_nth_error _ _ _ _ Hi Hn) as [Hs _]. rewrite Hs. exact I.
    - eapply Forall_nth_error; eauto. }
  destruct (exec_tp _ _ _ He _ Hc) as [_ H2].
  eapply release_then_start; [exact Hka|exact Hk|apply (H2 a t o2 md2 Ha)].
Qed.

End Atomic.

(* ================= serializability ================= *)
(* Calls: a top-level call of goroutine t is the stretch of the trace from one `LStart` of t up to its next `LStart`.
   `same_call tr t a b`: positions a <= b with no LStart of t in (a, b].
   `lock_point tr t i p`: p is the lock point of the call of t that contains position i: the position of its LAST
   acquisition (the moment it holds every mutex it will ever hold), or of its LStart when it acquires nothing. *)
Definition start_between (tr : list (nat * label)) (t a b : nat) : Prop :=
  exists x o m, a < x /\ x <= b /\ nth_error tr x = Some (t, LStart o m).
Definition same_call (tr : list (nat * label)) (t a b : nat) : Prop := a <= b /\ ~ start_between tr t a b.

Definition lock_point (tr : list (nat * label)) (t i p : nat) : Prop :=
  exists s o m, nth_error tr s = Some (t, LStart o m) /\ same_call tr t s i /\ same_call tr t s p /\
    (p = s \/ exists o' md, nth_error tr p = Some (t, LAcq o' md)) /\
    (forall q o' md, p < q -> same_call tr t s q -> nth_error tr q <> Some (t, LAcq o' md)).

(* CONFLICT SERIALIZABILITY: in every execution, whenever an access of one call precedes a conflicting access of a call of
   another goroutine, the lock point of the first call precedes the lock point of the second.  Lock points are positions
   of the trace, so "order the calls by lock point" is a total order consistent with every conflict: the precedence
   graph is acyclic, the serial order is explicit. *)
Definition conflict_serializable (prog : program) (w : world) (c0 : config) : Prop :=
  forall tr c, exec prog w c0 tr c ->
  forall i j t1 t2 l1 l2 o f p1 p2, i < j ->
    nth_error tr i = Some (t1, l1) -> nth_error tr j = Some (t2, l2) -> t1 <> t2 ->
    is_access l1 o f -> is_access l2 o f -> (l1 = LWrite o f \/ l2 = LWrite o f) ->
    lock_point tr t1 i p1 -> lock_point tr t2 j p2 -> p1 < p2.

Theorem lock_ok_sound_serializable prog w c0 excl :
  lock_ok_excl excl prog = true -> wf_world w -> initial prog w c0 -> avoids prog w excl c0 ->
  conflict_serializable prog w c0.
Proof.
  intros Hok Hw Hi Hav. unfold lock_ok_excl in Hok. apply andb_true_iff in Hok. destruct Hok as [Hd Hat].
  intros tr c He i j t1 t2 l1 l2 o f p1 p2 Hij H1 H2 Hne A1 A2 Hwr LP1 LP2.
  destruct (conflicting_accesses_ordered prog w Hd Hw c0 tr c Hi He i j t1 t2 l1 l2 o f Hij H1 H2 Hne A1 A2 Hwr)
    as (k & l & md1 & md2 & Hik & Hkl & Hlj & Hk & Hl).
  pose proof (two_phase prog w excl Hat Hw c0 tr c Hi Hav He) as TP.
  (* p1 < k *)
  assert (Hp1 : p1 < k).
  { destruct LP1 as (s & os & ms & Hs & [Hsi _] & [Hsp Hnsp] & Hkind & _).
    destruct Hkind as [->|(o' & md' & Hp)]; [lia|].
    destruct (Nat.lt_ge_cases p1 k) as [Hlt|Hge]; [exact Hlt|exfalso].
    assert (Hkp : k < p1).
    { destruct (Nat.eq_dec k p1) as [E|E]; [|lia]. subst. rewrite Hk in Hp. discriminate. }
    destruct (TP k p1 t1 o md1 o' md' Hkp Hk Hp) as (x & ox & mx & Hx1 & Hx2 & Hx).
    apply Hnsp. exists x, ox, mx. repeat split; [lia|lia|exact Hx]. }
  (* k < p2 *)
  assert (Hp2 : k < p2).
  { destruct LP2 as (s & os & ms & Hs & [Hsj Hnsj] & [Hsp _] & _ & Hmax).
    destruct (Nat.lt_ge_cases l s) as [Hls|Hsl]; [lia|].
    assert (Hsl' : s < l).
    { destruct (Nat.eq_dec s l) as [E|E]; [|lia]. subst. rewrite Hs in Hl. discriminate. }
    destruct (Nat.lt_ge_cases p2 l) as [Hlt|Hge]; [exfalso|lia].
    apply (Hmax l o md2 Hlt); [|exact Hl]. split; [lia|].
    intros (x & ox & mx & Hx1 & Hx2 & Hx). apply Hnsj. exists x, ox, mx. repeat split; [lia|lia|exact Hx]. }
  lia.
Qed.

(* THE THEOREM: lock_ok sound for all schedules *)
Definition serializable := conflict_serializable.

Theorem lock_ok_sound prog w c0 :
  lock_ok prog = true -> wf_world w -> initial prog w c0 ->
  race_free prog w c0 /\ no_thread_blocked_forever prog w c0 /\ serializable prog w c0.
Proof.
  intros Hok Hw Hi. pose proof Hok as Hok2. unfold lock_ok, lock_ok_excl in Hok2. apply andb_true_iff in Hok2.
  destruct Hok2 as [Hd _]. destruct (disc_ok_sound prog w c0 Hd Hw Hi) as [H1 H2].
  split; [exact H1|]. split; [exact H2|].
  apply (lock_ok_sound_serializable prog w c0 [] Hok Hw Hi).
  unfold avoids. rewrite Forall_forall. intros th _. unfold todo_avoids. rewrite Forall_forall. intros om _ k _.
  reflexivity.
Qed.
