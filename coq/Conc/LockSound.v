(* C17 — soundness of the lock-discipline checker. *)
From Coq Require Import List String Bool Arith Lia.
From V Require Import Conc.LockLang Conc.LockCheck Conc.LockInv.
Import ListNotations.

Local Open Scope list_scope.

(* ---- lists ---- *)
Lemma nth_error_upd_same {A} (l : list A) i x : i < List.length l -> nth_error (upd i x l) i = Some x.
Proof.
  revert i. induction l as [|y l IH]; intros i H; simpl in *; [lia|].
  destruct i; simpl; [reflexivity|]. apply IH. lia.
Qed.

Lemma nth_error_upd_other {A} (l : list A) i j x : i <> j -> nth_error (upd i x l) j = nth_error l j.
Proof.
  revert i j. induction l as [|y l IH]; intros i j H; simpl.
  - destruct i; reflexivity.
  - destruct i, j; simpl; try reflexivity; try lia. apply IH. lia.
Qed.

Lemma upd_length {A} (l : list A) i x : List.length (upd i x l) = List.length l.
Proof. revert i. induction l as [|y l IH]; intros i; destruct i; simpl; auto. Qed.

Lemma in_concat_map {A B} (f : A -> list B) l b :
  In b (List.concat (map f l)) <-> exists j x, nth_error l j = Some x /\ In b (f x).
Proof.
  induction l as [|y l IH]; simpl.
  - split; [intros []|]. intros [j [x [H _]]]. destruct j; discriminate.
  - rewrite in_app_iff, IH. split.
    + intros [H|[j [x [H1 H2]]]]; [exists 0, y; auto|exists (S j), x; auto].
    + intros [j [x [H1 H2]]]. destruct j; simpl in H1; [inversion H1; subst; auto|right; eauto].
Qed.

Lemma others_hold_In c i o b :
  In b (others_hold i c o) <-> exists j thj, j <> i /\ nth_error c j = Some thj /\ In b (thread_holds o thj).
Proof.
  revert i. induction c as [|th c IH]; intros i.
  - destruct i; simpl; (split; [intros []|]); intros [j [x [_ [H _]]]]; destruct j; discriminate.
  - destruct i; simpl.
    + rewrite in_concat_map. split.
      * intros [j [x [H1 H2]]]. exists (S j), x. auto.
      * intros [j [x [Hne [H1 H2]]]]. destruct j; [lia|]. exists j, x. auto.
    + rewrite in_app_iff, IH. split.
      * intros [H|[j [x [Hne [H1 H2]]]]]; [exists 0, th; auto|]. exists (S j), x. split; [lia|auto].
      * intros [j [x [Hne [H1 H2]]]]. destruct j; simpl in H1.
        { inversion H1; subst. auto. }
        right. exists j, x. split; [lia|auto].
Qed.

Lemma others_allow_spec md l : others_allow md l = true <-> forall b, In b l -> mode_conflict md b = false.
Proof.
  unfold others_allow. rewrite forallb_forall. split; intros H b Hb; specialize (H b Hb).
  - apply negb_true_iff in H. exact H.
  - apply negb_true_iff. exact H.
Qed.

Lemma mode_conflict_sym a b : mode_conflict a b = mode_conflict b a.
Proof. destruct a, b; reflexivity. Qed.

Section Sound.
Variable prog : program.
Variable w : world.

(* ---- how one step changes the mutexes a thread holds ---- *)
Lemma tstep_holds others th l th' : tstep prog w others th l th' ->
  match l with
  | LAcq o md => thread_holds o th = [] /\ others_allow md (others o) = true /\ thread_holds o th' = [md] /\
                 forall o', o' <> o -> thread_holds o' th' = thread_holds o' th
  | LRel o md => thread_holds o th = md :: thread_holds o th' /\
                 forall o', o' <> o -> thread_holds o' th' = thread_holds o' th
  | _ => forall o', thread_holds o' th' = thread_holds o' th
  end.
Proof.
  intro H. inversion H; subst; unfold thread_holds; simpl; unfold frame_holds; simpl.
  - (* start *) intros o'. destruct (Nat.eqb o o'); reflexivity.
  - (* pop *) destruct st; intros o'; destruct (Nat.eqb o o'); reflexivity.
  - (* acquire *)
    rewrite Nat.eqb_refl. repeat split; auto.
    + rewrite H0. reflexivity.
    + intros o' Hne. destruct (Nat.eqb o o') eqn:E; [apply Nat.eqb_eq in E; congruence|reflexivity].
  - (* release *)
    rewrite Nat.eqb_refl. split; [reflexivity|].
    intros o' Hne. destruct (Nat.eqb o o') eqn:E; [apply Nat.eqb_eq in E; congruence|reflexivity].
  - intros o'. reflexivity.
  - intros o'. reflexivity.
  - intros o'. destruct (Nat.eqb o o'); reflexivity.
  - intros o'. destruct (Nat.eqb o o'); reflexivity.
  - (* parent *) intros o'. destruct (Nat.eqb po o'), (Nat.eqb o o'); reflexivity.
  - intros o'. reflexivity.
  - (* child *) intros o'. destruct (Nat.eqb c o'), (Nat.eqb o o'); reflexivity.
  - intros o'. reflexivity.
  - intros o'. reflexivity.
Qed.

Hypothesis Hok : disc_ok prog = true.
Hypothesis Hw : wf_world w.

(* ---- the global invariant ---- *)
Definition excl (c : config) : Prop :=
  forall i j thi thj o a b, i <> j -> nth_error c i = Some thi -> nth_error c j = Some thj ->
    In a (thread_holds o thi) -> In b (thread_holds o thj) -> mode_conflict a b = false.

Definition single (c : config) : Prop :=
  forall i th o, nth_error c i = Some th -> List.length (thread_holds o th) <= 1.

Definition ginv (c : config) : Prop := Forall (thread_inv prog w) c /\ excl c /\ single c.

Lemma Forall_upd {A} (P : A -> Prop) l i x : Forall P l -> P x -> Forall P (upd i x l).
Proof.
  revert i. induction l as [|y l IH]; intros i Hl Hx; destruct i; simpl; auto; inversion Hl; subst; constructor; auto.
Qed.

Lemma Forall_nth_error {A} (P : A -> Prop) l i x : Forall P l -> nth_error l i = Some x -> P x.
Proof. intros H E. rewrite Forall_forall in H. apply H. eapply nth_error_In; eauto. Qed.

Lemma step_moved c i l c' : step prog w c (i, l) c' ->
  exists th th', nth_error c i = Some th /\ tstep prog w (others_hold i c) th l th' /\ c' = upd i th' c.
Proof. intro H. inversion H; subst. eauto. Qed.

Lemma step_preserves c l c' : step prog w c l c' -> ginv c -> ginv c'.
Proof.
  destruct l as [i l]. intros Hs [Hti [Hex Hsi]].
  destruct (step_moved _ _ _ _ Hs) as [th [th' [Hn [Ht Hc']]]]. subst c'.
  assert (Hlen : i < List.length c) by (apply nth_error_Some; congruence).
  pose proof (tstep_holds _ _ _ _ Ht) as Hh.
  (* the moved thread against any other thread *)
  assert (Hone : forall j thj o a b, j <> i -> nth_error c j = Some thj ->
            In a (thread_holds o th') -> In b (thread_holds o thj) -> mode_conflict a b = false).
  { intros j thj o a b Hne Hj Ha Hb. destruct l;
      try (rewrite Hh in Ha; apply (Hex i j th thj o a b); auto).
    - destruct Hh as [_ [Hal [Hnew Hoth]]]. destruct (Nat.eq_dec o o0) as [->|Hno].
      + rewrite Hnew in Ha. destruct Ha as [<-|[]].
        rewrite others_allow_spec in Hal. apply Hal. apply others_hold_In. exists j, thj. repeat split; assumption.
      + rewrite (Hoth o Hno) in Ha. apply (Hex i j th thj o a b); auto.
    - destruct Hh as [Hold Hoth]. destruct (Nat.eq_dec o o0) as [->|Hno].
      + apply (Hex i j th thj o0 a b); auto. rewrite Hold. right. exact Ha.
      + rewrite (Hoth o Hno) in Ha. apply (Hex i j th thj o a b); auto. }
  split; [|split].
  - apply Forall_upd; [exact Hti|]. eapply tstep_preserves; eauto. eapply Forall_nth_error; eauto.
  - intros i1 j1 thi thj o a b Hne Hi1 Hj1 Ha Hb.
    destruct (Nat.eq_dec i1 i) as [->|Hi]; destruct (Nat.eq_dec j1 i) as [->|Hj]; try congruence.
    + rewrite nth_error_upd_same in Hi1 by exact Hlen. inversion Hi1; subst.
      rewrite nth_error_upd_other in Hj1 by congruence. apply (Hone j1 thj o a b); auto.
    + rewrite nth_error_upd_same in Hj1 by exact Hlen. inversion Hj1; subst.
      rewrite nth_error_upd_other in Hi1 by congruence. rewrite mode_conflict_sym. apply (Hone i1 thi o b a); auto.
    + rewrite nth_error_upd_other in Hi1 by congruence. rewrite nth_error_upd_other in Hj1 by congruence.
      apply (Hex i1 j1 thi thj o a b); auto.
  - intros i1 th1 o Hi1. destruct (Nat.eq_dec i1 i) as [->|Hi].
    + rewrite nth_error_upd_same in Hi1 by exact Hlen. inversion Hi1; subst.
      pose proof (Hsi _ _ o Hn) as Hold.
      destruct l; try (rewrite Hh; exact Hold).
      * destruct Hh as [_ [_ [Hnew Hoth]]]. destruct (Nat.eq_dec o o0) as [->|Hno].
        { rewrite Hnew. simpl. lia. } rewrite (Hoth o Hno). exact Hold.
      * destruct Hh as [Ho Hoth]. destruct (Nat.eq_dec o o0) as [->|Hno].
        { rewrite Ho in Hold. simpl in Hold. lia. } rewrite (Hoth o Hno). exact Hold.
    + rewrite nth_error_upd_other in Hi1 by congruence. eapply Hsi; eauto.
Qed.

Lemma exec_preserves c tr c' : exec prog w c tr c' -> ginv c -> ginv c'.
Proof. induction 1; intro Hg; [exact Hg|]. apply IHexec. eapply step_preserves; eauto. Qed.

Lemma initial_ginv c : initial prog w c -> ginv c.
Proof.
  intro Hi. unfold initial in Hi. split; [|split].
  - rewrite Forall_forall in *. intros th Hin. destruct (Hi th Hin) as [Hs Ht].
    split; [rewrite Hs; exact I|exact Ht].
  - intros i j thi thj o a b _ Hi1 _ Ha _. 
    destruct (Forall_nth_error _ _ _ _ Hi Hi1) as [Hs _]. unfold thread_holds in Ha. rewrite Hs in Ha. destruct Ha.
  - intros i th o Hi1. destruct (Forall_nth_error _ _ _ _ Hi Hi1) as [Hs _]. unfold thread_holds. rewrite Hs. simpl. lia.
Qed.

Definition reachable (c0 c : config) : Prop := exists tr, exec prog w c0 tr c.

Lemma reachable_ginv c0 c : initial prog w c0 -> reachable c0 c -> ginv c.
Proof. intros Hi [tr He]. eapply exec_preserves; eauto. apply initial_ginv. exact Hi. Qed.

(* ---- accesses are protected ---- *)
Definition guarded (o : nat) (f : string) : Prop :=
  exists k, find_class prog (w_class w o) = Some k /\ mem f (c_guarded k) = true.

Lemma feff_eff o m a rest k mt :
  find_class prog (w_class w o) = Some k -> find_method (c_methods k) m = Some mt ->
  feff prog w (Frame o m a rest) = eff mt a.
Proof.
  intros Hk Hm. unfold feff, freq. rewrite (frame_mt_of prog w _ _ _ _ _ _ Hk Hm). simpl. destruct a; reflexivity.
Qed.

Lemma mode_le_W md : mode_le W md = true -> md = W.
Proof. destruct md; simpl; congruence. Qed.

Lemma write_holds th o m a f rest st :
  thread_inv prog w th -> t_stack th = Frame o m a (Write f :: rest) :: st ->
  guarded o f /\ In W (thread_holds o th).
Proof.
  intros [Hs _] E. rewrite E in Hs. pose proof Hs as [Hf _].
  destruct (frame_ok_cons prog w _ _ _ _ _ Hf) as (k & mt & a' & Hk & Hm & Hev & _).
  simpl in Hev. destruct (mem f (c_guarded k)) eqn:Eg; simpl in Hev; [|discriminate].
  destruct (holds_at_least W (eff mt a)) eqn:Eh; [|discriminate].
  split; [exists k; auto|].
  unfold holds_at_least in Eh. destruct (eff mt a) as [md|] eqn:Ee; [|discriminate].
  apply mode_le_W in Eh. subst md.
  destruct (eff_is_held prog w _ Hs _ _ W eq_refl) as [md' [Hin Hle]].
  { rewrite (feff_eff _ _ _ _ _ _ Hk Hm). exact Ee. }
  apply mode_le_W in Hle. subst md'. unfold thread_holds. rewrite E. exact Hin.
Qed.

Lemma read_holds th o m a f rest st :
  thread_inv prog w th -> t_stack th = Frame o m a (Read f :: rest) :: st -> guarded o f ->
  exists md, In md (thread_holds o th).
Proof.
  intros [Hs _] E [k0 [Hk0 Hg]]. rewrite E in Hs. pose proof Hs as [Hf _].
  destruct (frame_ok_cons prog w _ _ _ _ _ Hf) as (k & mt & a' & Hk & Hm & Hev & _).
  rewrite Hk in Hk0. inversion Hk0; subst k0.
  simpl in Hev. rewrite Hg in Hev.
  destruct (eff mt a) as [md|] eqn:Ee; simpl in Hev; [|discriminate].
  destruct (eff_is_held prog w _ Hs _ _ md eq_refl) as [md' [Hin _]].
  { rewrite (feff_eff _ _ _ _ _ _ Hk Hm). exact Ee. }
  exists md'. unfold thread_holds. rewrite E. exact Hin.
Qed.

(* ---- race freedom, configuration form: two threads are never simultaneously about to perform conflicting accesses ---- *)
Definition next_access (th : thread) : option (nat * string * bool) :=
  match t_stack th with
  | fr :: _ => match f_rest fr with
               | Read f :: _ => Some (f_obj fr, f, false)
               | Write f :: _ => Some (f_obj fr, f, true)
               | _ => None
               end
  | [] => None
  end.

Definition racy (c : config) : Prop :=
  exists i j thi thj o f wi wj, i <> j /\ nth_error c i = Some thi /\ nth_error c j = Some thj /\
    next_access thi = Some (o, f, wi) /\ next_access thj = Some (o, f, wj) /\ (wi || wj = true).

Lemma next_access_write th o f : next_access th = Some (o, f, true) ->
  exists m a rest st, t_stack th = Frame o m a (Write f :: rest) :: st.
Proof.
  unfold next_access. destruct (t_stack th) as [|[o' m a r] st]; [discriminate|]. simpl.
  destruct r as [|e r]; [discriminate|]. destruct e; try discriminate; intro H; inversion H; subst; eauto.
Qed.

Lemma next_access_read th o f : next_access th = Some (o, f, false) ->
  exists m a rest st, t_stack th = Frame o m a (Read f :: rest) :: st.
Proof.
  unfold next_access. destruct (t_stack th) as [|[o' m a r] st]; [discriminate|]. simpl.
  destruct r as [|e r]; [discriminate|]. destruct e; try discriminate; intro H; inversion H; subst; eauto.
Qed.

Lemma ginv_not_racy c : ginv c -> ~ racy c.
Proof.
  intros [Hti [Hex _]] (i & j & thi & thj & o & f & wi & wj & Hne & Hi & Hj & Hai & Haj & Hw1).
  pose proof (Forall_nth_error _ _ _ _ Hti Hi) as Ii. pose proof (Forall_nth_error _ _ _ _ Hti Hj) as Ij.
  assert (Hcase : forall i j thi thj wj, i <> j -> nth_error c i = Some thi -> nth_error c j = Some thj ->
            thread_inv prog w thi -> thread_inv prog w thj ->
            next_access thi = Some (o, f, true) -> next_access thj = Some (o, f, wj) -> False).
  { clear - Hex Hok Hw. intros i j thi thj wj Hne Hi Hj Ii Ij Hai Haj.
    destruct (next_access_write _ _ _ Hai) as (m & a & rest & st & E).
    destruct (write_holds _ _ _ _ _ _ _ Ii E) as [Hg HW].
    destruct wj.
    - destruct (next_access_write _ _ _ Haj) as (m2 & a2 & rest2 & st2 & E2).
      destruct (write_holds _ _ _ _ _ _ _ Ij E2) as [_ HW2].
      pose proof (Hex i j thi thj o W W Hne Hi Hj HW HW2). discriminate.
    - destruct (next_access_read _ _ _ Haj) as (m2 & a2 & rest2 & st2 & E2).
      destruct (read_holds _ _ _ _ _ _ _ Ij E2 Hg) as [md Hmd].
      pose proof (Hex i j thi thj o W md Hne Hi Hj HW Hmd). destruct md; discriminate. }
  destruct wi.
  - eapply Hcase; eauto.
  - simpl in Hw1. subst wj. eapply (Hcase j i); eauto.
Qed.

(* ---- deadlock freedom ---- *)
Definition blocked_on (others : nat -> list mode) (th : thread) (o : nat) : Prop :=
  exists m md rest st, t_stack th = Frame o m None (Acquire md :: rest) :: st /\
                       others_allow md (others o) = false.

Lemma has_paths_ex mt : has_paths mt = true -> exists p, In p (m_paths mt).
Proof. unfold has_paths. destruct (m_paths mt) as [|p l]; [discriminate|]. intros _. exists p. left. reflexivity. Qed.

Lemma lookup_of o k m mt : find_class prog (w_class w o) = Some k -> find_method (c_methods k) m = Some mt ->
  lookup prog (w_class w o) m = Some mt.
Proof. intros H1 H2. unfold lookup. rewrite H1. exact H2. Qed.

Lemma held_modes_nil_or o st : held_modes o st = [] \/ exists md, In md (held_modes o st).
Proof. destruct (held_modes o st) as [|md l]; [left; reflexivity|right; exists md; left; reflexivity]. Qed.

Lemma thread_progress others th :
  thread_inv prog w th -> ~ thread_done th ->
  (exists l th', tstep prog w others th l th') \/
  (exists o, blocked_on others th o /\ forall o2 md2, In md2 (thread_holds o2 th) -> o < o2).
Proof.
  intros [Hs Htd] Hnd. destruct th as [stk todo]. simpl in *.
  destruct stk as [|[o m a rest] st].
  - (* start the next call *)
    destruct todo as [|[o m] todo]; [exfalso; apply Hnd; split; reflexivity|].
    left. unfold todo_ok in Htd. simpl in Htd. inversion Htd as [|x l' Hx _]; subst.
    destruct Hx as [mt [Hl He]]. simpl in Hl, He.
    assert (Hp : has_paths mt = true).
    { unfold lookup in Hl. destruct (find_class prog (w_class w o)) as [k|] eqn:Ek; [|discriminate].
      pose proof (method_checked prog Hok _ _ _ _ Ek Hl) as Hm. unfold method_ok in Hm.
      apply andb_true_iff in Hm. destruct Hm as [Hm _]. apply andb_true_iff in Hm. destruct Hm as [Hm _]. exact Hm. }
    destruct (has_paths_ex _ Hp) as [p Hin].
    eexists. eexists. apply S_start with (p := p). exists mt. auto.
  - pose proof Hs as [Hf _].
    destruct rest as [|e rest].
    + (* return *)
      left. destruct (frame_ok_inv prog w _ Hf) as (k & mt & _ & _ & _ & Hc). simpl in Hc.
      apply is_none_true in Hc. subst a. eexists. eexists. apply S_pop.
    + destruct (frame_ok_cons prog w _ _ _ _ _ Hf) as (k & mt & a' & Hk & Hm & Hev & _).
      destruct e; simpl in Hev; try discriminate.
      * (* Acquire *)
        destruct (is_none (m_requires mt)) eqn:Er; simpl in Hev; [|discriminate].
        destruct a as [?|]; simpl in Hev; [discriminate|]. apply is_none_true in Er.
        assert (Hnone : held_modes o st = []).
        { destruct (held_modes_nil_or o st) as [H|[md' Hin]]; [exact H|]. exfalso.
          destruct (holders_order prog w Hw _ Hs _ _ eq_refl) as [_ Hstrict].
          assert (He : feff prog w (Frame o m None (Acquire md :: rest)) = None).
          { rewrite (feff_eff _ _ _ _ _ _ Hk Hm). simpl. exact Er. }
          destruct (held_modes_In _ _ _ Hin) as [x [Hx [Hxo Hxa]]].
          assert (f_obj (Frame o m None (Acquire md :: rest)) < f_obj x).
          { apply Hstrict; [exact He|right; exact Hx|congruence]. }
          simpl in H. lia. }
        destruct (others_allow md (others o)) eqn:Eo.
        { left. eexists. eexists. apply S_acquire; eauto. }
        right. exists o. split; [exists m, md, rest, st; auto|].
        intros o2 md2 Hin2. unfold thread_holds in Hin2. simpl t_stack in Hin2.
        destruct (holders_order prog w Hw _ Hs _ _ eq_refl) as [_ Hstrict].
        assert (He : feff prog w (Frame o m None (Acquire md :: rest)) = None).
        { rewrite (feff_eff _ _ _ _ _ _ Hk Hm). simpl. exact Er. }
        destruct (held_modes_In _ _ _ Hin2) as [x [Hx [Hxo Hxa]]].
        assert (Hlt : f_obj (Frame o m None (Acquire md :: rest)) < f_obj x).
        { apply Hstrict; [exact He|exact Hx|congruence]. }
        simpl in Hlt. lia.
      * (* Release *)
        destruct a as [md'|]; [|discriminate]. destruct (mode_eqb md md') eqn:Em; [|discriminate].
        apply mode_eqb_eq in Em. subst md'. left. eexists. eexists. apply S_release.
      * left. eexists. eexists. apply S_read.
      * left. eexists. eexists. apply S_write.
      * (* CallExported *)
        destruct (find_method (c_methods k) m0) as [mt'|] eqn:Em'; [|destruct t; discriminate].
        destruct t.
        -- destruct (m_exported mt' && has_paths mt' && is_none (eff mt a) && clean_ok mt mt' a) eqn:Ec; [|discriminate].
           repeat (apply andb_true_iff in Ec; destruct Ec as [Ec ?]).
           destruct (has_paths_ex _ H1) as [p Hin]. left. eexists. eexists.
           apply S_call_self with (p := p). exists mt'. split; [eapply lookup_of; eauto|auto].
        -- destruct (m_exported mt' && has_paths mt' && negb (uses_child mt')) eqn:Ec; [|discriminate].
           repeat (apply andb_true_iff in Ec; destruct Ec as [Ec ?]).
           destruct (has_paths_ex _ H0) as [p Hin]. left.
           destruct (w_parent w o) as [po|] eqn:Ep.
           ++ eexists. eexists. apply S_call_parent with (p := p) (po := po); [exact Ep|].
              exists mt'. split; [|auto]. rewrite (parent_class w Hw _ _ Ep). eapply lookup_of; eauto.
           ++ eexists. eexists. apply S_call_parent_nil. exact Ep.
        -- destruct (m_exported mt' && has_paths mt' && is_none (eff mt a) && uses_child mt) eqn:Ec; [|discriminate].
           repeat (apply andb_true_iff in Ec; destruct Ec as [Ec ?]).
           destruct (has_paths_ex _ H1) as [p Hin]. left.
           destruct (w_children w o) as [|c cs] eqn:Ech.
           ++ eexists. eexists. apply S_call_child_nil. exact Ech.
           ++ assert (Hinc : In c (w_children w o)) by (rewrite Ech; left; reflexivity).
              eexists. eexists. apply S_call_child with (p := p) (c := c); [exact Hinc|].
              exists mt'. split; [|auto].
              rewrite <- (parent_class w Hw _ _ (child_parent w Hw _ _ Hinc)). eapply lookup_of; eauto.
      * (* CallInternal *)
        destruct (find_method (c_methods k) m0) as [mt'|] eqn:Em'; [|discriminate].
        destruct (negb (m_exported mt') && has_paths mt' && contract_ok mt mt' a && clean_ok mt mt' a) eqn:Ec; [|discriminate].
        repeat (apply andb_true_iff in Ec; destruct Ec as [Ec ?]).
        destruct (has_paths_ex _ H1) as [p Hin]. left. eexists. eexists.
        apply S_call_internal with (p := p). exists mt'. split; [eapply lookup_of; eauto|].
        split; [|exact Hin]. apply negb_true_iff in Ec. exact Ec.
Qed.

Lemma others_allow_false md l : others_allow md l = false -> exists b, In b l.
Proof. destruct l as [|b l]; [discriminate|]. intros _. exists b. left. reflexivity. Qed.

Lemma blocked_chain c : ginv c -> forall n i th o, o <= n -> nth_error c i = Some th ->
  blocked_on (others_hold i c) th o -> exists l c', step prog w c l c'.
Proof.
  intros Hg. pose proof Hg as [Hti _]. induction n as [|n IH]; intros i th o Hle Hi Hb.
  all: destruct Hb as (m & md & rest & st & _ & Hfalse);
       destruct (others_allow_false _ _ Hfalse) as [b Hb];
       apply others_hold_In in Hb; destruct Hb as (j & thj & Hne & Hj & Hbj);
       pose proof (Forall_nth_error _ _ _ _ Hti Hj) as Ij;
       (assert (Hnd : ~ thread_done thj)
         by (intros [Hd _]; unfold thread_holds in Hbj; rewrite Hd in Hbj; destruct Hbj));
       destruct (thread_progress (others_hold j c) thj Ij Hnd) as [[l [th' Hstep]]|[o' [Hbl Hord]]];
       try (exists (j, l), (upd j th' c); econstructor; eauto; fail);
       pose proof (Hord _ _ Hbj) as Hlt.
  - lia.
  - apply (IH j thj o'); [lia|exact Hj|exact Hbl].
Qed.

Lemma thread_done_dec th : {thread_done th} + {~ thread_done th}.
Proof.
  unfold thread_done. destruct (t_stack th); [|right; intros [H _]; discriminate].
  destruct (t_todo th); [left; auto|right; intros [_ H]; discriminate].
Qed.

(* in every configuration that satisfies the invariant, either every goroutine has finished all its calls,
   or some goroutine can take a step: no deadlock *)
Theorem ginv_progress c : ginv c -> all_done c \/ exists l c', step prog w c l c'.
Proof.
  intro Hg. pose proof Hg as [Hti _].
  destruct (Forall_Exists_dec thread_done thread_done_dec c) as [Hall|Hex]; [left; exact Hall|right].
  apply Exists_exists in Hex. destruct Hex as [th [Hin Hnd]].
  destruct (In_nth_error _ _ Hin) as [i Hi].
  pose proof (Forall_nth_error _ _ _ _ Hti Hi) as Ii.
  destruct (thread_progress (others_hold i c) th Ii Hnd) as [[l [th' Hstep]]|[o [Hbl _]]].
  - exists (i, l), (upd i th' c). econstructor; eauto.
  - eapply blocked_chain; eauto.
Qed.

(* ---- happens-before through the mutex (trace form of race freedom) ---- *)
Lemma mode_eq_dec (a b : mode) : {a = b} + {a <> b}.
Proof. decide equality. Qed.

Lemma step_thread_after c t l c' t2 th2 :
  step prog w c (t, l) c' -> nth_error c t2 = Some th2 ->
  exists th2', nth_error c' t2 = Some th2' /\
    (t2 <> t -> th2' = th2) /\
    (t2 = t -> tstep prog w (others_hold t c) th2 l th2').
Proof.
  intros Hs H2. destruct (step_moved _ _ _ _ Hs) as (th & th' & Hn & Ht & ->).
  destruct (Nat.eq_dec t2 t) as [->|Hne].
  - exists th'. rewrite nth_error_upd_same by (apply nth_error_Some; congruence).
    split; [reflexivity|]. split; [congruence|]. intros _. rewrite Hn in H2. inversion H2; subst. exact Ht.
  - exists th2. rewrite nth_error_upd_other by congruence. split; [exact H2|]. split; [reflexivity|congruence].
Qed.

Lemma acq_later c tr c' : exec prog w c tr c' -> forall t2 th2 th2' o md2,
  nth_error c t2 = Some th2 -> ~ In md2 (thread_holds o th2) ->
  nth_error c' t2 = Some th2' -> In md2 (thread_holds o th2') ->
  exists l, nth_error tr l = Some (t2, LAcq o md2).
Proof.
  induction 1 as [c|c [t lab] c1 tr c2 Hs He IH]; intros t2 th2 th2' o md2 H2 Hno H2' Hyes.
  - rewrite H2 in H2'. inversion H2'; subst. contradiction.
  - destruct (step_thread_after _ _ _ _ _ _ Hs H2) as (thx & Hx & Hsame & Hmoved).
    destruct (Nat.eq_dec t2 t) as [->|Hne].
    + specialize (Hmoved eq_refl). pose proof (tstep_holds _ _ _ _ Hmoved) as Hh.
      assert (Hcase : lab = LAcq o md2 \/ ~ In md2 (thread_holds o thx)).
      { destruct lab; try (right; rewrite Hh; exact Hno).
        - destruct Hh as (_ & _ & Hnew & Hoth). destruct (Nat.eq_dec o0 o) as [->|Hno'].
          + destruct (mode_eq_dec md md2) as [->|Hnm]; [left; reflexivity|right].
            rewrite Hnew. intros [E|[]]. congruence.
          + right. rewrite (Hoth o) by congruence. exact Hno.
        - destruct Hh as (Hold & Hoth). destruct (Nat.eq_dec o0 o) as [->|Hno'].
          + right. intro Hin. apply Hno. rewrite Hold. right. exact Hin.
          + right. rewrite (Hoth o) by congruence. exact Hno. }
      destruct Hcase as [->|Hno1]; [exists 0; reflexivity|].
      destruct (IH _ _ _ _ _ Hx Hno1 H2' Hyes) as [l Hl]. exists (S l). exact Hl.
    + rewrite (Hsame Hne) in Hx.
      destruct (IH _ _ _ _ _ Hx Hno H2' Hyes) as [l Hl]. exists (S l). exact Hl.
Qed.

(* if t1 holds o's mutex in mode md1 now and t2 holds it in a conflicting mode later, then in between t1 released it and,
   after that, t2 acquired it *)
Lemma release_then_acquire c tr c' : exec prog w c tr c' -> ginv c -> forall t1 t2 th1 th2' o md1 md2,
  t1 <> t2 -> nth_error c t1 = Some th1 -> In md1 (thread_holds o th1) ->
  nth_error c' t2 = Some th2' -> In md2 (thread_holds o th2') -> mode_conflict md1 md2 = true ->
  exists k l, k < l /\ nth_error tr k = Some (t1, LRel o md1) /\ nth_error tr l = Some (t2, LAcq o md2).
Proof.
  induction 1 as [c|c [t lab] c1 tr c2 Hs He IH]; intros Hg t1 t2 th1 th2' o md1 md2 Hne H1 Hin1 H2' Hin2 Hconf.
  - destruct Hg as [_ [Hex _]]. rewrite (Hex t1 t2 th1 th2' o md1 md2 Hne H1 H2' Hin1 Hin2) in Hconf. discriminate.
  - pose proof (step_preserves _ _ _ Hs Hg) as Hg1.
    destruct (step_thread_after _ _ _ _ _ _ Hs H1) as (th1x & H1x & Hsame & Hmoved).
    assert (Hcase : (t = t1 /\ lab = LRel o md1) \/ In md1 (thread_holds o th1x)).
    { destruct (Nat.eq_dec t1 t) as [->|Hnt]; [|right; rewrite (Hsame Hnt); exact Hin1].
      specialize (Hmoved eq_refl). pose proof (tstep_holds _ _ _ _ Hmoved) as Hh.
      destruct lab; try (right; rewrite Hh; exact Hin1).
      - destruct Hh as (Hnil & _ & _ & Hoth). destruct (Nat.eq_dec o0 o) as [->|Hno'].
        + rewrite Hnil in Hin1. destruct Hin1.
        + right. rewrite (Hoth o) by congruence. exact Hin1.
      - destruct Hh as (Hold & Hoth). destruct (Nat.eq_dec o0 o) as [->|Hno'].
        + left. split; [reflexivity|]. destruct Hg as [_ [_ Hsi]]. pose proof (Hsi _ _ o H1) as Hlen.
          rewrite Hold in Hlen, Hin1. destruct (thread_holds o th1x); [|simpl in Hlen; lia].
          destruct Hin1 as [->|[]]. reflexivity.
        + right. rewrite (Hoth o) by congruence. exact Hin1. }
    destruct Hcase as [[-> ->]|Hin1x].
    + (* t1 releases now; t2 cannot hold md2 here, so it acquires later *)
      destruct (nth_error c t2) as [th2|] eqn:E2.
      2:{ exfalso. assert (Hl : List.length c1 = List.length c).
          { destruct (step_moved _ _ _ _ Hs) as (? & ? & _ & _ & ->). apply upd_length. }
          assert (Hl2 : forall cx trx cy, exec prog w cx trx cy -> List.length cy = List.length cx).
          { clear. induction 1 as [|cx [t l] cz trx cy Hs _ IHe]; [reflexivity|]. rewrite IHe.
            destruct (step_moved _ _ _ _ Hs) as (? & ? & _ & _ & ->). apply upd_length. }
          apply nth_error_None in E2. rewrite <- Hl, <- (Hl2 _ _ _ He) in E2.
          apply nth_error_None in E2. congruence. }
      destruct (step_thread_after _ _ _ _ _ _ Hs E2) as (th2x & H2x & Hsame2 & _).
      rewrite (Hsame2 (not_eq_sym Hne)) in H2x.
      assert (Hno : ~ In md2 (thread_holds o th2)).
      { intro Hin. destruct Hg as [_ [Hex _]].
        rewrite (Hex t1 t2 th1 th2 o md1 md2 Hne H1 E2 Hin1 Hin) in Hconf. discriminate. }
      destruct (acq_later _ _ _ He _ _ _ _ _ H2x Hno H2' Hin2) as [l Hl].
      exists 0, (S l). split; [lia|]. split; [reflexivity|exact Hl].
    + destruct (IH Hg1 t1 t2 th1x th2' o md1 md2 Hne H1x Hin1x H2' Hin2 Hconf) as (k & l & Hkl & Hk & Hl).
      exists (S k), (S l). split; [lia|]. split; assumption.
Qed.

Lemma exec_split c tr c' : exec prog w c tr c' -> forall i x, nth_error tr i = Some x ->
  exists tr1 tr2 c1 c1', tr = tr1 ++ x :: tr2 /\ List.length tr1 = i /\
    exec prog w c tr1 c1 /\ step prog w c1 x c1' /\ exec prog w c1' tr2 c'.
Proof.
  induction 1 as [c|c l c1 tr c2 Hs He IH]; intros i x Hi.
  - destruct i; discriminate.
  - destruct i as [|i]; simpl in Hi.
    + inversion Hi; subst. exists [], tr, c, c1. repeat split; auto. constructor.
    + destruct (IH i x Hi) as (tr1 & tr2 & ca & cb & -> & Hlen & H1 & H2 & H3).
      exists (l :: tr1), tr2, ca, cb. repeat split; auto; [simpl; lia|econstructor; eauto].
Qed.

Lemma tstep_write others th o f th' : tstep prog w others th (LWrite o f) th' ->
  exists m a rest st, t_stack th = Frame o m a (Write f :: rest) :: st.
Proof. intro H. inversion H; subst; try (destruct st; discriminate). simpl. eauto. Qed.

Lemma tstep_read others th o f th' : tstep prog w others th (LRead o f) th' ->
  exists m a rest st, t_stack th = Frame o m a (Read f :: rest) :: st.
Proof. intro H. inversion H; subst; try (destruct st; discriminate). simpl. eauto. Qed.

Definition is_access (l : label) (o : nat) (f : string) : Prop := l = LRead o f \/ l = LWrite o f.

(* the mutex mode that protects an access performed in configuration c *)
Lemma access_step_holds c t l c' o f :
  ginv c -> step prog w c (t, l) c' -> is_access l o f ->
  (l = LWrite o f \/ guarded o f) ->
  exists th th' md, nth_error c t = Some th /\ nth_error c' t = Some th' /\
    In md (thread_holds o th) /\ In md (thread_holds o th') /\ (l = LWrite o f -> md = W /\ guarded o f).
Proof.
  intros Hg Hs Ha Hgw. destruct (step_moved _ _ _ _ Hs) as (th & th' & Hn & Ht & ->).
  pose proof Hg as [Hti _]. pose proof (Forall_nth_error _ _ _ _ Hti Hn) as Ii.
  pose proof (tstep_holds _ _ _ _ Ht) as Hh.
  assert (Hn' : nth_error (upd t th' c) t = Some th') by (apply nth_error_upd_same; apply nth_error_Some; congruence).
  destruct Ha as [->| ->].
  - destruct Hgw as [Hx|Hgd]; [discriminate|].
    destruct (tstep_read _ _ _ _ _ Ht) as (m & a & rest & st & E).
    destruct (read_holds _ _ _ _ _ _ _ Ii E Hgd) as [md Hmd].
    exists th, th', md. repeat split; auto; try discriminate. rewrite Hh. exact Hmd.
  - destruct (tstep_write _ _ _ _ _ Ht) as (m & a & rest & st & E).
    destruct (write_holds _ _ _ _ _ _ _ Ii E) as [Hgd HW].
    exists th, th', W. repeat split; auto. rewrite Hh. exact HW.
Qed.

(* THE trace form of race freedom: two conflicting accesses by different goroutines are always separated by a
   release of the object's mutex by the first and a later acquisition by the second (a happens-before edge
   of the Go memory model: "the n-th Unlock is synchronized before the m-th Lock returns, n < m") *)
Theorem conflicting_accesses_ordered c0 tr c :
  initial prog w c0 -> exec prog w c0 tr c ->
  forall i j t1 t2 l1 l2 o f, i < j ->
    nth_error tr i = Some (t1, l1) -> nth_error tr j = Some (t2, l2) -> t1 <> t2 ->
    is_access l1 o f -> is_access l2 o f -> (l1 = LWrite o f \/ l2 = LWrite o f) ->
    exists k l md1 md2, i < k /\ k < l /\ l < j /\
      nth_error tr k = Some (t1, LRel o md1) /\ nth_error tr l = Some (t2, LAcq o md2).
Proof.
  intros Hi He i j t1 t2 l1 l2 o f Hij H1 H2 Hne A1 A2 Hw1.
  destruct (exec_split _ _ _ He _ _ H1) as (tr1 & tr2 & c1 & c1' & -> & Hlen & E1 & S1 & E2).
  assert (H2b : nth_error tr2 (j - i - 1) = Some (t2, l2)).
  { rewrite nth_error_app2 in H2 by lia. rewrite Hlen in H2.
    replace (j - i) with (S (j - i - 1)) in H2 by lia. exact H2. }
  destruct (exec_split _ _ _ E2 _ _ H2b) as (tr3 & tr4 & c2 & c2' & -> & Hlen3 & E3 & S2 & E4).
  assert (G1 : ginv c1) by (eapply exec_preserves; eauto; apply initial_ginv; exact Hi).
  assert (G1' : ginv c1') by (eapply step_preserves; eauto).
  assert (G2 : ginv c2) by (eapply exec_preserves; eauto).
  (* f is guarded: one of the two accesses is a write *)
  assert (Hgd : guarded o f).
  { destruct Hw1 as [->| ->].
    - destruct (access_step_holds _ _ _ _ _ _ G1 S1 A1 (or_introl eq_refl)) as (? & ? & ? & _ & _ & _ & _ & Hx).
      destruct (Hx eq_refl). assumption.
    - destruct (access_step_holds _ _ _ _ _ _ G2 S2 A2 (or_introl eq_refl)) as (? & ? & ? & _ & _ & _ & _ & Hx).
      destruct (Hx eq_refl). assumption. }
  destruct (access_step_holds _ _ _ _ _ _ G1 S1 A1 (or_intror Hgd)) as (th1 & th1' & md1 & _ & N1' & _ & In1' & W1).
  destruct (access_step_holds _ _ _ _ _ _ G2 S2 A2 (or_intror Hgd)) as (th2 & ? & md2 & N2 & _ & In2 & _ & W2).
  assert (Hconf : mode_conflict md1 md2 = true).
  { destruct Hw1 as [E|E]; [destruct (W1 E) as [-> _]; destruct md2; reflexivity|destruct (W2 E) as [-> _]; destruct md1; reflexivity]. }
  destruct (release_then_acquire _ _ _ E3 G1' t1 t2 th1' th2 o md1 md2 Hne N1' In1' N2 In2 Hconf)
    as (k & l & Hkl & Hk & Hl).
  assert (Hl3 : l < List.length tr3) by (apply nth_error_Some; congruence).
  exists (i + 1 + k), (i + 1 + l), md1, md2.
  split; [lia|]. split; [lia|]. split; [lia|].
  split.
  - rewrite nth_error_app2 by lia. replace (i + 1 + k - List.length tr1) with (S k) by lia. simpl.
    rewrite nth_error_app1 by lia. exact Hk.
  - rewrite nth_error_app2 by lia. replace (i + 1 + l - List.length tr1) with (S l) by lia. simpl.
    rewrite nth_error_app1 by lia. exact Hl.
Qed.

End Sound.

(* ================= the statements, for all schedules ================= *)
(* A schedule = an execution `exec prog w c0 tr c`: the list tr of (goroutine, label) pairs fixes the interleaving
   and every nondeterministic choice (which path a call takes, which child object). *)

(* no data race: (a) no reachable configuration has two goroutines about to perform conflicting accesses;
   (b) any two conflicting accesses in a trace are ordered by a Release/Acquire pair on the object's mutex *)
Definition hb_ordered (tr : list (nat * label)) : Prop :=
  forall i j t1 t2 l1 l2 o f, i < j ->
    nth_error tr i = Some (t1, l1) -> nth_error tr j = Some (t2, l2) -> t1 <> t2 ->
    is_access l1 o f -> is_access l2 o f -> (l1 = LWrite o f \/ l2 = LWrite o f) ->
    exists k l md1 md2, i < k /\ k < l /\ l < j /\
      nth_error tr k = Some (t1, LRel o md1) /\ nth_error tr l = Some (t2, LAcq o md2).

Definition race_free (prog : program) (w : world) (c0 : config) : Prop :=
  forall tr c, exec prog w c0 tr c -> ~ racy c /\ hb_ordered tr.

(* no deadlock: in every reachable configuration some goroutine can step unless all have finished.
   (Every method body is a finite path, so a goroutine that can always step eventually returns, PROVIDED the
   recursion through parent/child objects ends — it does in a finite forest — and the scheduler is fair: both
   are outside this statement.) *)
Definition no_thread_blocked_forever (prog : program) (w : world) (c0 : config) : Prop :=
  forall tr c, exec prog w c0 tr c -> all_done c \/ exists l c', step prog w c l c'.

Theorem disc_ok_sound prog w c0 :
  disc_ok prog = true -> wf_world w -> initial prog w c0 ->
  race_free prog w c0 /\ no_thread_blocked_forever prog w c0.
Proof.
  intros Hok Hw Hi.
  assert (Hg : forall tr c, exec prog w c0 tr c -> ginv prog w c).
  { intros tr c He. eapply exec_preserves; eauto. apply initial_ginv; auto. }
  split.
  - intros tr c He. split.
    + eapply ginv_not_racy; eauto.
    + unfold hb_ordered. intros. eapply conflicting_accesses_ordered; eauto.
  - intros tr c He. eapply ginv_progress; eauto.
Qed.
