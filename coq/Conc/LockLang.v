(* C17 — a small language of method bodies as lock/access events, and an interleaving semantics.

   One *class* per Go struct type that is documented as shared (ProtoForkChoice, PubkeyCache, CachedPubkey, the five
   pools).  Every object has exactly ONE mutex (the struct's mutex field / embedded mutex), so `Acquire`/`Release`
   need no mutex name: they act on the mutex of the object the method runs on.  A method is a finite set of event
   paths (branching is abstracted to nondeterministic choice; a loop body occurs 0 or 1+ times: the translator
   unrolls it into alternatives).  `Defer (Release)` runs when the path ends (LIFO), as Go's `defer` does.

   Objects live in a static forest (`world`): `w_parent o = Some p` is the Go field `parent` (PubkeyCache).  A call on
   a freshly constructed child (`forkedPc.AddValidator`) is a `CallExported Child`: "some object whose parent is the
   current one" (the forest is the set of all cache objects that ever exist in the run).

   NOT modelled (trusted, see design/C17.md): the Go memory model, the goroutine scheduler (any interleaving of
   atomic events is allowed here; weak-memory effects are excluded by Go's DRF-SC guarantee once race freedom holds),
   data values (results of calls), panics. *)
From Coq Require Import List String Bool Arith Lia.
Import ListNotations.
Local Open Scope string_scope.
Local Open Scope list_scope.

Inductive mode := R | W.

Inductive target := Self | Parent | Child.

Inductive ev :=
| Acquire (md : mode)              (* x.mu.Lock() = Acquire W, x.mu.RLock() = Acquire R *)
| Release (md : mode)              (* Unlock = Release W, RUnlock = Release R *)
| Defer (md : mode)                (* defer x.mu.Unlock()/RUnlock(): released when the path ends *)
| Read (f : string)
| Write (f : string)
| CallExported (t : target) (m : string)
| CallInternal (m : string)
| Leak (f : string)                (* a reference to guarded memory escapes (return x.f of map/slice/pointer type, &x.f[i]) *)
| Unknown (pos : string)           (* something the translator could not classify *)
| Return.                          (* the path ends here (events after it are dead code) *)

Definition path := list ev.

Record method := Method {
  m_name : string;
  m_exported : bool;
  m_requires : option mode;        (* contract of an internal helper: None = caller must hold nothing (the helper may lock
                                      itself), Some md = caller holds the object's mutex at least in mode md *)
  m_paths : list path }.

Record class := Class {
  c_name : string;
  c_guarded : list string;         (* fields guarded by the object's mutex *)
  c_immutable : list string;       (* fields never written after construction (checked: no method writes them) *)
  c_methods : list method }.

Definition program := list class.

Definition mode_eqb (a b : mode) : bool :=
  match a, b with R, R | W, W => true | _, _ => false end.

Lemma mode_eqb_eq a b : mode_eqb a b = true <-> a = b.
Proof. destruct a, b; simpl; split; congruence. Qed.

(* md1 is at most md2 *)
Definition mode_le (a b : mode) : bool :=
  match a, b with W, R => false | _, _ => true end.

(* two holders of one mutex in these modes cannot coexist *)
Definition mode_conflict (a b : mode) : bool :=
  match a, b with R, R => false | _, _ => true end.

Fixpoint find_class (p : program) (c : string) : option class :=
  match p with
  | [] => None
  | k :: p' => if String.eqb (c_name k) c then Some k else find_class p' c
  end.

Fixpoint find_method (ms : list method) (m : string) : option method :=
  match ms with
  | [] => None
  | x :: ms' => if String.eqb (m_name x) m then Some x else find_method ms' m
  end.

Definition lookup (p : program) (c m : string) : option method :=
  match find_class p c with
  | Some k => find_method (c_methods k) m
  | None => None
  end.

(* ---- defers: move the deferred releases to the end of the path (LIFO); cut at Return ---- *)
Fixpoint cut_return (p : path) : path :=
  match p with
  | [] => []
  | Return :: _ => []
  | e :: p' => e :: cut_return p'
  end.

Fixpoint strip_defers (p : path) : path :=
  match p with
  | [] => []
  | Defer _ :: p' => strip_defers p'
  | e :: p' => e :: strip_defers p'
  end.

Fixpoint deferred (p : path) : list ev :=   (* in LIFO order *)
  match p with
  | [] => []
  | Defer md :: p' => deferred p' ++ [Release md]
  | _ :: p' => deferred p'
  end.

Definition norm (p : path) : path :=
  let q := cut_return p in strip_defers q ++ deferred q.

(* ---- the world of objects ---- *)
Record world := World {
  w_class : nat -> string;
  w_parent : nat -> option nat;
  w_children : nat -> list nat }.

Definition wf_world (w : world) : Prop :=
  (forall o p, w_parent w o = Some p -> p < o /\ w_class w p = w_class w o) /\
  (forall o c, In c (w_children w o) <-> w_parent w c = Some o).

(* ---- run-time state ---- *)
Record frame := Frame {
  f_obj : nat;
  f_meth : string;                 (* the method this frame executes (identity of the Go function) *)
  f_acq : option mode;             (* the object's mutex is held through an Acquire executed by this frame *)
  f_rest : path }.

Record thread := Thread {
  t_stack : list frame;            (* top first *)
  t_todo : list (nat * string) }.  (* remaining top-level calls (object, exported method) of this goroutine *)

Definition config := list thread.

Definition frame_holds (o : nat) (fr : frame) : option mode :=
  if Nat.eqb (f_obj fr) o then f_acq fr else None.

(* modes in which the thread holds o's mutex (one entry per acquiring frame) *)
Fixpoint held_modes (o : nat) (st : list frame) : list mode :=
  match st with
  | [] => []
  | fr :: st' => match frame_holds o fr with Some md => md :: held_modes o st' | None => held_modes o st' end
  end.

Definition thread_holds (o : nat) (th : thread) : list mode := held_modes o (t_stack th).

(* Go's sync.RWMutex: a Lock needs no other holder at all, an RLock no writer.  (Writer preference — a pending
   Lock also stops new RLocks — only removes schedules; re-entrant RLock, which it can block forever, is treated as
   blocking ALWAYS: see `tstep` Acquire, the thread must not hold the mutex in any mode.) *)
Definition others_allow (md : mode) (others : list mode) : bool :=
  forallb (fun md' => negb (mode_conflict md md')) others.

Inductive label :=
| LAcq (o : nat) (md : mode)
| LRel (o : nat) (md : mode)
| LRead (o : nat) (f : string)
| LWrite (o : nat) (f : string)
| LStart (o : nat) (m : string)    (* a top-level call begins *)
| LEnd                             (* the thread's call stack became empty: the top-level call returned *)
| LTau.                            (* call / return of a nested frame, Leak, Unknown, skipped call *)

Section Sem.
Variable prog : program.
Variable w : world.

Definition new_frame (o : nat) (m : string) (p : path) : frame := Frame o m None (norm p).

(* can a frame for method m (exported flag as required) on object o with path p be created? *)
Definition callable (o : nat) (m : string) (exported : bool) (p : path) : Prop :=
  exists mt, lookup prog (w_class w o) m = Some mt /\ m_exported mt = exported /\ In p (m_paths mt).

(* one step of one thread; `others o` = modes in which OTHER threads hold o's mutex *)
Inductive tstep (others : nat -> list mode) : thread -> label -> thread -> Prop :=
| S_start : forall o m p todo,
    callable o m true p ->
    tstep others (Thread [] ((o, m) :: todo)) (LStart o m) (Thread [new_frame o m p] todo)
| S_pop : forall o m st todo,
    (* returning while this frame still holds the mutex would leave it locked for ever; modelled as stuck *)
    tstep others (Thread (Frame o m None [] :: st) todo) (match st with [] => LEnd | _ => LTau end) (Thread st todo)
| S_acquire : forall o m md rest st todo,
    held_modes o st = [] ->            (* not re-entrant: a thread that already holds the mutex blocks for ever *)
    others_allow md (others o) = true ->
    tstep others (Thread (Frame o m None (Acquire md :: rest) :: st) todo) (LAcq o md)
                 (Thread (Frame o m (Some md) rest :: st) todo)
| S_release : forall o m md rest st todo,
    tstep others (Thread (Frame o m (Some md) (Release md :: rest) :: st) todo) (LRel o md)
                 (Thread (Frame o m None rest :: st) todo)
| S_read : forall o m a f rest st todo,
    tstep others (Thread (Frame o m a (Read f :: rest) :: st) todo) (LRead o f)
                 (Thread (Frame o m a rest :: st) todo)
| S_write : forall o m a f rest st todo,
    tstep others (Thread (Frame o m a (Write f :: rest) :: st) todo) (LWrite o f)
                 (Thread (Frame o m a rest :: st) todo)
| S_call_self : forall o m a m' p rest st todo,
    callable o m' true p ->
    tstep others (Thread (Frame o m a (CallExported Self m' :: rest) :: st) todo) LTau
                 (Thread (new_frame o m' p :: Frame o m a rest :: st) todo)
| S_call_internal : forall o m a m' p rest st todo,
    callable o m' false p ->
    tstep others (Thread (Frame o m a (CallInternal m' :: rest) :: st) todo) LTau
                 (Thread (new_frame o m' p :: Frame o m a rest :: st) todo)
| S_call_parent : forall o m a m' p po rest st todo,
    w_parent w o = Some po ->
    callable po m' true p ->
    tstep others (Thread (Frame o m a (CallExported Parent m' :: rest) :: st) todo) LTau
                 (Thread (new_frame po m' p :: Frame o m a rest :: st) todo)
| S_call_parent_nil : forall o m a m' rest st todo,
    w_parent w o = None ->       (* the Go code guards `x.parent != nil`; a call that cannot happen is skipped *)
    tstep others (Thread (Frame o m a (CallExported Parent m' :: rest) :: st) todo) LTau
                 (Thread (Frame o m a rest :: st) todo)
| S_call_child : forall o m a m' p c rest st todo,
    In c (w_children w o) ->
    callable c m' true p ->
    tstep others (Thread (Frame o m a (CallExported Child m' :: rest) :: st) todo) LTau
                 (Thread (new_frame c m' p :: Frame o m a rest :: st) todo)
| S_call_child_nil : forall o m a m' rest st todo,
    w_children w o = [] ->
    tstep others (Thread (Frame o m a (CallExported Child m' :: rest) :: st) todo) LTau
                 (Thread (Frame o m a rest :: st) todo)
| S_skip : forall o m a e rest st todo,
    (match e with Leak _ | Unknown _ | Defer _ | Return => True | _ => False end) ->
    tstep others (Thread (Frame o m a (e :: rest) :: st) todo) LTau
                 (Thread (Frame o m a rest :: st) todo).

(* modes in which the threads other than number i hold o *)
Fixpoint others_hold (i : nat) (c : config) (o : nat) : list mode :=
  match c with
  | [] => []
  | th :: c' => match i with
                | 0 => List.concat (map (thread_holds o) c')
                | S i' => thread_holds o th ++ others_hold i' c' o
                end
  end.

Fixpoint upd {A} (i : nat) (x : A) (l : list A) : list A :=
  match l, i with
  | [], _ => []
  | _ :: l', 0 => x :: l'
  | y :: l', S i' => y :: upd i' x l'
  end.

(* global step: thread i moves *)
Inductive step : config -> nat * label -> config -> Prop :=
| Step : forall c i th l th',
    nth_error c i = Some th ->
    tstep (others_hold i c) th l th' ->
    step c (i, l) (upd i th' c).

(* an execution: the sequence of (thread, label) pairs is the schedule together with the nondeterministic choices *)
Inductive exec : config -> list (nat * label) -> config -> Prop :=
| E_nil : forall c, exec c [] c
| E_cons : forall c l c1 tr c2, step c l c1 -> exec c1 tr c2 -> exec c (l :: tr) c2.

Definition thread_done (th : thread) : Prop := t_stack th = [] /\ t_todo th = [].
Definition all_done (c : config) : Prop := Forall thread_done c.

(* initial configurations: every goroutine has an empty stack and a list of calls of exported methods that exist *)
Definition todo_ok (th : thread) : Prop :=
  Forall (fun om => exists mt, lookup prog (w_class w (fst om)) (snd om) = Some mt /\ m_exported mt = true) (t_todo th).
Definition initial (c : config) : Prop :=
  Forall (fun th => t_stack th = [] /\ todo_ok th) c.

End Sem.
