(* C18 — the error-flow language.

   A program is a table of function bodies.  A body is a tree of statements that keeps, of the Go source,
   only what decides whether an error value reaches the caller:

     Poll            err := ctx.Err()                       (the context is looked at)
     Call f          ..., err := f(...)   f is another body of the table
     CallLib n       ..., err := n(...)   a library leaf (ztyp getter/setter ...): may fail, cannot see a fault
     CallThread n    ..., err := n(v, err) a leaf that is handed the pending error and returns it when non-nil
     Engine q        valid, err := engine.q(ctx, ...)        answer scripted: Valid | Invalid | EngError
     IfErr v h       if v != nil { h }      h : Propagate | Wrap | Drop | ReturnNil | PanicH
     CheckVerdict v h  if !v { h }          h : VToErr | VPass | VIgnore | VReturnNil | VPanic
     Ret r           return nil | a fresh error | the variable v | false,nil | valid,err
     Seq, Branch (if/else/switch, decided by an oracle), Loop (iteration count from the oracle), Brk, Cont
     Unknown         something the translator could not classify (never accepted by the checker)

   Go's error variables are modelled by ONE register `reg` plus the identity (`tev`, `tbv`) of the variables
   that were assigned by the most recent call: a test `if v != nil` on any other variable sees nil.  This is
   exact for programs that check every error before the next call (the discipline `errflow_ok` enforces), and
   for the others it only has to be a faithful witness of the loss, which the checker reports first.

   A run is deterministic given a *fault schedule*: from which Poll on the context is cancelled (and stays
   cancelled), what the j-th engine call answers, and an oracle for everything the abstraction left open
   (branch taken, number of loop iterations, whether a library leaf fails).  A run yields a function result
   and records whether a fault was OBSERVED (a Poll that saw the cancellation, an engine answer other than
   Valid).  Fuel bounds the call depth only (statements are structural), so "out of fuel" can only happen at a
   call.  No proofs here. *)
From Coq Require Import String List Bool Arith PeanoNat.
Import ListNotations.

Inductive verdict := Valid | Invalid | EngError.

(* value of the (valid, err) pair a call hands back: (true,nil) | (false,nil) | (_, err) *)
Inductive res := ROk | RFalse | RErr.

Inductive handling := Propagate | Wrap | Drop | ReturnNil | PanicH.
Inductive vhandling := VToErr | VPass | VIgnore | VReturnNil | VPanic.

Inductive retk :=
| RetNil                    (* return nil            / return true, nil *)
| RetFresh                  (* return errors.New(..) / return false, fmt.Errorf(..) *)
| RetReg (v : nat)          (* return v              (only the error variable is returned) *)
| RetFalse                  (* return false, nil *)
| RetBoth (bv ev : nat).    (* return valid, err     / return f(...) of a (bool, error) function *)

Inductive stmt :=
| Skip
| Poll (site : string) (ev : nat)
| Call (site : string) (f : string) (ev bv : nat)
| CallLib (site : string) (name : string) (ev : nat)
| CallThread (site : string) (name : string) (tin ev : nat)
| Engine (site : string) (q : string) (ev bv : nat)
| SetErr (site : string) (ev : nat)          (* v = errors.New(...) : a fresh non-nil error is stored, not returned *)
| IfErr (site : string) (v : nat) (h : handling)
| CheckVerdict (site : string) (v : nat) (h : vhandling)
| Ret (site : string) (r : retk)
| Seq (a b : stmt)
| Branch (a b : stmt)
| Loop (body : stmt)
| Brk
| Cont
| Unknown (site : string).

Inductive fkind := Plain | VerdictFn.   (* results (..., error)  |  (bool, error) carrying an engine verdict *)

Record fundef := mkfun {
  fname : string;
  fpos : string;              (* file:line of the declaration *)
  fkind_of : fkind;
  takes_ctx : bool;           (* has a context.Context parameter *)
  takes_err : option nat;     (* has an `err error` parameter (threaded idiom): its variable id *)
  may_fault : bool;           (* can observe a fault: polls, queries the engine, or calls a function that can *)
  fbody : stmt }.

Record program := mkprog { funs : list fundef; roots : list string }.

Fixpoint lookup_fun (l : list fundef) (f : string) : option fundef :=
  match l with
  | [] => None
  | fd :: tl => if String.eqb (fname fd) f then Some fd else lookup_fun tl f
  end.
Definition lookup (p : program) (f : string) : option fundef := lookup_fun (funs p) f.

(* ---------- fault schedules ---------- *)
Record schedule := mksched {
  cancel_at : option nat;        (* Some k: the Polls number k, k+1, ... see a cancelled context *)
  engine_ans : nat -> verdict;   (* answer to the j-th engine call *)
  choice : nat -> nat }.         (* oracle: i-th open decision *)

Definition quiet (s : schedule) : schedule := mksched None (fun _ => Valid) (choice s).

(* ---------- machine state ---------- *)
Record st := mkst {
  np : nat;      (* Polls so far *)
  ne : nat;      (* engine calls so far *)
  nc : nat;      (* oracle decisions so far *)
  obs : bool;    (* a fault has been observed *)
  reg : res;     (* value held by the most recently assigned (valid, err) variables of this frame *)
  tev : nat;     (* which error variable that is *)
  tbv : nat }.   (* which bool variable that is (0: none) *)

Definition st0 : st := mkst 0 0 0 false ROk 0 0.

Definition set_reg (x : st) (r : res) (ev bv : nat) : st := mkst (np x) (ne x) (nc x) (obs x) r ev bv.
Definition enter (x : st) : st := set_reg x ROk 0 0.
Definition bump_nc (x : st) : st := mkst (np x) (ne x) (S (nc x)) (obs x) (reg x) (tev x) (tbv x).

Definition is_err (r : res) : bool := match r with RErr => true | _ => false end.
Definition is_false (r : res) : bool := match r with RFalse => true | _ => false end.

Inductive ctl := CNormal | CBrk | CCont | CRet (r : res) | CPanic | CFuel.
Inductive fres := FRet (r : res) | FPanic | FFuel.

Fixpoint loop_iter (k : nat) (body : st -> ctl * st) (x : st) : ctl * st :=
  match k with
  | 0 => (CNormal, x)
  | S k' =>
    match body x with
    | (CNormal, x1) => loop_iter k' body x1
    | (CCont, x1) => loop_iter k' body x1
    | (CBrk, x1) => (CNormal, x1)
    | (c, x1) => (c, x1)
    end
  end.

Section Exec.
  Variable sch : schedule.
  Variable callf : string -> st -> fres * st.   (* run a function of the table from a fresh frame *)

  Definition cancelled (x : st) : bool :=
    match cancel_at sch with Some k => k <=? np x | None => false end.

  Definition do_poll (x : st) (ev : nat) : st :=
    let c := cancelled x in
    mkst (S (np x)) (ne x) (nc x) (obs x || c) (if c then RErr else ROk) ev 0.

  Definition do_engine (x : st) (ev bv : nat) : st :=
    match engine_ans sch (ne x) with
    | Valid => mkst (np x) (S (ne x)) (nc x) (obs x) ROk ev bv
    | Invalid => mkst (np x) (S (ne x)) (nc x) true RFalse ev bv
    | EngError => mkst (np x) (S (ne x)) (nc x) true RErr ev bv
    end.

  (* a library leaf: fails or not as the oracle says; sees neither the context nor the engine *)
  Definition do_lib (x : st) (ev : nat) : st :=
    mkst (np x) (ne x) (S (nc x)) (obs x) (if choice sch (nc x) =? 0 then ROk else RErr) ev 0.

  Definition do_thread (x : st) (tin ev : nat) : st :=
    if (tev x =? tin) && is_err (reg x) then set_reg x RErr ev 0 else do_lib x ev.

  Definition ret_value (x : st) (r : retk) : res :=
    match r with
    | RetNil => ROk
    | RetFresh => RErr
    | RetReg v => if (tev x =? v) && is_err (reg x) then RErr else ROk
    | RetFalse => RFalse
    | RetBoth bv ev =>
      if (tev x =? ev) && is_err (reg x) then RErr
      else if (tbv x =? bv) && is_false (reg x) then RFalse else ROk
    end.

  Fixpoint exec (s : stmt) (x : st) {struct s} : ctl * st :=
    match s with
    | Skip => (CNormal, x)
    | Poll _ ev => (CNormal, do_poll x ev)
    | Call _ f ev bv =>
      match callf f (enter x) with
      | (FRet r, x1) => (CNormal, set_reg x1 r ev bv)
      | (FPanic, x1) => (CPanic, x1)
      | (FFuel, x1) => (CFuel, x1)
      end
    | CallLib _ _ ev => (CNormal, do_lib x ev)
    | CallThread _ _ tin ev => (CNormal, do_thread x tin ev)
    | Engine _ _ ev bv => (CNormal, do_engine x ev bv)
    | SetErr _ ev => (CNormal, set_reg x RErr ev 0)
    | IfErr _ v h =>
      if (tev x =? v) && is_err (reg x) then
        match h with
        | Propagate => (CRet RErr, x)
        | Wrap => (CRet RErr, x)
        | Drop => (CNormal, set_reg x ROk (tev x) (tbv x))
        | ReturnNil => (CRet ROk, x)
        | PanicH => (CPanic, x)
        end
      else (CNormal, x)
    | CheckVerdict _ v h =>
      if (tbv x =? v) && is_false (reg x) then
        match h with
        | VToErr => (CRet RErr, x)
        | VPass => (CRet RFalse, x)
        | VIgnore => (CNormal, set_reg x ROk (tev x) (tbv x))
        | VReturnNil => (CRet ROk, x)
        | VPanic => (CPanic, x)
        end
      else (CNormal, x)
    | Ret _ r => (CRet (ret_value x r), x)
    | Seq a b =>
      match exec a x with
      | (CNormal, x1) => exec b x1
      | r => r
      end
    | Branch a b =>
      if choice sch (nc x) =? 0 then exec a (bump_nc x) else exec b (bump_nc x)
    | Loop b => loop_iter (choice sch (nc x)) (exec b) (bump_nc x)
    | Brk => (CBrk, x)
    | Cont => (CCont, x)
    | Unknown _ => (CNormal, x)
    end.
End Exec.

(* calling function f with `fuel` levels of call depth available *)
Fixpoint callfn (p : program) (sch : schedule) (fuel : nat) (f : string) (x : st) : fres * st :=
  match fuel with
  | 0 => (FFuel, x)
  | S n =>
    match lookup p f with
    | None => (* not in the table: behaves as a library leaf *)
      let x1 := do_lib sch x 0 in (FRet (reg x1), x1)
    | Some fd =>
      match exec sch (callfn p sch n) (fbody fd) x with
      | (CRet r, x1) => (FRet r, x1)
      | (CPanic, x1) => (FPanic, x1)
      | (CFuel, x1) => (FFuel, x1)
      | (_, x1) => (FRet ROk, x1)       (* fell off the end of a body *)
      end
    end
  end.

(* a whole run of function f of program p *)
Definition run (fuel : nat) (p : program) (f : string) (s : schedule) : fres * st :=
  callfn p s fuel f st0.
Definition outcome (fuel : nat) (p : program) (f : string) (s : schedule) : fres := fst (run fuel p f s).
Definition fault_observed (fuel : nat) (p : program) (f : string) (s : schedule) : Prop :=
  obs (snd (run fuel p f s)) = true.
Definition no_fault (fuel : nat) (p : program) (f : string) (s : schedule) : Prop :=
  obs (snd (run fuel p f s)) = false.

Definition is_plain (p : program) (f : string) : Prop :=
  exists fd, lookup p f = Some fd /\ fkind_of fd = Plain.
Definition is_verdict_fn (p : program) (f : string) : Prop :=
  exists fd, lookup p f = Some fd /\ fkind_of fd = VerdictFn.
