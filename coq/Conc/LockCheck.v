(* C17 — the boolean lock-discipline checker `lock_ok : program -> bool` (run by vm_compute on the program that
   tools/locks2coq regenerates from /repo on every check run).

   disc_ok    (discipline; => race freedom and deadlock freedom, LockSound.v)
     - every Read of a guarded field happens while the thread holds the object's mutex (R or W), every Write while it
       holds it in mode W; fields listed immutable-after-construction are never written; any other field name fails;
     - an internal helper is checked under its contract `m_requires` (None: the caller holds nothing and the helper may
       lock by itself; Some md: the caller holds at least md, the helper contains no lock operation) and the contract
       is checked at every call site;
     - no CallExported on the same object while holding its mutex, no Acquire while holding it (self-deadlock);
     - calls to another object go to the parent while holding anything, or to a child while the whole thread holds
       nothing (methods that call a child can only be reached from top level / child calls at lock-free points):
       the acquisition order across objects is child -> parent only, hence acyclic;
     - every path releases what it acquired (deferred releases run at the end of the path), a Release matches the
       mode acquired by the same frame;
     - no Leak, no Unknown; every called method exists with the right exported flag and has at least one path.
   atomic_ok  (=> two-phase locking => conflict serializability, LockAtomic.v): every method, except the exported methods in
     the list `excl`, is "two-phase": see the definition at the end of this file. *)
From Coq Require Import List String Bool Arith Lia.
From V Require Import Conc.LockLang.
Import ListNotations.
Local Open Scope string_scope.
Local Open Scope list_scope.

Definition mem (s : string) (l : list string) : bool := existsb (String.eqb s) l.

Lemma mem_In s l : mem s l = true <-> In s l.
Proof.
  unfold mem. rewrite existsb_exists. split.
  - intros [x [Hin He]]. apply String.eqb_eq in He. subst. exact Hin.
  - intro H. exists s. split; [exact H | apply String.eqb_refl].
Qed.

Definition eff (mt : method) (a : option mode) : option mode :=
  match a with Some md => Some md | None => m_requires mt end.

Definition is_none {A} (x : option A) : bool := match x with None => true | Some _ => false end.

Definition holds_at_least (md : mode) (h : option mode) : bool :=
  match h with Some md' => mode_le md md' | None => false end.

Fixpoint has_child_call (p : path) : bool :=
  match p with
  | [] => false
  | CallExported Child _ :: _ => true
  | _ :: p' => has_child_call p'
  end.

(* the method calls a child object on some path: it may only run when the whole thread holds no mutex *)
Definition uses_child (mt : method) : bool := existsb has_child_call (m_paths mt).

(* a call from `cur` (frame state a) to the same-object method `mt` *)
Definition clean_ok (cur mt : method) (a : option mode) : bool :=
  if uses_child mt then uses_child cur && is_none (eff cur a) else true.

Definition contract_ok (cur mt : method) (a : option mode) : bool :=
  match m_requires mt with
  | None => is_none (eff cur a)
  | Some md => holds_at_least md (eff cur a)
  end.

Definition has_paths (mt : method) : bool := match m_paths mt with [] => false | _ => true end.

Section Check.
Variable k : class.     (* the class of the object the method runs on *)
Variable cur : method.  (* the method being checked *)

Definition check_ev (a : option mode) (e : ev) : option (option mode) :=
  match e with
  | Acquire md =>
      if is_none (m_requires cur) && is_none a then Some (Some md) else None
  | Release md =>
      match a with Some md' => if mode_eqb md md' then Some None else None | None => None end
  | Read f =>
      if (if mem f (c_guarded k) then negb (is_none (eff cur a)) else mem f (c_immutable k)) then Some a else None
  | Write f =>
      if mem f (c_guarded k) && holds_at_least W (eff cur a) then Some a else None
  | CallInternal m' =>
      match find_method (c_methods k) m' with
      | Some mt => if negb (m_exported mt) && has_paths mt && contract_ok cur mt a && clean_ok cur mt a
                   then Some a else None
      | None => None
      end
  | CallExported Self m' =>
      match find_method (c_methods k) m' with
      | Some mt => if m_exported mt && has_paths mt && is_none (eff cur a) && clean_ok cur mt a then Some a else None
      | None => None
      end
  | CallExported Parent m' =>
      match find_method (c_methods k) m' with
      | Some mt => if m_exported mt && has_paths mt && negb (uses_child mt) then Some a else None
      | None => None
      end
  | CallExported Child m' =>
      match find_method (c_methods k) m' with
      | Some mt => if m_exported mt && has_paths mt && is_none (eff cur a) && uses_child cur then Some a else None
      | None => None
      end
  | Leak _ | Unknown _ | Defer _ | Return => None
  end.

(* p is a normalised path (norm): no Defer, no Return *)
Fixpoint check_path (a : option mode) (p : path) : bool :=
  match p with
  | [] => is_none a
  | e :: p' => match check_ev a e with Some a' => check_path a' p' | None => false end
  end.

End Check.

Definition method_ok (k : class) (mt : method) : bool :=
  has_paths mt &&
  (if m_exported mt then is_none (m_requires mt) else true) &&
  forallb (fun p => check_path k mt None (norm p)) (m_paths mt).

Definition disjoint (a b : list string) : bool := forallb (fun x => negb (mem x b)) a.

Definition class_ok (k : class) : bool :=
  disjoint (c_guarded k) (c_immutable k) && forallb (method_ok k) (c_methods k).

Definition disc_ok (p : program) : bool := forallb class_ok p.


(* ---------------- reporting (not used by any theorem): why does a method fail? ---------------- *)
Section Explain.
Variable k : class.
Variable cur : method.

Definition explain_ev (a : option mode) (e : ev) : string :=
  match e with
  | Acquire _ =>
      if negb (is_none (m_requires cur)) then "lock operation inside a helper that runs under the caller's lock"
      else "Acquire while this method already holds the mutex (self-deadlock)"
  | Release _ => "Release without a matching Acquire by the same method (or wrong mode: Unlock after RLock)"
  | Read f =>
      if mem f (c_guarded k) then "Read of guarded field " ++ f ++ " without holding the mutex"
      else "Read of " ++ f ++ ", which is neither guarded nor listed immutable"
  | Write f =>
      if mem f (c_guarded k) then
        (if is_none (eff cur a) then "Write of guarded field " ++ f ++ " without holding the mutex"
         else "Write of guarded field " ++ f ++ " while holding the mutex in read mode only")
      else if mem f (c_immutable k) then "Write of field " ++ f ++ " that is listed immutable-after-construction"
      else "Write of unknown field " ++ f
  | CallInternal m' =>
      match find_method (c_methods k) m' with
      | Some mt =>
          if m_exported mt then "CallInternal of an exported method " ++ m'
          else if negb (has_paths mt) then "called method " ++ m' ++ " has no path"
          else if negb (contract_ok cur mt a) then
            (match m_requires mt with
             | None => "helper " ++ m' ++ " locks by itself but is called while the mutex is held (self-deadlock)"
             | Some _ => "helper " ++ m' ++ " needs the caller to hold the mutex (in a stronger mode) at this call site"
             end)
          else "helper " ++ m' ++ " calls a child object and may only run when the thread holds no mutex"
      | None => "no such method " ++ m'
      end
  | CallExported Self m' =>
      match find_method (c_methods k) m' with
      | Some mt =>
          if negb (m_exported mt) then "CallExported of a non-exported method " ++ m'
          else if negb (is_none (eff cur a)) then
            "exported method " ++ m' ++ " is called on the same object while its mutex is held: it locks again and blocks forever"
          else if negb (has_paths mt) then "called method " ++ m' ++ " has no path"
          else "method " ++ m' ++ " calls a child object and may only run when the thread holds no mutex"
      | None => "no such method " ++ m'
      end
  | CallExported Parent m' =>
      match find_method (c_methods k) m' with
      | Some mt => if uses_child mt then "parent call of " ++ m' ++ ", which calls a child object (lock order cycle)"
                   else "parent call of " ++ m' ++ " (not exported / no path)"
      | None => "no such method " ++ m'
      end
  | CallExported Child m' =>
      if negb (is_none (eff cur a)) then "call on a child object while holding the mutex (lock order parent -> child)"
      else "call on a child object: " ++ m' ++ " not found / not exported"
  | Leak f => "a reference to guarded memory of field " ++ f ++ " escapes the critical section"
  | Unknown pos => "unclassified construct at " ++ pos
  | Defer _ => "Defer left after normalisation"
  | Return => "Return left after normalisation"
  end.

Fixpoint explain_path (a : option mode) (p : path) : option string :=
  match p with
  | [] => if is_none a then None else Some "a path ends while the mutex is still held (missing Unlock)"
  | e :: p' => match check_ev k cur a e with
               | Some a' => explain_path a' p'
               | None => Some (explain_ev a e)
               end
  end.

Definition explain_method : list string :=
  (if has_paths cur then [] else ["method has no path"]) ++
  (if m_exported cur && negb (is_none (m_requires cur)) then ["exported method with a caller-holds contract"] else []) ++
  flat_map (fun p => match explain_path None (norm p) with Some s => [s] | None => [] end) (m_paths cur).
End Explain.

Fixpoint dedup (l : list string) : list string :=
  match l with
  | [] => []
  | x :: l' => if mem x l' then dedup l' else x :: dedup l'
  end.

(* (class, method, reasons) for every method that disc_ok rejects *)
Definition disc_report (p : program) : list (string * string * list string) :=
  flat_map (fun k =>
    (if disjoint (c_guarded k) (c_immutable k) then [] else [(c_name k, "(class)", ["a field is listed both guarded and immutable"])]) ++
    flat_map (fun mt => if method_ok k mt then [] else [(c_name k, m_name mt, dedup (explain_method k mt))]) (c_methods k)) p.

Lemma disc_report_nil p : disc_report p = [] -> disc_ok p = true.
Proof.
  unfold disc_report, disc_ok. induction p as [|k p IH]; simpl; [reflexivity|].
  intro H. apply app_eq_nil in H. destruct H as [H1 H2]. apply app_eq_nil in H1. destruct H1 as [Hd Hm].
  rewrite (IH H2), andb_true_r. unfold class_ok.
  destruct (disjoint (c_guarded k) (c_immutable k)); [|discriminate]. simpl.
  clear - Hm. induction (c_methods k) as [|mt ms IHm]; simpl in *; [reflexivity|].
  apply app_eq_nil in Hm. destruct Hm as [Hx Hy].
  destruct (method_ok k mt); [|discriminate]. simpl. auto.
Qed.

(* ---------------- two-phase shape (=> every call is atomic: serializability clause) ----------------
   A thread is in phase Grow until its first Release inside a top-level call, then in phase Shrink.  Two-phase
   locking: no Acquire in phase Shrink.  A call of a method that is not lock-free (it, or something it calls,
   acquires and releases) is treated as Acquire-then-Release: allowed in phase Grow only, and the caller continues in
   phase Shrink.  With disc_ok (every access is covered by the mutex) two-phase calls are conflict-serializable. *)
Inductive phase := Grow | Shrink.

Fixpoint lock_free (fuel : nat) (k : class) (m : string) : bool :=
  match fuel with
  | 0 => false
  | S fuel' =>
      match find_method (c_methods k) m with
      | None => false
      | Some mt =>
          forallb (fun p => forallb (fun e =>
            match e with
            | Read _ | Write _ => true
            | CallInternal m' | CallExported _ m' => lock_free fuel' k m'
            | _ => false
            end) (norm p)) (m_paths mt)
      end
  end.

Definition lf_fuel (k : class) : nat := S (List.length (c_methods k)).

Definition tp_ev (k : class) (ph : phase) (e : ev) : option phase :=
  match e with
  | Acquire _ => match ph with Grow => Some Grow | Shrink => None end
  | Release _ => Some Shrink
  | Read _ | Write _ => Some ph
  | CallInternal m' | CallExported _ m' =>
      if lock_free (lf_fuel k) k m' then Some ph
      else match ph with Grow => Some Shrink | Shrink => None end
  | _ => None
  end.

Fixpoint tp_path (k : class) (ph : phase) (p : path) : bool :=
  match p with
  | [] => true
  | e :: p' => match tp_ev k ph e with Some ph' => tp_path k ph' p' | None => false end
  end.

Fixpoint calls_of (p : path) : list string :=
  match p with
  | [] => []
  | CallInternal m :: p' | CallExported _ m :: p' => m :: calls_of p'
  | _ :: p' => calls_of p'
  end.

(* excl: exported methods (class, name) for which atomicity is NOT claimed (known findings); they may not be called
   by any method for which it is claimed *)
Definition excluded (excl : list (string * string)) (c m : string) : bool :=
  existsb (fun cm => String.eqb (fst cm) c && String.eqb (snd cm) m) excl.

Definition tp_method (excl : list (string * string)) (k : class) (mt : method) : bool :=
  excluded excl (c_name k) (m_name mt) ||
  forallb (fun p => tp_path k Grow (norm p) &&
                    forallb (fun m' => negb (excluded excl (c_name k) m')) (calls_of (norm p))) (m_paths mt).

Definition atomic_ok (excl : list (string * string)) (p : program) : bool :=
  forallb (fun k => forallb (tp_method excl k) (c_methods k)) p.

Definition atomic_report (excl : list (string * string)) (p : program) : list (string * string) :=
  flat_map (fun k => flat_map (fun mt => if tp_method excl k mt then [] else [(c_name k, m_name mt)]) (c_methods k)) p.

(* THE checker *)
Definition lock_ok_excl (excl : list (string * string)) (p : program) : bool := disc_ok p && atomic_ok excl p.
Definition lock_ok (p : program) : bool := lock_ok_excl [] p.
