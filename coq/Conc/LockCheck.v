(* C17 — the boolean lock-discipline checker `lock_ok : program -> bool` (run by vm_compute on the program that
   tools/locks2coq regenerates from /repo on every check run).

   disc_ok    (discipline; => race freedom and deadlock freedom, LockSound.v)
     - every Read of a guarded field happens while the thread holds the object's mutex (R or W), every Write while it
       holds it in mode W; fields listed immutable-after-construction are never written; any other field name fails;
     - an internal helper is checked under its contract `m_requires` (None: the caller holds nothing and the helper may
       lock by itself; Some md: the caller holds at least md, the helper contains no lock operation) and the contract
       is checked at every call site;
     - no CallExported on the same object while holding its mutex, no Acquire while holding it (self-deadlock);
     - calls to another object go to the parent while holding anything, or to a child while the whole thread holds
       nothing (methods that call a child can only be reached from top level / child calls at lock-free points):
       the acquisition order across objects is child -> parent only, hence acyclic;
     - every path releases what it acquired (deferred releases run at the end of the path), a Release matches the
       mode acquired by the same frame;
     - no Leak, no Unknown; every called method exists with the right exported flag and has at least one path.
   atomic_ok  (=> serializability clause): every exported method, except those in the list `excl`, is "two-phase":
     see the definition below. *)
From Coq Require Import List String Bool Arith Lia.
From V Require Import Conc.LockLang.
Import ListNotations.
Local Open Scope string_scope.
Local Open Scope list_scope.

Definition mem (s : string) (l : list string) : bool := existsb (String.eqb s) l.

Lemma mem_In s l : mem s l = true <-> In s l.
Proof.
  unfold mem. rewrite existsb_exists. split.
  - intros [x [Hin He]]. apply String.eqb_eq in He. subst. exact Hin.
  - intro H. exists s. split; [exact H | apply String.eqb_refl].
Qed.

Definition eff (mt : method) (a : option mode) : option mode :=
  match a with Some md => Some md | None => m_requires mt end.

Definition is_none {A} (x : option A) : bool := match x with None => true | Some _ => false end.

Definition holds_at_least (md : mode) (h : option mode) : bool :=
  match h with Some md' => mode_le md md' | None => false end.

Fixpoint has_child_call (p : path) : bool :=
  match p with
  | [] => false
  | CallExported Child _ :: _ => true
  | _ :: p' => has_child_call p'
  end.

(* the method calls a child object on some path: it may only run when the whole thread holds no mutex *)
Definition uses_child (mt : method) : bool := existsb has_child_call (m_paths mt).

(* a call from `cur` (frame state a) to the same-object method `mt` *)
Definition clean_ok (cur mt : method) (a : option mode) : bool :=
  if uses_child mt then uses_child cur && is_none (eff cur a) else true.

Definition contract_ok (cur mt : method) (a : option mode) : bool :=
  match m_requires mt with
  | None => is_none (eff cur a)
  | Some md => holds_at_least md (eff cur a)
  end.

Definition has_paths (mt : method) : bool := match m_paths mt with [] => false | _ => true end.

Section Check.
Variable k : class.     (* the class of the object the method runs on *)
Variable cur : method.  (* the method being checked *)

Definition check_ev (a : option mode) (e : ev) : option (option mode) :=
  match e with
  | Acquire md =>
      if is_none (m_requires cur) && is_none a then Some (Some md) else None
  | Release md =>
      match a with Some md' => if mode_eqb md md' then Some None else None | None => None end
  | Read f =>
      if (if mem f (c_guarded k) then negb (is_none (eff cur a)) else mem f (c_immutable k)) then Some a else None
  | Write f =>
      if mem f (c_guarded k) && holds_at_least W (eff cur a) then Some a else None
  | CallInternal m' =>
      match find_method (c_methods k) m' with
      | Some mt => if negb (m_exported mt) && has_paths mt && contract_ok cur mt a && clean_ok cur mt a
                   then Some a else None
      | None => None
      end
  | CallExported Self m' =>
      match find_method (c_methods k) m' with
      | Some mt => if m_exported mt && has_paths mt && is_none (eff cur a) && clean_ok cur mt a then Some a else None
      | None => None
      end
  | CallExported Parent m' =>
      match find_method (c_methods k) m' with
      | Some mt => if m_exported mt && has_paths mt && negb (uses_child mt) then Some a else None
      | None => None
      end
  | CallExported Child m' =>
      match find_method (c_methods k) m' with
      | Some mt => if m_exported mt && has_paths mt && is_none (eff cur a) && uses_child cur then Some a else None
      | None => None
      end
  | Leak _ | Unknown _ | Defer _ | Return => None
  end.

(* p is a normalised path (norm): no Defer, no Return *)
Fixpoint check_path (a : option mode) (p : path) : bool :=
  match p with
  | [] => is_none a
  | e :: p' => match check_ev a e with Some a' => check_path a' p' | None => false end
  end.

End Check.

Definition method_ok (k : class) (mt : method) : bool :=
  has_paths mt &&
  (if m_exported mt then is_none (m_requires mt) else true) &&
  forallb (fun p => check_path k mt None (norm p)) (m_paths mt).

Definition disjoint (a b : list string) : bool := forallb (fun x => negb (mem x b)) a.

Definition class_ok (k : class) : bool :=
  disjoint (c_guarded k) (c_immutable k) && forallb (method_ok k) (c_methods k).

Definition disc_ok (p : program) : bool := forallb class_ok p.

