(* C17 — the per-thread invariant that `disc_ok` establishes, and its preservation by every step.
   (Used by LockSound.v.) *)
From Coq Require Import List String Bool Arith Lia.
From V Require Import Conc.LockLang Conc.LockCheck.
Import ListNotations.
Local Open Scope string_scope.
Local Open Scope list_scope.

Lemma find_class_some p c k : find_class p c = Some k -> In k p /\ c_name k = c.
Proof.
  induction p as [|x p IH]; simpl; [discriminate|].
  destruct (String.eqb (c_name x) c) eqn:E.
  - intros H; inversion H; subst. apply String.eqb_eq in E. auto.
  - intros H. destruct (IH H). auto.
Qed.

Lemma find_method_some ms m mt : find_method ms m = Some mt -> In mt ms /\ m_name mt = m.
Proof.
  induction ms as [|x ms IH]; simpl; [discriminate|].
  destruct (String.eqb (m_name x) m) eqn:E.
  - intros H; inversion H; subst. apply String.eqb_eq in E. auto.
  - intros H. destruct (IH H). auto.
Qed.

Lemma is_none_true {A} (x : option A) : is_none x = true -> x = None.
Proof. destruct x; simpl; congruence. Qed.

Section Inv.
Variable prog : program.
Variable w : world.
Hypothesis Hok : disc_ok prog = true.
Hypothesis Hw : wf_world w.

Definition frame_mt (fr : frame) : option (class * method) :=
  match find_class prog (w_class w (f_obj fr)) with
  | Some k => match find_method (c_methods k) (f_meth fr) with Some mt => Some (k, mt) | None => None end
  | None => None
  end.

Definition frame_ok (fr : frame) : Prop :=
  exists k mt, frame_mt fr = Some (k, mt) /\ check_path k mt (f_acq fr) (f_rest fr) = true.

Definition freq (fr : frame) : option mode :=
  match frame_mt fr with Some (_, mt) => m_requires mt | None => None end.
Definition feff (fr : frame) : option mode :=
  match f_acq fr with Some md => Some md | None => freq fr end.
Definition fuc (fr : frame) : bool :=
  match frame_mt fr with Some (_, mt) => uses_child mt | None => false end.

Definition all_unlocked (st : list frame) : Prop := forall fr, In fr st -> f_acq fr = None.

Definition hop (callee caller : frame) (below : list frame) : Prop :=
  (fuc callee = true -> all_unlocked (caller :: below)) /\
  ((f_obj callee = f_obj caller /\
    match freq callee with
    | None => feff caller = None
    | Some md => holds_at_least md (feff caller) = true
    end)
   \/ (w_parent w (f_obj caller) = Some (f_obj callee) /\ freq callee = None)
   \/ (w_parent w (f_obj callee) = Some (f_obj caller) /\ freq callee = None /\ all_unlocked (caller :: below))).

Fixpoint stack_ok (st : list frame) : Prop :=
  match st with
  | [] => True
  | fr :: st' => frame_ok fr /\ stack_ok st' /\
                 match st' with
                 | [] => freq fr = None
                 | caller :: below => hop fr caller below
                 end
  end.

Definition thread_inv (th : thread) : Prop := stack_ok (t_stack th) /\ todo_ok prog w th.

(* ---- facts about what the checker accepted ---- *)
Lemma class_checked c k : find_class prog c = Some k -> class_ok k = true.
Proof.
  intro H. apply find_class_some in H. destruct H as [H _].
  unfold disc_ok in Hok. rewrite forallb_forall in Hok. auto.
Qed.

Lemma method_checked c k m mt :
  find_class prog c = Some k -> find_method (c_methods k) m = Some mt -> method_ok k mt = true.
Proof.
  intros Hc Hm. apply class_checked in Hc. unfold class_ok in Hc.
  apply andb_true_iff in Hc. destruct Hc as [_ Hc]. rewrite forallb_forall in Hc.
  apply find_method_some in Hm. destruct Hm. auto.
Qed.

Lemma new_frame_ok o m ex p :
  callable prog w o m ex p -> frame_ok (new_frame o m p) /\
  exists k mt, frame_mt (new_frame o m p) = Some (k, mt) /\ m_exported mt = ex.
Proof.
  intros [mt [Hl [Hex Hin]]]. unfold lookup in Hl.
  destruct (find_class prog (w_class w o)) as [k|] eqn:Hk; [|discriminate].
  assert (Hfm : frame_mt (new_frame o m p) = Some (k, mt)).
  { unfold frame_mt, new_frame; simpl. rewrite Hk, Hl. reflexivity. }
  split.
  - exists k, mt. split; [exact Hfm|].
    pose proof (method_checked _ _ _ _ Hk Hl) as Hm. unfold method_ok in Hm.
    apply andb_true_iff in Hm. destruct Hm as [_ Hm]. rewrite forallb_forall in Hm.
    simpl. apply Hm. exact Hin.
  - exists k, mt. auto.
Qed.

Lemma exported_req_none c k m mt :
  find_class prog c = Some k -> find_method (c_methods k) m = Some mt -> m_exported mt = true -> m_requires mt = None.
Proof.
  intros Hc Hm He. pose proof (method_checked _ _ _ _ Hc Hm) as H. unfold method_ok in H.
  apply andb_true_iff in H. destruct H as [H _]. apply andb_true_iff in H. destruct H as [_ H].
  rewrite He in H. apply is_none_true. exact H.
Qed.

Lemma parent_class o p : w_parent w o = Some p -> w_class w p = w_class w o.
Proof. intro H. destruct Hw as [H1 _]. destruct (H1 _ _ H). auto. Qed.

Lemma child_parent o c : In c (w_children w o) -> w_parent w c = Some o.
Proof. intro H. destruct Hw as [_ H2]. apply H2. exact H. Qed.

(* frame_mt, freq, fuc depend on the object and the method name only *)
Lemma frame_mt_ext fr fr' : f_obj fr' = f_obj fr -> f_meth fr' = f_meth fr -> frame_mt fr' = frame_mt fr.
Proof. intros H1 H2. unfold frame_mt. rewrite H1, H2. reflexivity. Qed.

Lemma hop_callee_ext fr fr' c b :
  f_obj fr' = f_obj fr -> f_meth fr' = f_meth fr -> hop fr c b -> hop fr' c b.
Proof.
  intros H1 H2 H. pose proof (frame_mt_ext _ _ H1 H2) as E.
  unfold hop, fuc, freq in *. rewrite E, H1. exact H.
Qed.

Lemma stack_ok_replace_top fr fr' st :
  f_obj fr' = f_obj fr -> f_meth fr' = f_meth fr -> frame_ok fr' -> stack_ok (fr :: st) -> stack_ok (fr' :: st).
Proof.
  intros H1 H2 Hf [_ [Hs Hh]]. simpl. split; [exact Hf|]. split; [exact Hs|].
  destruct st as [|c b].
  - unfold freq in *. rewrite (frame_mt_ext _ _ H1 H2). exact Hh.
  - eapply hop_callee_ext; eauto.
Qed.

Lemma stack_ok_uc fr st : stack_ok (fr :: st) -> fuc fr = true -> all_unlocked st.
Proof.
  intros [_ [_ H]] Hu. destruct st as [|c b].
  - intros x [].
  - destruct H as [H _]. auto.
Qed.

Lemma frame_ok_inv fr : frame_ok fr ->
  exists k mt, find_class prog (w_class w (f_obj fr)) = Some k /\ find_method (c_methods k) (f_meth fr) = Some mt /\
               frame_mt fr = Some (k, mt) /\ check_path k mt (f_acq fr) (f_rest fr) = true.
Proof.
  intros [k [mt [H1 H2]]]. exists k, mt. unfold frame_mt in H1.
  destruct (find_class prog (w_class w (f_obj fr))) as [k'|] eqn:Ek; [|discriminate].
  destruct (find_method (c_methods k') (f_meth fr)) as [mt'|] eqn:Em; [|discriminate].
  inversion H1; subst. repeat split; auto. unfold frame_mt. rewrite Ek, Em. reflexivity.
Qed.

(* the top frame consumed one event whose check succeeded *)
Lemma frame_ok_step o m a e rest a' :
  frame_ok (Frame o m a (e :: rest)) ->
  (forall k mt, frame_mt (Frame o m a (e :: rest)) = Some (k, mt) -> check_ev k mt a e = Some a' ) ->
  frame_ok (Frame o m a' rest).
Proof.
  intros Hf Hc. destruct Hf as [k [mt [H1 H2]]]. exists k, mt. split.
  - rewrite <- H1. apply frame_mt_ext; reflexivity.
  - simpl in *. rewrite (Hc k mt H1) in H2. exact H2.
Qed.

Lemma frame_ok_cons o m a e rest :
  frame_ok (Frame o m a (e :: rest)) ->
  exists k mt a', find_class prog (w_class w o) = Some k /\ find_method (c_methods k) m = Some mt /\
                  check_ev k mt a e = Some a' /\ frame_ok (Frame o m a' rest).
Proof.
  intro Hf. destruct (frame_ok_inv _ Hf) as [k [mt [Hk [Hm [Hfm Hc]]]]]. simpl in *.
  destruct (check_ev k mt a e) as [a'|] eqn:Ee; [|discriminate].
  exists k, mt, a'. repeat split; auto. exists k, mt. split; [|exact Hc].
  rewrite <- Hfm. apply frame_mt_ext; reflexivity.
Qed.

Lemma frame_mt_of o m a rest k mt :
  find_class prog (w_class w o) = Some k -> find_method (c_methods k) m = Some mt ->
  frame_mt (Frame o m a rest) = Some (k, mt).
Proof. intros H1 H2. unfold frame_mt. simpl. rewrite H1, H2. reflexivity. Qed.

(* ---- preservation of the per-thread invariant ---- *)
Lemma tstep_preserves others th l th' :
  tstep prog w others th l th' -> thread_inv th -> thread_inv th'.
Proof.
  intros Hs [Hst Htd]. unfold thread_inv.
  inversion Hs; subst; simpl in *.
  - (* start *)
    unfold todo_ok in *. simpl in *. inversion Htd as [|x l' Hx Hl']; subst. split; [|exact Hl'].
    destruct (new_frame_ok _ _ _ _ H) as [Hf [k [mt [Hfm Hex]]]].
    split; [exact Hf|]. split; [exact I|].
    unfold freq. rewrite Hfm. unfold frame_mt in Hfm. simpl in Hfm.
    destruct (find_class prog (w_class w o)) as [k'|] eqn:Ek; [|discriminate].
    destruct (find_method (c_methods k') m) as [mt'|] eqn:Em; [|discriminate].
    inversion Hfm; subst. eapply exported_req_none; eauto.
  - (* pop *)
    split; [|exact Htd]. destruct Hst as [_ [Hst _]]. exact Hst.
  - (* acquire *)
    split; [|exact Htd]. pose proof Hst as [Hf _].
    destruct (frame_ok_cons _ _ _ _ _ Hf) as (k & mt & a' & Hk & Hm & Hev & Hf').
    simpl in Hev. destruct (is_none (m_requires mt) && true); inversion Hev; subst.
    eapply stack_ok_replace_top; [| |exact Hf'|exact Hst]; reflexivity.
  - (* release *)
    split; [|exact Htd]. pose proof Hst as [Hf _].
    destruct (frame_ok_cons _ _ _ _ _ Hf) as (k & mt & a' & Hk & Hm & Hev & Hf').
    simpl in Hev. destruct (mode_eqb md md); inversion Hev; subst.
    eapply stack_ok_replace_top; [| |exact Hf'|exact Hst]; reflexivity.
  - (* read *)
    split; [|exact Htd]. pose proof Hst as [Hf _].
    destruct (frame_ok_cons _ _ _ _ _ Hf) as (k & mt & a' & Hk & Hm & Hev & Hf').
    simpl in Hev.
    destruct (if mem f (c_guarded k) then negb (is_none (eff mt a)) else mem f (c_immutable k)); inversion Hev; subst.
    eapply stack_ok_replace_top; [| |exact Hf'|exact Hst]; reflexivity.
  - (* write *)
    split; [|exact Htd]. pose proof Hst as [Hf _].
    destruct (frame_ok_cons _ _ _ _ _ Hf) as (k & mt & a' & Hk & Hm & Hev & Hf').
    simpl in Hev.
    destruct (mem f (c_guarded k) && holds_at_least W (eff mt a)); inversion Hev; subst.
    eapply stack_ok_replace_top; [| |exact Hf'|exact Hst]; reflexivity.
  - (* call self *)
    split; [|exact Htd]. pose proof Hst as [Hf _].
    destruct (frame_ok_cons _ _ _ _ _ Hf) as (k & mt & a' & Hk & Hm & Hev & Hf').
    simpl in Hev.
    destruct (find_method (c_methods k) m') as [mt'|] eqn:Em'; [|discriminate].
    destruct (m_exported mt' && has_paths mt' && is_none (eff mt a) && clean_ok mt mt' a) eqn:Ec; inversion Hev; subst.
    repeat (apply andb_true_iff in Ec; destruct Ec as [Ec ?]).
    assert (Hcaller : stack_ok (Frame o m a' rest :: st)).
    { eapply stack_ok_replace_top; [| |exact Hf'|exact Hst]; reflexivity. }
    destruct (new_frame_ok _ _ _ _ H) as [Hnf _].
    simpl. split; [exact Hnf|]. split; [exact Hcaller|].
    assert (Hfmc : frame_mt (new_frame o m' p) = Some (k, mt')) by (apply frame_mt_of; auto).
    assert (Hfm : frame_mt (Frame o m a' rest) = Some (k, mt)) by (apply frame_mt_of; auto).
    assert (Heff : feff (Frame o m a' rest) = eff mt a').
    { unfold feff, freq. rewrite Hfm. simpl. destruct a'; reflexivity. }
    split.
    + unfold fuc. rewrite Hfmc. intro Hu. unfold clean_ok in H0. rewrite Hu in H0.
      apply andb_true_iff in H0. destruct H0 as [Hucur Hn].
      assert (Hfu : fuc (Frame o m a' rest) = true) by (unfold fuc; rewrite Hfm; exact Hucur).
      pose proof (stack_ok_uc _ _ Hcaller Hfu) as Hbelow.
      intros fr [Hfr|Hfr]; [|auto]. subst fr. simpl. apply is_none_true in Hn.
      destruct a'; simpl in Hn; [discriminate|reflexivity].
    + left. split; [reflexivity|]. unfold freq. rewrite Hfmc.
      rewrite (exported_req_none _ _ _ _ Hk Em' Ec). rewrite Heff. apply is_none_true. exact H1.
  - (* call internal *)
    split; [|exact Htd]. pose proof Hst as [Hf _].
    destruct (frame_ok_cons _ _ _ _ _ Hf) as (k & mt & a' & Hk & Hm & Hev & Hf').
    simpl in Hev.
    destruct (find_method (c_methods k) m') as [mt'|] eqn:Em'; [|discriminate].
    destruct (negb (m_exported mt') && has_paths mt' && contract_ok mt mt' a && clean_ok mt mt' a) eqn:Ec; inversion Hev; subst.
    repeat (apply andb_true_iff in Ec; destruct Ec as [Ec ?]).
    assert (Hcaller : stack_ok (Frame o m a' rest :: st)).
    { eapply stack_ok_replace_top; [| |exact Hf'|exact Hst]; reflexivity. }
    destruct (new_frame_ok _ _ _ _ H) as [Hnf _].
    simpl. split; [exact Hnf|]. split; [exact Hcaller|].
    assert (Hfmc : frame_mt (new_frame o m' p) = Some (k, mt')) by (apply frame_mt_of; auto).
    assert (Hfm : frame_mt (Frame o m a' rest) = Some (k, mt)) by (apply frame_mt_of; auto).
    assert (Heff : feff (Frame o m a' rest) = eff mt a').
    { unfold feff, freq. rewrite Hfm. simpl. destruct a'; reflexivity. }
    split.
    + unfold fuc. rewrite Hfmc. intro Hu. unfold clean_ok in H0. rewrite Hu in H0.
      apply andb_true_iff in H0. destruct H0 as [Hucur Hn].
      assert (Hfu : fuc (Frame o m a' rest) = true) by (unfold fuc; rewrite Hfm; exact Hucur).
      pose proof (stack_ok_uc _ _ Hcaller Hfu) as Hbelow.
      intros fr [Hfr|Hfr]; [|auto]. subst fr. simpl. apply is_none_true in Hn.
      destruct a'; simpl in Hn; [discriminate|reflexivity].
    + left. split; [reflexivity|]. unfold freq. rewrite Hfmc. rewrite Heff.
      unfold contract_ok in H1. destruct (m_requires mt'); [exact H1|apply is_none_true; exact H1].
  - (* call parent *)
    split; [|exact Htd]. pose proof Hst as [Hf _].
    destruct (frame_ok_cons _ _ _ _ _ Hf) as (k & mt & a' & Hk & Hm & Hev & Hf').
    simpl in Hev.
    destruct (find_method (c_methods k) m') as [mt'|] eqn:Em'; [|discriminate].
    destruct (m_exported mt' && has_paths mt' && negb (uses_child mt')) eqn:Ec; inversion Hev; subst.
    repeat (apply andb_true_iff in Ec; destruct Ec as [Ec ?]).
    assert (Hcaller : stack_ok (Frame o m a' rest :: st)).
    { eapply stack_ok_replace_top; [| |exact Hf'|exact Hst]; reflexivity. }
    destruct (new_frame_ok _ _ _ _ H0) as [Hnf _].
    simpl. split; [exact Hnf|]. split; [exact Hcaller|].
    assert (Hkp : find_class prog (w_class w po) = Some k) by (rewrite (parent_class _ _ H); exact Hk).
    assert (Hfmc : frame_mt (new_frame po m' p) = Some (k, mt')) by (apply frame_mt_of; auto).
    split.
    + unfold fuc. rewrite Hfmc. intro Hu. rewrite Hu in H1. discriminate.
    + right. left. split; [exact H|]. unfold freq. rewrite Hfmc.
      apply (exported_req_none _ _ _ _ Hkp Em' Ec).
  - (* call parent, nil *)
    split; [|exact Htd]. pose proof Hst as [Hf _].
    destruct (frame_ok_cons _ _ _ _ _ Hf) as (k & mt & a' & Hk & Hm & Hev & Hf').
    simpl in Hev.
    destruct (find_method (c_methods k) m') as [mt'|] eqn:Em'; [|discriminate].
    destruct (m_exported mt' && has_paths mt' && negb (uses_child mt')) eqn:Ec; inversion Hev; subst.
    eapply stack_ok_replace_top; [| |exact Hf'|exact Hst]; reflexivity.
  - (* call child *)
    split; [|exact Htd]. pose proof Hst as [Hf _].
    destruct (frame_ok_cons _ _ _ _ _ Hf) as (k & mt & a' & Hk & Hm & Hev & Hf').
    simpl in Hev.
    destruct (find_method (c_methods k) m') as [mt'|] eqn:Em'; [|discriminate].
    destruct (m_exported mt' && has_paths mt' && is_none (eff mt a) && uses_child mt) eqn:Ec; inversion Hev; subst.
    repeat (apply andb_true_iff in Ec; destruct Ec as [Ec ?]).
    assert (Hcaller : stack_ok (Frame o m a' rest :: st)).
    { eapply stack_ok_replace_top; [| |exact Hf'|exact Hst]; reflexivity. }
    destruct (new_frame_ok _ _ _ _ H0) as [Hnf _].
    simpl. split; [exact Hnf|]. split; [exact Hcaller|].
    pose proof (child_parent _ _ H) as Hpar.
    assert (Hkc : find_class prog (w_class w c) = Some k) by (rewrite <- (parent_class _ _ Hpar); exact Hk).
    assert (Hfmc : frame_mt (new_frame c m' p) = Some (k, mt')) by (apply frame_mt_of; auto).
    assert (Hfm : frame_mt (Frame o m a' rest) = Some (k, mt)) by (apply frame_mt_of; auto).
    assert (Hall : all_unlocked (Frame o m a' rest :: st)).
    { assert (Hfu : fuc (Frame o m a' rest) = true) by (unfold fuc; rewrite Hfm; exact H1).
      pose proof (stack_ok_uc _ _ Hcaller Hfu) as Hbelow.
      intros fr [Hfr|Hfr]; [|auto]. subst fr. simpl. apply is_none_true in H2.
      destruct a'; simpl in H2; [discriminate|reflexivity]. }
    split; [intros _; exact Hall|].
    right. right. split; [exact Hpar|]. split; [|exact Hall]. unfold freq. rewrite Hfmc.
    apply (exported_req_none _ _ _ _ Hkc Em' Ec).
  - (* call child, nil *)
    split; [|exact Htd]. pose proof Hst as [Hf _].
    destruct (frame_ok_cons _ _ _ _ _ Hf) as (k & mt & a' & Hk & Hm & Hev & Hf').
    simpl in Hev.
    destruct (find_method (c_methods k) m') as [mt'|] eqn:Em'; [|discriminate].
    destruct (m_exported mt' && has_paths mt' && is_none (eff mt a) && uses_child mt) eqn:Ec; inversion Hev; subst.
    eapply stack_ok_replace_top; [| |exact Hf'|exact Hst]; reflexivity.
  - (* skip: rejected by the checker *)
    exfalso. destruct Hst as [Hf _].
    destruct (frame_ok_cons _ _ _ _ _ Hf) as (k & mt & a' & Hk & Hm & Hev & Hf').
    destruct e; try contradiction; simpl in Hev; discriminate.
Qed.

(* ---- what the invariant says about the mutexes a thread really holds ---- *)
Lemma mode_le_refl md : mode_le md md = true.
Proof. destruct md; reflexivity. Qed.
Lemma mode_le_trans a b c : mode_le a b = true -> mode_le b c = true -> mode_le a c = true.
Proof. destruct a, b, c; simpl; congruence. Qed.

Lemma held_modes_unlocked_frame o fr st : f_acq fr = None -> held_modes o (fr :: st) = held_modes o st.
Proof. intro H. simpl. unfold frame_holds. rewrite H. destruct (Nat.eqb (f_obj fr) o); reflexivity. Qed.

(* L1: the effective lock state of the top frame is really held by the thread *)
Lemma eff_is_held st : stack_ok st -> forall fr st' md, st = fr :: st' -> feff fr = Some md ->
  exists md', In md' (held_modes (f_obj fr) st) /\ mode_le md md' = true.
Proof.
  induction st as [|x st IH]; intros Hs fr st' md E He; [discriminate|].
  inversion E; subst. clear E.
  unfold feff in He. destruct (f_acq fr) as [a|] eqn:Ea.
  - inversion He; subst. exists md. split; [|apply mode_le_refl].
    simpl. unfold frame_holds. rewrite Nat.eqb_refl, Ea. left. reflexivity.
  - destruct Hs as [_ [Hs' Hh]]. destruct st' as [|caller below].
    + rewrite Hh in He. discriminate.
    + destruct Hh as [_ [[Ho Hc]|[[_ Hn]|[_ [Hn _]]]]]; try (rewrite Hn in He; discriminate).
      rewrite He in Hc. unfold holds_at_least in Hc.
      destruct (feff caller) as [md2|] eqn:E2; [|discriminate].
      destruct (IH Hs' caller below md2 eq_refl E2) as [md' [Hin Hle]].
      exists md'. split; [|eapply mode_le_trans; eauto].
      rewrite held_modes_unlocked_frame by exact Ea. rewrite Ho. exact Hin.
Qed.

Lemma held_modes_In o st md : In md (held_modes o st) -> exists fr, In fr st /\ f_obj fr = o /\ f_acq fr = Some md.
Proof.
  induction st as [|x st IH]; simpl; [intros []|].
  unfold frame_holds. destruct (Nat.eqb (f_obj x) o) eqn:E.
  - destruct (f_acq x) as [a|] eqn:Ea.
    + intros [H|H]; [subst; exists x; apply Nat.eqb_eq in E; auto|].
      destruct (IH H) as [fr [? ?]]. exists fr. auto.
    + intro H. destruct (IH H) as [fr [? ?]]. exists fr. auto.
  - intro H. destruct (IH H) as [fr [? ?]]. exists fr. auto.
Qed.

(* L2: every mutex the thread holds belongs to an object at or above the top frame's object in the forest order
   (child -> parent = decreasing number); strictly above when the top frame holds nothing on its own object *)
Lemma holders_order st : stack_ok st -> forall fr st', st = fr :: st' ->
  (forall x, In x st -> f_acq x <> None -> f_obj fr <= f_obj x) /\
  (feff fr = None -> forall x, In x st -> f_acq x <> None -> f_obj fr < f_obj x).
Proof.
  induction st as [|y st IH]; intros Hs fr st' E; [discriminate|].
  inversion E; subst. clear E. destruct Hs as [_ [Hs' Hh]].
  destruct st' as [|caller below].
  - split.
    + intros x [Hx|[]] _. subst. lia.
    + intros He x [Hx|[]] Ha. subst. unfold feff in He. destruct (f_acq x); [discriminate|congruence].
  - destruct (IH Hs' caller below eq_refl) as [IH1 IH2].
    destruct Hh as [_ [[Ho Hc]|[[Hp Hn]|[Hp [Hn Hall]]]]].
    + split.
      * intros x [Hx|Hx] Ha; [subst; lia|]. rewrite Ho. auto.
      * intros He x [Hx|Hx] Ha.
        { subst. unfold feff in He. destruct (f_acq x); [discriminate|congruence]. }
        rewrite Ho. apply IH2; auto.
        unfold feff in He. destruct (f_acq fr); [discriminate|]. rewrite He in Hc. exact Hc.
    + destruct Hw as [Hw1 _]. destruct (Hw1 _ _ Hp) as [Hlt _].
      split.
      * intros x [Hx|Hx] Ha; [subst; lia|]. specialize (IH1 x Hx Ha). lia.
      * intros He x [Hx|Hx] Ha.
        { subst. unfold feff in He. destruct (f_acq x); [discriminate|congruence]. }
        specialize (IH1 x Hx Ha). lia.
    + split.
      * intros x [Hx|Hx] Ha; [subst; lia|]. exfalso. apply Ha. apply Hall. exact Hx.
      * intros He x [Hx|Hx] Ha.
        { subst. unfold feff in He. destruct (f_acq x); [discriminate|congruence]. }
        exfalso. apply Ha. apply Hall. exact Hx.
Qed.

End Inv.
