(* C17 — hand-written programs: one that the checker accepts (with a complete execution of two goroutines, so the
   hypotheses of the soundness theorem are satisfiable), one rejected for each reason, and the run-time meaning of the
   two defect shapes of the pinned snapshot (self-deadlock; unprotected concurrent access). *)
From Coq Require Import List String Bool Arith Lia.
From V Require Import Conc.LockLang Conc.LockCheck Conc.LockInv Conc.LockSound Conc.LockAtomic.
Import ListNotations.
Local Open Scope string_scope.
Local Open Scope list_scope.

(* a cache with a parent pointer, in the style of PubkeyCache *)
Definition good_class : class :=
  Class "Cache" ["tbl"; "cnt"] ["parent"; "cfg"] [
    Method "Get" true None [[Acquire R; Defer R; CallInternal "unsafeGet"; Return]];
    Method "unsafeGet" false (Some R) [
      [Read "tbl"; Return];
      [Read "tbl"; Read "parent"; CallExported Parent "Get"; Return]];
    Method "Put" true None [
      [Read "cfg"; Acquire W; Read "cnt"; Write "tbl"; Write "cnt"; Release W; Return];
      [Read "cfg"; Acquire W; Defer W; Read "cnt"; Return]];
    Method "Len" true None [[Acquire R; Read "cnt"; Release R]];
    Method "Version" true None [[Read "cfg"; Return]]].
Definition good : program := [good_class].

Example good_ok : lock_ok good = true.
Proof. vm_compute. reflexivity. Qed.

Definition bad (ms : list method) : program := [Class "Cache" ["tbl"; "cnt"] ["parent"; "cfg"] ms].
Definition get := Method "Get" true None [[Acquire R; Defer R; Read "tbl"; Return]].

(* one rejected program per rule *)
Example bad_read_without_lock : lock_ok (bad [Method "Len" true None [[Read "cnt"; Return]]]) = false.
Proof. reflexivity. Qed.
Example bad_write_under_read_lock : lock_ok (bad [Method "Put" true None [[Acquire R; Defer R; Write "tbl"; Return]]]) = false.
Proof. reflexivity. Qed.
Example bad_write_without_lock : lock_ok (bad [Method "Reset" true None [[Write "cnt"]]]) = false.
Proof. reflexivity. Qed.
Example bad_read_after_unlock : lock_ok (bad [Method "Len" true None [[Acquire R; Release R; Read "cnt"]]]) = false.
Proof. reflexivity. Qed.
Example bad_exported_call_while_locked :   (* the UpdateJustified -> InSubtree shape *)
  lock_ok (bad [get; Method "Upd" true None [[Acquire W; Defer W; CallExported Self "Get"; Return]]]) = false.
Proof. reflexivity. Qed.
Example bad_helper_contract :              (* helper needs the lock, caller does not hold it *)
  lock_ok (bad [Method "unsafeGet" false (Some R) [[Read "tbl"]]; Method "Get" true None [[CallInternal "unsafeGet"]]]) = false.
Proof. reflexivity. Qed.
Example bad_helper_contract_mode :         (* helper writes, caller holds the read lock only *)
  lock_ok (bad [Method "unsafePut" false (Some W) [[Write "tbl"]];
                Method "Put" true None [[Acquire R; Defer R; CallInternal "unsafePut"]]]) = false.
Proof. reflexivity. Qed.
Example bad_locking_helper_called_locked : (* helper locks itself, caller already holds the mutex *)
  lock_ok (bad [Method "lockedGet" false None [[Acquire R; Defer R; Read "tbl"]];
                Method "Put" true None [[Acquire W; Defer W; CallInternal "lockedGet"]]]) = false.
Proof. reflexivity. Qed.
Example bad_missing_release : lock_ok (bad [Method "Put" true None [[Acquire W; Write "tbl"; Return]]]) = false.
Proof. reflexivity. Qed.
Example bad_release_on_one_path_only :
  lock_ok (bad [Method "Put" true None [[Acquire W; Write "tbl"; Release W; Return]; [Acquire W; Read "cnt"; Return]]]) = false.
Proof. reflexivity. Qed.
Example bad_wrong_unlock : lock_ok (bad [Method "Len" true None [[Acquire R; Read "cnt"; Release W]]]) = false.
Proof. reflexivity. Qed.
Example bad_leak : lock_ok (bad [Method "Table" true None [[Acquire R; Defer R; Read "tbl"; Leak "tbl"; Return]]]) = false.
Proof. reflexivity. Qed.
Example bad_unknown : lock_ok (bad [Method "Odd" true None [[Acquire R; Defer R; Unknown "x.go:1 goto"; Return]]]) = false.
Proof. reflexivity. Qed.
Example bad_write_immutable : lock_ok (bad [Method "SetCfg" true None [[Acquire W; Defer W; Write "cfg"]]]) = false.
Proof. reflexivity. Qed.
Example bad_child_call_while_locked :      (* lock order parent -> child, against the child -> parent order of Get *)
  lock_ok (bad [get; Method "Fork" true None [[Acquire W; Defer W; CallExported Child "Get"; Return]]]) = false.
Proof. reflexivity. Qed.
Example bad_parent_calls_child_caller :    (* a method reached from a child (holding its lock) must not call children *)
  lock_ok (bad [get; Method "Fork" true None [[CallExported Child "Get"; Return]];
                Method "Up" true None [[Acquire R; Defer R; CallExported Parent "Fork"; Return]]]) = false.
Proof. reflexivity. Qed.
Example bad_missing_method : lock_ok (bad [Method "Get" true None [[Acquire R; Defer R; CallInternal "nope"]]]) = false.
Proof. reflexivity. Qed.
Example bad_two_critical_sections :        (* check-then-act (the AddValidator shape): safe, but not atomic *)
  let p := bad [get; Method "Add" true None [[CallExported Self "Get"; Acquire W; Defer W; Write "tbl"; Return]]] in
  disc_ok p = true /\ atomic_ok [] p = false /\ lock_ok p = false /\ lock_ok_excl [("Cache", "Add")] p = true.
Proof. repeat split; reflexivity. Qed.
Example bad_two_parent_sections :          (* two separate critical sections on the parent inside one call *)
  let p := bad [get; Method "Twice" true None [[Acquire R; Defer R; CallExported Parent "Get"; CallExported Parent "Get"; Return]]] in
  disc_ok p = true /\ atomic_ok [] p = false.
Proof. repeat split; reflexivity. Qed.

(* ---- the semantics is not vacuous: two goroutines on one shared object (child 1 of root 0) run to completion ---- *)
Definition w2 : world :=
  World (fun _ => "Cache") (fun o => match o with 1 => Some 0 | _ => None end)
        (fun o => match o with 0 => [1] | _ => [] end).

Lemma w2_wf : wf_world w2.
Proof.
  split.
  - intros o p H. simpl in H. destruct o as [|[|o]]; try discriminate. inversion H; subst. split; [lia|reflexivity].
  - intros o c. simpl. split.
    + destruct o as [|o]; [|intros []]. intros [<-|[]]. reflexivity.
    + destruct c as [|[|c]]; try discriminate. intro H. inversion H; subst. left. reflexivity.
Qed.

Definition c_init : config := [Thread [] [(1, "Get")]; Thread [] [(1, "Put")]].

Lemma c_init_initial : initial good w2 c_init.
Proof.
  repeat constructor; simpl; eexists; (split; [reflexivity|reflexivity]).
Qed.

Example good_program_is_covered :
  race_free good w2 c_init /\ no_thread_blocked_forever good w2 c_init.
Proof. apply disc_ok_sound; [reflexivity | exact w2_wf | exact c_init_initial]. Qed.

(* ---- what the rejected shapes mean at run time ---- *)
(* (1) self-deadlock: Upd holds W and calls the exported Get, which needs R on the same mutex: the goroutine is stuck
   for ever (the shape of ProtoForkChoice.UpdateJustified -> fc.InSubtree in the pinned snapshot) *)
Definition snap : program := bad [get; Method "Upd" true None [[Acquire W; Defer W; CallExported Self "Get"; Return]]].
Definition stuck_cfg : config :=
  [Thread [Frame 0 "Get" None [Acquire R; Read "tbl"; Release R];
           Frame 0 "Upd" (Some W) [Release W]] []].

Example snapshot_shape_reaches_stuck : exists tr, exec snap w2 [Thread [] [(0, "Upd")]] tr stuck_cfg.
Proof.
  eexists.
  eapply E_cons. { apply Step with (i := 0) (th := Thread [] [(0, "Upd")]); [reflexivity|].
    apply S_start with (p := [Acquire W; Defer W; CallExported Self "Get"; Return]).
    eexists; split; [reflexivity|split; [reflexivity|left; reflexivity]]. }
  simpl. eapply E_cons. { eapply Step with (i := 0); [reflexivity|]. apply S_acquire; reflexivity. }
  simpl. eapply E_cons. { eapply Step with (i := 0); [reflexivity|].
    apply S_call_self with (p := [Acquire R; Defer R; Read "tbl"; Return]).
    eexists; split; [reflexivity|split; [reflexivity|left; reflexivity]]. }
  simpl. apply E_nil.
Qed.

Example snapshot_shape_is_deadlocked : ~ all_done stuck_cfg /\ forall l c', ~ step snap w2 stuck_cfg l c'.
Proof.
  split.
  - intro H. inversion H as [|? ? [Hs _] _]; subst. discriminate.
  - intros l c' H. inversion H as [c i th l0 th' Hn Ht]; subst.
    destruct i as [|i]; simpl in Hn; [|destruct i; discriminate].
    inversion Hn; subst. inversion Ht; subst; simpl in *; try discriminate; try contradiction.
Qed.

(* (2) a reader that takes no lock (the shape of AttestationPool.Search / SyncCommitteePool.Reset in the snapshot) can be
   about to read while a writer, holding the mutex, is about to write: a data race *)
Definition snap2 : program :=
  bad [Method "Search" true None [[Read "tbl"; Return]]; Method "Put" true None [[Acquire W; Defer W; Write "tbl"; Return]]].
Definition racy_cfg : config :=
  [Thread [Frame 0 "Search" None [Read "tbl"]] []; Thread [Frame 0 "Put" (Some W) [Write "tbl"; Release W]] []].

Example snapshot_shape_races :
  (exists tr, exec snap2 w2 [Thread [] [(0, "Search")]; Thread [] [(0, "Put")]] tr racy_cfg) /\ racy racy_cfg.
Proof.
  split.
  - eexists.
    eapply E_cons. { apply Step with (i := 0) (th := Thread [] [(0, "Search")]); [reflexivity|].
      apply S_start with (p := [Read "tbl"; Return]). eexists; split; [reflexivity|split; [reflexivity|left; reflexivity]]. }
    simpl. eapply E_cons. { apply Step with (i := 1) (th := Thread [] [(0, "Put")]); [reflexivity|].
      apply S_start with (p := [Acquire W; Defer W; Write "tbl"; Return]).
      eexists; split; [reflexivity|split; [reflexivity|left; reflexivity]]. }
    simpl. eapply E_cons. { eapply Step with (i := 1); [reflexivity|]. apply S_acquire; reflexivity. }
    simpl. apply E_nil.
  - exists 0, 1, (Thread [Frame 0 "Search" None [Read "tbl"]] []), (Thread [Frame 0 "Put" (Some W) [Write "tbl"; Release W]] []),
      0, "tbl", false, true.
    repeat split; try reflexivity. lia.
Qed.

(* ---- serializability is not vacuous: lock points exist and are ordered ---- *)
(* a complete interleaving of Put (goroutine 0) and Len (goroutine 1) on object 0, with a write/read conflict on "cnt" *)
Definition c_pl : config := [Thread [] [(0, "Put")]; Thread [] [(0, "Len")]].
Definition tr_pl : list (nat * label) :=
  [(0, LStart 0 "Put"); (0, LRead 0 "cfg"); (0, LAcq 0 W); (0, LRead 0 "cnt"); (0, LWrite 0 "tbl"); (0, LWrite 0 "cnt");
   (0, LRel 0 W); (1, LStart 0 "Len"); (1, LAcq 0 R); (1, LRead 0 "cnt")].

Ltac stp n := eapply E_cons; [eapply Step with (i := n); [reflexivity|]|simpl].
Ltac callable_first := eexists; split; [reflexivity|split; [reflexivity|]].

Example tr_pl_is_an_execution : exists c, exec good w2 c_pl tr_pl c.
Proof.
  eexists. unfold tr_pl, c_pl.
  stp 0. { apply S_start with (p := [Read "cfg"; Acquire W; Read "cnt"; Write "tbl"; Write "cnt"; Release W; Return]).
           callable_first. left. reflexivity. }
  stp 0. { apply S_read. }
  stp 0. { apply S_acquire; reflexivity. }
  stp 0. { apply S_read. }
  stp 0. { apply S_write. }
  stp 0. { apply S_write. }
  stp 0. { apply S_release. }
  stp 1. { apply S_start with (p := [Acquire R; Read "cnt"; Release R]). callable_first. left. reflexivity. }
  stp 1. { apply S_acquire; reflexivity. }
  stp 1. { apply S_read. }
  apply E_nil.
Qed.

Ltac no_start := intros (x & ox & mx & Hx1 & Hx2 & Hx); unfold tr_pl in Hx;
  do 10 (destruct x as [|x]; [first [lia | discriminate Hx]|]); lia.

Ltac no_acq q Hq Hn := unfold tr_pl in Hn;
  do 10 (destruct q as [|q]; [first [lia | discriminate Hn]|]); simpl in Hn; destruct q; discriminate Hn.

Example tr_pl_lock_points : lock_point tr_pl 0 5 2 /\ lock_point tr_pl 1 9 8.
Proof.
  split.
  - exists 0, 0, "Put". split; [reflexivity|]. split; [split; [lia|no_start]|]. split; [split; [lia|no_start]|].
    split; [right; exists 0, W; reflexivity|].
    intros q o' md Hq _ Hn. no_acq q Hq Hn.
  - exists 7, 0, "Len". split; [reflexivity|]. split; [split; [lia|no_start]|]. split; [split; [lia|no_start]|].
    split; [right; exists 0, R; reflexivity|].
    intros q o' md Hq _ Hn. no_acq q Hq Hn.
Qed.
(* the serializability theorem applied to this execution: the conflicting pair (write of cnt at 5, read of cnt at 9)
   is ordered as the lock points 2 < 8 *)
Example tr_pl_serial_order : forall c, exec good w2 c_pl tr_pl c -> forall p1 p2,
  lock_point tr_pl 0 5 p1 -> lock_point tr_pl 1 9 p2 -> p1 < p2.
Proof.
  intros c He p1 p2 L1 L2.
  assert (Hinit : initial good w2 c_pl).
  { repeat constructor; simpl; eexists; (split; [reflexivity|reflexivity]). }
  destruct (lock_ok_sound good w2 c_pl good_ok w2_wf Hinit) as (_ & _ & Hser).
  apply (Hser tr_pl c He 5 9 0 1 (LWrite 0 "cnt") (LRead 0 "cnt") 0 "cnt" p1 p2); auto; try reflexivity.
  - right. reflexivity.
  - left. reflexivity.
Qed.
