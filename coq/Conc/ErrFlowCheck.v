(* C18 — the checker `errflow_ok : program -> bool` (and the list of problems behind it).

   One forward pass over every body with an abstract state
       AClean         every error value produced so far has been tested: the register holds (true, nil)
       APend p        the variables (pev p, pbv p) assigned by the call at `psite p` may still hold an untested
                      error (pe p) and/or an untested `false` verdict (pv p); pf p: that value may stem from a
                      FAULT (a Poll, an engine query, or a callee that can observe one), as opposed to the
                      failure of a library leaf or of a callee that never sees the context or the engine
       ADead          no fall-through (the statement always returns)
   Accepted bodies test every error before the next call, poll, engine query, loop, break/continue or
   `return nil`; hand every error on (Propagate / Wrap / return of the very variable); turn every `false`
   verdict of a (bool, error) callee into an error (or, inside a (bool, error) function, hand it on as
   `false, nil`).  Everything else is a `problem` naming the function, the source position, the reason and the
   position of the call whose result is lost.  `pr_fault` says whether a fault could be lost that way:
       errflow_ok p      = no problem with pr_fault = true        (hypothesis of the soundness theorem)
       errflow_strict p  = no problem at all except CtxNotConsulted (every error of every leaf is handed on too)
   No proofs here (soundness: ErrFlowSound.v). *)
From Coq Require Import String List Bool Arith PeanoNat.
From V Require Import Conc.ErrFlow.
Import ListNotations.

Record pend := mkpend {
  psite : string;    (* position of the call/poll/engine query whose result is pending *)
  pev : nat;         (* error variable it was assigned to *)
  pbv : nat;         (* bool variable it was assigned to (0: none) *)
  pe : bool;         (* may hold a non-nil error *)
  pv : bool;         (* may hold (false, nil) *)
  pf : bool }.       (* the value may be the trace of an observed fault *)

Inductive astate := AClean | APend (p : pend) | ADead.

Inductive reason :=
| Dropped              (* error tested and then ignored / result never assigned / variable dies untested *)
| Overwritten          (* a later call assigns while the error is untested *)
| SwallowedReturnNil   (* `return nil` while the error is non-nil or untested *)
| IgnoredInvalid       (* a `false` verdict is not turned into an error *)
| PanicHandling        (* the error is turned into a panic instead of being returned *)
| UnknownConstruct     (* the translator could not classify the statement *)
| UndefinedCallee      (* Call of a function that is not in the table *)
| KindMismatch         (* (false, nil) returned from a function whose only result is the error *)
| PendingAtLoop        (* loop / break / continue / end of an iteration reached with an untested error *)
| JoinMismatch         (* the two arms of a branch leave different variables pending *)
| FaultFlagWrong       (* declared unable to observe a fault, yet polls / queries the engine / calls one that can *)
| ThreadedCalleeNotLeaf (* a function that is handed the pending error polls, queries the engine or calls *)
| CtxNotConsulted.     (* takes a context and never polls it nor hands it to a callee or the engine (coverage) *)

Record problem := mkproblem {
  pr_fn : string;       (* function *)
  pr_site : string;     (* file:line of the offending statement *)
  pr_reason : reason;
  pr_origin : string;   (* file:line of the call whose error/verdict is lost ("" if not applicable) *)
  pr_fault : bool }.    (* a fault (cancellation seen by a Poll, engine Invalid/Error) could be lost this way *)

Definition faulty (ps : list problem) : bool := existsb pr_fault ps.

Definition pend_after_test (p : pend) (err_tested verdict_tested : bool) : astate :=
  let e := pe p && negb err_tested in
  let v := pv p && negb verdict_tested in
  if e || v then APend (mkpend (psite p) (pev p) (pbv p) e v (pf p)) else AClean.

Definition join (a b : astate) : astate * bool (* false: mismatch *) :=
  match a, b with
  | ADead, x => (x, true)
  | x, ADead => (x, true)
  | AClean, x => (x, true)
  | x, AClean => (x, true)
  | APend p, APend q =>
    if (pev p =? pev q) && (pbv p =? pbv q)
    then (APend (mkpend (psite p) (pev p) (pbv p) (pe p || pe q) (pv p || pv q) (pf p || pf q)), true)
    else (AClean, false)
  end.

Section Chk.
  Variable fn : string.                       (* function being checked (for messages) *)
  Variable k : fkind.                         (* its kind *)
  Variable kindof : string -> option fkind.   (* kinds of the functions of the table *)
  Variable faults : string -> bool.           (* may_fault flags of the functions of the table *)

  Definition prob (site : string) (r : reason) (origin : string) (f : bool) : problem :=
    mkproblem fn site r origin f.

  (* a new assignment of the (valid, err) variables *)
  Definition assign (a : astate) (site : string) (ev bv : nat) (verdict fault : bool) : astate * list problem :=
    let post := APend (mkpend site ev bv true verdict fault) in
    match a with
    | APend p => (post, [prob site Overwritten (psite p) (pf p)])
    | _ => (post, [])
    end.

  Definition chk_ret (a : astate) (site : string) (r : retk) : list problem :=
    match r with
    | RetFresh => []
    | RetNil =>
      match a with
      | APend p => (if pe p then [prob site SwallowedReturnNil (psite p) (pf p)] else []) ++
                   (if pv p then [prob site IgnoredInvalid (psite p) true] else [])
      | _ => []
      end
    | RetReg v =>
      match a with
      | APend p => (if pe p && negb (pev p =? v) then [prob site Dropped (psite p) (pf p)] else []) ++
                   (if pv p then [prob site IgnoredInvalid (psite p) true] else [])
      | _ => []
      end
    | RetFalse =>
      (match k with VerdictFn => [] | Plain => [prob site KindMismatch "" true] end) ++
      match a with
      | APend p => if pe p then [prob site Dropped (psite p) (pf p)] else []
      | _ => []
      end
    | RetBoth bv ev =>
      (match k with VerdictFn => [] | Plain => [prob site KindMismatch "" true] end) ++
      match a with
      | APend p => (if pe p && negb (pev p =? ev) then [prob site Dropped (psite p) (pf p)] else []) ++
                   (if pv p && negb (pbv p =? bv) then [prob site IgnoredInvalid (psite p) true] else [])
      | _ => []
      end
    end.

  Definition pend_loop (a : astate) : list problem :=
    match a with APend p => [prob (psite p) PendingAtLoop (psite p) true] | _ => [] end.

  Definition chk_call (a : astate) (site f : string) (ev bv : nat) : astate * list problem :=
    match kindof f with
    | None => (fst (assign a site ev bv true true),
               prob site UndefinedCallee "" true :: snd (assign a site ev bv true true))
    | Some Plain => assign a site ev bv false (faults f)
    | Some VerdictFn => assign a site ev bv true true
    end.

  Definition chk_thread (a : astate) (site : string) (tin ev : nat) : astate * list problem :=
    match a with
    | APend p =>
      if (pev p =? tin) && negb (pv p) then (APend (mkpend site ev 0 true false (pf p)), [])
      else assign a site ev 0 false false
    | _ => assign a site ev 0 false false
    end.

  Definition chk_iferr (a : astate) (site : string) (v : nat) (h : handling) : astate * list problem :=
    match a with
    | APend p =>
      if (pev p =? v) && pe p then
        (pend_after_test p true false,
         match h with
         | Propagate | Wrap => []
         | Drop => [prob site Dropped (psite p) (pf p)]
         | ReturnNil => [prob site SwallowedReturnNil (psite p) (pf p)]
         | PanicH => [prob site PanicHandling (psite p) true]
         end)
      else (a, [])
    | _ => (a, [])
    end.

  Definition chk_verdict (a : astate) (site : string) (v : nat) (h : vhandling) : astate * list problem :=
    match a with
    | APend p =>
      if (pbv p =? v) && pv p then
        (pend_after_test p false true,
         match h with
         | VToErr => []
         | VPass => match k with VerdictFn => [] | Plain => [prob site KindMismatch (psite p) true] end
         | VIgnore | VReturnNil => [prob site IgnoredInvalid (psite p) true]
         | VPanic => [prob site PanicHandling (psite p) true]
         end)
      else (a, [])
    | _ => (a, [])
    end.

  Fixpoint chk (s : stmt) (a : astate) {struct s} : astate * list problem :=
    match a with
    | ADead => (ADead, [])                      (* unreachable code *)
    | _ =>
    match s with
    | Skip => (a, [])
    | Poll site ev => assign a site ev 0 false true
    | Call site f ev bv => chk_call a site f ev bv
    | CallLib site _ ev => assign a site ev 0 false false
    | CallThread site _ tin ev => chk_thread a site tin ev
    | Engine site _ ev bv => assign a site ev bv true true
    | SetErr site ev => assign a site ev 0 false false
    | IfErr site v h => chk_iferr a site v h
    | CheckVerdict site v h => chk_verdict a site v h
    | Ret site r => (ADead, chk_ret a site r)
    | Seq s1 s2 =>
      let (a1, p1) := chk s1 a in
      let (a2, p2) := chk s2 a1 in
      (a2, p1 ++ p2)
    | Branch s1 s2 =>
      let (a1, p1) := chk s1 a in
      let (a2, p2) := chk s2 a in
      let (j, okj) := join a1 a2 in
      (j, p1 ++ p2 ++ (if okj then [] else [prob "" JoinMismatch "" true]))
    | Loop b =>
      let (a1, p1) := chk b AClean in
      (AClean, pend_loop a ++ p1 ++ pend_loop a1)
    | Brk | Cont => (ADead, pend_loop a)
    | Unknown site => (a, [prob site UnknownConstruct "" true])
    end
    end.
End Chk.

(* does the body ever look at the context: a Poll, an engine query, or a call of a function that takes it *)
Fixpoint consults_ctx (ctxfn : string -> bool) (s : stmt) : bool :=
  match s with
  | Poll _ _ => true
  | Engine _ _ _ _ => true
  | Call _ f _ _ => ctxfn f
  | Seq a b | Branch a b => consults_ctx ctxfn a || consults_ctx ctxfn b
  | Loop b => consults_ctx ctxfn b
  | _ => false
  end.

(* the body can observe no fault: no Poll, no engine query, no call of a function that can *)
Fixpoint quiet_body (faults : string -> bool) (s : stmt) : bool :=
  match s with
  | Poll _ _ | Engine _ _ _ _ => false
  | Call _ f _ _ => negb (faults f)
  | Seq a b | Branch a b => quiet_body faults a && quiet_body faults b
  | Loop b => quiet_body faults b
  | _ => true
  end.

(* a body made of leaves only (what a function that is handed the pending error may be) *)
Fixpoint leaf_only (s : stmt) : bool :=
  match s with
  | Poll _ _ | Call _ _ _ _ | Engine _ _ _ _ | Unknown _ => false
  | Seq a b | Branch a b => leaf_only a && leaf_only b
  | Loop b => leaf_only b
  | _ => true
  end.

Definition kindof_prog (p : program) (f : string) : option fkind :=
  match lookup p f with Some fd => Some (fkind_of fd) | None => None end.
Definition ctxfn_prog (p : program) (f : string) : bool :=
  match lookup p f with Some fd => takes_ctx fd | None => false end.
(* a function that is not in the table is a leaf: it cannot observe a fault *)
Definition faults_prog (p : program) (f : string) : bool :=
  match lookup p f with Some fd => may_fault fd | None => false end.

Definition entry_state (fd : fundef) : astate :=
  match takes_err fd with
  | Some v => APend (mkpend (fpos fd) v 0 true false true)
  | None => AClean
  end.

Definition fun_problems (p : program) (fd : fundef) : list problem :=
  let (a1, ps) := chk (fname fd) (fkind_of fd) (kindof_prog p) (faults_prog p) (fbody fd) (entry_state fd) in
  ps ++
  (match a1 with APend q => [mkproblem (fname fd) (fpos fd) Dropped (psite q) (pf q)] | _ => [] end) ++
  (if negb (may_fault fd) && negb (quiet_body (faults_prog p) (fbody fd))
   then [mkproblem (fname fd) (fpos fd) FaultFlagWrong "" true] else []) ++
  (match takes_err fd with
   | Some _ => if leaf_only (fbody fd) then [] else [mkproblem (fname fd) (fpos fd) ThreadedCalleeNotLeaf "" true]
   | None => []
   end) ++
  (if takes_ctx fd && negb (consults_ctx (ctxfn_prog p) (fbody fd))
   then [mkproblem (fname fd) (fpos fd) CtxNotConsulted "" false] else []).

Definition errflow_problems (p : program) : list problem := flat_map (fun_problems p) (funs p).

(* no fault can be lost *)
Definition errflow_ok (p : program) : bool := negb (faulty (errflow_problems p)).

(* the problems that could lose a fault / the other ones *)
Definition fault_problems (p : program) : list problem := filter pr_fault (errflow_problems p).
Definition is_ctx_coverage (pr : problem) : bool :=
  match pr_reason pr with CtxNotConsulted => true | _ => false end.
Definition leaf_problems (p : program) : list problem :=
  filter (fun pr => negb (pr_fault pr) && negb (is_ctx_coverage pr)) (errflow_problems p).
Definition ctx_coverage_problems (p : program) : list problem := filter is_ctx_coverage (errflow_problems p).
Definition errflow_strict (p : program) : bool :=
  match filter (fun pr => negb (is_ctx_coverage pr)) (errflow_problems p) with [] => true | _ => false end.

(* printable form of the problems (what the driver reads back when an obligation fails) *)
Definition reason_name (r : reason) : string :=
  match r with
  | Dropped => "Dropped"
  | Overwritten => "Overwritten"
  | SwallowedReturnNil => "SwallowedReturnNil"
  | IgnoredInvalid => "IgnoredInvalid"
  | PanicHandling => "PanicHandling"
  | UnknownConstruct => "UnknownConstruct"
  | UndefinedCallee => "UndefinedCallee"
  | KindMismatch => "KindMismatch"
  | PendingAtLoop => "PendingAtLoop"
  | JoinMismatch => "JoinMismatch"
  | FaultFlagWrong => "FaultFlagWrong"
  | ThreadedCalleeNotLeaf => "ThreadedCalleeNotLeaf"
  | CtxNotConsulted => "CtxNotConsulted"
  end%string.
Definition show_problem (pr : problem) : string * string * string * string :=
  (pr_fn pr, pr_site pr, reason_name (pr_reason pr), pr_origin pr).

(* counts, for the evidence *)
Fixpoint count_stmt (f : stmt -> bool) (s : stmt) : nat :=
  (if f s then 1 else 0) +
  match s with
  | Seq a b | Branch a b => count_stmt f a + count_stmt f b
  | Loop b => count_stmt f b
  | _ => 0
  end.
Definition is_poll s := match s with Poll _ _ => true | _ => false end.
Definition is_call s := match s with Call _ _ _ _ => true | _ => false end.
Definition is_lib s := match s with CallLib _ _ _ | CallThread _ _ _ _ => true | _ => false end.
Definition is_engine s := match s with Engine _ _ _ _ => true | _ => false end.
Definition is_iferr s := match s with IfErr _ _ _ => true | _ => false end.
Definition is_unknown s := match s with Unknown _ => true | _ => false end.
Definition count_prog (f : stmt -> bool) (p : program) : nat :=
  fold_right (fun fd n => count_stmt f (fbody fd) + n) 0 (funs p).
