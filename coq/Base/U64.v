(* 64-bit unsigned arithmetic as Go performs it: values are N, every
   overflow-capable operation is wrapped explicitly. *)
From Coq Require Import NArith ZArith Lia List Bool.
From Coq Require Import ZifyN ZifyNat ZifyBool.
Local Open Scope N_scope.

Definition two64 : N := 18446744073709551616.
Definition max64 : N := 18446744073709551615.
Definition wrap64 (x : N) : N := x mod two64.
Definition is64 (x : N) : Prop := x < two64.

(* Go: a - b on uint64 *)
Definition sub64 (a b : N) : N := if b <=? a then a - b else (a + two64) - b.
Definition add64 (a b : N) : N := wrap64 (a + b).
Definition mul64 (a b : N) : N := wrap64 (a * b).
(* Go: x >> s, x << s on uint64 with s a uint64 shift count *)
Definition shr64 (x s : N) : N := N.shiftr x s.
Definition shl64 (x s : N) : N := wrap64 (N.shiftl x s).

Lemma two64_pow : two64 = 2 ^ 64. Proof. reflexivity. Qed.
Lemma wrap64_small x : x < two64 -> wrap64 x = x.
Proof. intros H. unfold wrap64. apply N.mod_small. exact H. Qed.
Lemma wrap64_lt x : wrap64 x < two64.
Proof. unfold wrap64. apply N.mod_lt. discriminate. Qed.
Lemma sub64_ge a b : b <= a -> sub64 a b = a - b.
Proof. intros H. unfold sub64. destruct (N.leb_spec b a); lia. Qed.
Lemma sub64_wrap a b : a < two64 -> b < two64 -> sub64 a b = wrap64 (a + two64 - b).
Proof.
  intros Ha Hb. unfold sub64, wrap64.
  destruct (N.leb_spec b a) as [H|H].
  - replace (a + two64 - b) with ((a - b) + 1 * two64) by lia.
    rewrite N.mod_add by discriminate. rewrite N.mod_small; lia.
  - rewrite N.mod_small; lia.
Qed.
