(* Outcomes of modelled Go calls. *)
Inductive panic_class := DivZero | IndexOOR | NilMap | NilDeref | Explicit.
Inductive outcome (A : Type) : Type :=
| Ok (a : A)
| Err            (* Go returned a non-nil error *)
| Panic (p : panic_class)
| Blocked        (* acquired a non-re-entrant mutex already held: never returns *)
| OutOfFuel.     (* model fuel exhausted: excluded by a lemma wherever it matters *)
Arguments Ok {A} a.
Arguments Err {A}.
Arguments Panic {A} p.
Arguments Blocked {A}.
Arguments OutOfFuel {A}.

Definition bind {A B} (x : outcome A) (f : A -> outcome B) : outcome B :=
  match x with
  | Ok a => f a
  | Err => Err
  | Panic p => Panic p
  | Blocked => Blocked
  | OutOfFuel => OutOfFuel
  end.
Definition is_ok {A} (x : outcome A) : bool := match x with Ok _ => true | _ => false end.
Definition is_err {A} (x : outcome A) : bool := match x with Err => true | _ => false end.

(* What the harness observed of a Go call. *)
Inductive gores (A : Type) : Type := GoOk (a : A) | GoErr | GoPanic | GoNoReturn.
Arguments GoOk {A} a.
Arguments GoErr {A}.
Arguments GoPanic {A}.
Arguments GoNoReturn {A}.
Definition agree {A} (eqb : A -> A -> bool) (m : outcome A) (g : gores A) : bool :=
  match m, g with
  | Ok a, GoOk b => eqb a b
  | Err, GoErr => true
  | Panic _, GoPanic => true
  | Blocked, GoNoReturn => true
  | OutOfFuel, GoNoReturn => true
  | _, _ => false
  end.
