(* Executable SHA-256 over primitive 63-bit integers (kernel primitives, not axioms).
   Used only to *run* models against the Go code; every theorem is parametric in the hash. *)
From Coq Require Import Uint63 List NArith ZArith.
Import ListNotations.
Local Open Scope uint63_scope.

Definition mask32 : int := 4294967295.
Definition add32 (a b : int) : int := (a + b) land mask32.
Definition rotr (x n : int) : int := ((x >> n) lor (x << (32 - n))) land mask32.
Definition K256 : list int := [1116352408; 1899447441; 3049323471; 3921009573; 961987163; 1508970993; 2453635748; 2870763221; 3624381080; 310598401; 607225278; 1426881987; 1925078388; 2162078206; 2614888103; 3248222580; 3835390401; 4022224774; 264347078; 604807628; 770255983; 1249150122; 1555081692; 1996064986; 2554220882; 2821834349; 2952996808; 3210313671; 3336571891; 3584528711; 113926993; 338241895; 666307205; 773529912; 1294757372; 1396182291; 1695183700; 1986661051; 2177026350; 2456956037; 2730485921; 2820302411; 3259730800; 3345764771; 3516065817; 3600352804; 4094571909; 275423344; 430227734; 506948616; 659060556; 883997877; 958139571; 1322822218; 1537002063; 1747873779; 1955562222; 2024104815; 2227730452; 2361852424; 2428436474; 2756734187; 3204031479; 3329325298].
Definition H0 : list int := [1779033703; 3144134277; 1013904242; 2773480762; 1359893119; 2600822924; 528734635; 1541459225].

Definition ssig0 x := (rotr x 7) lxor (rotr x 18) lxor (x >> 3).
Definition ssig1 x := (rotr x 17) lxor (rotr x 19) lxor (x >> 10).
Definition bsig0 x := (rotr x 2) lxor (rotr x 13) lxor (rotr x 22).
Definition bsig1 x := (rotr x 6) lxor (rotr x 11) lxor (rotr x 25).
Definition ch x y z := (x land y) lxor ((x lxor mask32) land z).
Definition maj x y z := (x land y) lxor (x land z) lxor (y land z).

(* schedule: [rev] holds w[i-1], w[i-2], ... (newest first) *)
Fixpoint sched (k : nat) (rev : list int) : list int :=
  match k with
  | O => rev
  | S k' =>
      let w2 := nth 1 rev 0 in let w7 := nth 6 rev 0 in
      let w15 := nth 14 rev 0 in let w16 := nth 15 rev 0 in
      sched k' (add32 (add32 (ssig1 w2) w7) (add32 (ssig0 w15) w16) :: rev)
  end.
Definition schedule (block : list int) : list int := rev (sched 48 (rev block)).

Record st8 := mk8 { sa : int; sb : int; sc : int; sd : int; se : int; sf : int; sg : int; sh : int }.
Fixpoint rounds (ks ws : list int) (s : st8) : st8 :=
  match ks, ws with
  | k :: ks', w :: ws' =>
      let '(mk8 a b c d e f g h) := s in
      let t1 := add32 (add32 (add32 h (bsig1 e)) (add32 (ch e f g) k)) w in
      let t2 := add32 (bsig0 a) (maj a b c) in
      rounds ks' ws' (mk8 (add32 t1 t2) a b c (add32 d t1) e f g)
  | _, _ => s
  end.
Definition compress (hs : list int) (block : list int) : list int :=
  match hs with
  | [a; b; c; d; e; f; g; h] =>
      let '(mk8 a' b' c' d' e' f' g' h') := rounds K256 (schedule block) (mk8 a b c d e f g h) in
      [add32 a a'; add32 b b'; add32 c c'; add32 d d'; add32 e e'; add32 f f'; add32 g g'; add32 h h']
  | _ => hs
  end.

(* bytes -> big-endian 32-bit words *)
Fixpoint words_of_bytes (fuel : nat) (bs : list int) : list int :=
  match fuel with
  | O => []
  | S f =>
      match bs with
      | b0 :: b1 :: b2 :: b3 :: rest => ((b0 << 24) lor (b1 << 16) lor (b2 << 8) lor b3) :: words_of_bytes f rest
      | _ => []
      end
  end.
Definition bytes_of_word (w : int) : list int :=
  [(w >> 24) land 255; (w >> 16) land 255; (w >> 8) land 255; w land 255].

Fixpoint blocks (fuel : nat) (hs : list int) (ws : list int) : list int :=
  match fuel with
  | O => hs
  | S f =>
      match ws with
      | [] => hs
      | _ => blocks f (compress hs (firstn 16 ws)) (skipn 16 ws)
      end
  end.

Definition pad (msg : list int) : list int :=
  let len := length msg in
  let r := Nat.modulo (len + 1) 64 in
  let zeros := if Nat.leb r 56 then (56 - r)%nat else (120 - r)%nat in
  let bits := (of_Z (Z.of_nat len)) << 3 in
  msg ++ [128] ++ repeat 0 zeros ++
  [(bits >> 56) land 255; (bits >> 48) land 255; (bits >> 40) land 255; (bits >> 32) land 255;
   (bits >> 24) land 255; (bits >> 16) land 255; (bits >> 8) land 255; bits land 255].

Definition sha256_int (msg : list int) : list int :=
  let p := pad msg in
  let n := length p in
  let ws := words_of_bytes n p in
  flat_map bytes_of_word (blocks n H0 ws).

(* the interface models use: bytes are N < 256 *)
Definition int_of_N (n : N) : int := of_Z (Z.of_N n).
Definition N_of_int (i : int) : N := Z.to_N (to_Z i).
(* fast path for bytes (0..255): eight bit tests instead of a 63-step conversion *)
Definition bitN (i m : int) (v : N) : N := if eqb (i land m) 0 then 0%N else v.
Definition N_of_byte (i : int) : N :=
  (bitN i 1 1 + bitN i 2 2 + bitN i 4 4 + bitN i 8 8 + bitN i 16 16 + bitN i 32 32 + bitN i 64 64 + bitN i 128 128)%N.
Definition sha256 (msg : list N) : list N := map N_of_byte (sha256_int (map int_of_N msg)).

(* FIPS 180-2 test vectors, checked by the kernel's VM at build time *)
Example sha256_empty : sha256 [] =
  [227;176;196;66;152;252;28;20;154;251;244;200;153;111;185;36;39;174;65;228;100;155;147;76;164;149;153;27;120;82;184;85]%N.
Proof. vm_compute. reflexivity. Qed.
Example sha256_abc : sha256 [97;98;99]%N =
  [186;120;22;191;143;1;207;234;65;65;64;222;93;174;34;35;176;3;97;163;150;23;122;156;180;16;255;97;242;0;21;173]%N.
Proof. vm_compute. reflexivity. Qed.
(* 56-byte message forces a second padding block *)
Example sha256_two_blocks : sha256 (map (fun c => N.of_nat c) (map (fun i => (97 + Nat.modulo i 26)%nat) (seq 0 56))) <> [] .
Proof. vm_compute. discriminate. Qed.
