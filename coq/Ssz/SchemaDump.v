(* Text dump of the pinned schemas, read by the Go harness (value generators are driven by the specification's
   schema, not by the Go types).  One line per type:  T <name> <sty>  with prefix-coded terms. *)
From Coq Require Import String NArith List DecimalString.
From V Require Import Ssz.SszDesc Ssz.SpecSchemas.
Import ListNotations.
Local Open Scope string_scope.

Definition nstr (n : N) : string := NilEmpty.string_of_uint (N.to_uint n).
Definition natstr (n : nat) : string := NilEmpty.string_of_uint (Nat.to_uint n).

Fixpoint dump_exp (e : gexp) : string :=
  match e with
  | ELit n => "L" ++ nstr n
  | ESpec k => "C" ++ k
  | EMul a b => "MUL " ++ dump_exp a ++ " " ++ dump_exp b
  | EDiv a b => "DIV " ++ dump_exp a ++ " " ++ dump_exp b
  | EAdd a b => "ADD " ++ dump_exp a ++ " " ++ dump_exp b
  | _ => "?"
  end.

Fixpoint dump_sty (s : sty) : string :=
  match s with
  | SUint n => "U" ++ nstr n
  | SBool => "BOOL"
  | SByteVector e => "BV " ++ dump_exp e
  | SByteList e => "BL " ++ dump_exp e
  | SBitvector e => "BITV " ++ dump_exp e
  | SBitlist e => "BITL " ++ dump_exp e
  | SVector t e => "VEC " ++ dump_sty t ++ " " ++ dump_exp e
  | SList t e => "LIST " ++ dump_sty t ++ " " ++ dump_exp e
  | SContainer fs =>
      "CONT " ++ natstr (length fs) ++
      (fix go (fs : list (string * sty)) : string :=
         match fs with
         | [] => ""
         | (n, t) :: fs' => " " ++ n ++ " " ++ dump_sty t ++ go fs'
         end) fs
  | SRef k => "REF " ++ k
  end.

Definition dump_lines : list string := map (fun p => "T " ++ fst p ++ " " ++ dump_sty (snd p)) spec_schemas.
