(* C15 correspondence: run the tree model (Ssz/TreeView.v) on the accessor programs the Go harness executed on
   tree-backed BeaconState views and their copies.  The state is the container tree whose leaves are the roots of
   the fields; every setter / sub-view write is a [set_field] of the model, every CopyState an [OCopy].  After every
   step the harness reports, for EVERY live view, the state root and the root of every field; the model must
   produce the same, which checks at once: the written field holds the written value, no other field changed,
   no other copy changed, and the reported root is the root of the content. *)
From Coq Require Import String NArith List Bool.
From V Require Import Base.Sha256 Ssz.SszCore Ssz.SpecSchemas Ssz.SszRun Ssz.TreeView.
Import ListNotations.
Local Open Scope N_scope.

Inductive top : Type :=
| TSet (view field : nat) (value : string)     (* field := value (canonical bytes, hex), through any typed accessor *)
| TCopy (src : nat)
| TSetMany (view : nat) (kvs : list (nat * string)).  (* one accessor call that writes several fields (AddValidator) *)

(* what Go reported after a step: per live view, (state root, field roots), and the Go-side verdict that every
   typed getter returned the stored value and Serialize() gave the stored content *)
Definition observation := list (string * list string).
Inductive pcase : Type :=
| CProg (cfg : Config) (name : string) (init : string) (steps : list (top * observation * bool)).

Definition tset := set sha256.
Definition depth_for (n : nat) : nat := depth_of (N.of_nat n).

Fixpoint field_roots (fs : list (string * ty)) (vs : list value) : list bytes :=
  match fs, vs with
  | (_, ft) :: fs', v :: vs' => htr ft v :: field_roots fs' vs'
  | _, _ => []
  end.

Definition view_matches (d nf : nat) (t : node) (o : string * list string) : bool :=
  bytes_eqb (root t) (unhex (fst o)) &&
  (Nat.eqb (length (snd o)) nf) &&
  forallb (fun p : nat * string =>
             match get_field d t (fst p) with
             | Some n => bytes_eqb (root n) (unhex (snd p))
             | None => false
             end) (combine (seq 0 nf) (snd o)).

Fixpoint all_match (d nf : nat) (s : list node) (o : observation) : bool :=
  match s, o with
  | [], [] => true
  | t :: s', x :: o' => view_matches d nf t x && all_match d nf s' o'
  | _, _ => false
  end.

(* codes: 1 = the program itself is not well-formed for the model (bad index, undecodable value), 2 = Go differs *)
Fixpoint run_steps (fs : list (string * ty)) (d : nat) (s : list node) (steps : list (top * observation * bool)) : N :=
  match steps with
  | [] => 0
  | (o, ob, gook) :: rest =>
      let next :=
          match o with
          | TSet v k b =>
              match nth_error s v, nth_error fs k with
              | Some t, Some (_, ft) =>
                  match deserialize ft (unhex b) with
                  | Some val =>
                      match set_field sha256 d t k (Leaf (htr ft val)) with
                      | Some t' => Some (firstn v s ++ t' :: skipn (S v) s)
                      | None => None
                      end
                  | None => None
                  end
              | _, _ => None
              end
          | TCopy v => match nth_error s v with Some t => Some (s ++ [t]) | None => None end
          | TSetMany v kvs =>
              match nth_error s v with
              | Some t =>
                  match fold_left (fun acc kb =>
                           match acc, nth_error fs (fst kb) with
                           | Some t1, Some (_, ft) =>
                               match deserialize ft (unhex (snd kb)) with
                               | Some val => set_field sha256 d t1 (fst kb) (Leaf (htr ft val))
                               | None => None
                               end
                           | _, _ => None
                           end) kvs (Some t) with
                  | Some t' => Some (firstn v s ++ t' :: skipn (S v) s)
                  | None => None
                  end
              | None => None
              end
          end in
      match next with
      | None => 1
      | Some s' => if gook && all_match d (length fs) s' ob then run_steps fs d s' rest else 2
      end
  end.

Definition judge_prog (c : pcase) : N :=
  match c with
  | CProg cfg name init steps =>
      match spec_ty cfg name with
      | Some (TContainer fs) =>
          match deserialize (TContainer fs) (unhex init) with
          | Some (VCont vs) =>
              let d := depth_for (length fs) in
              let t0 := build sha256 d (map Leaf (field_roots fs vs)) in
              (* the tree built from the field roots has the root of the state *)
              if bytes_eqb (root t0) (htr (TContainer fs) (VCont vs)) then run_steps fs d [t0] steps else 1
          | _ => 1
          end
      | _ => 1
      end
  end.

(* C15 cases: accessor programs, and single states judged like C05 (content and root of a live view) *)
Inductive c15case : Type :=
| CP (p : pcase)
| CS (s : scase)
| CGo (what : string) (ok : bool).   (* a comparison made on the Go side only: typed sub-view getter results against
                                        the stored bytes; the sibling-transition independence check *)
Definition judge15 (c : c15case) : N :=
  match c with CP p => judge_prog p | CS s => judge true s | CGo _ ok => if ok then 0 else 2 end.
Fixpoint mism15 (i : N) (cs : list c15case) : list (N * N) :=
  match cs with
  | [] => []
  | c :: cs' =>
      let r := judge15 c in
      if r =? 0 then mism15 (i + 1) cs' else (i, r) :: mism15 (i + 1) cs'
  end.
Definition mismatches_c15 (cs : list c15case) : list (N * N) := mism15 0 cs.
