(* Generic SimpleSerialize (SSZ): types, values, serialization, strict deserialization,
   merkleization / hash_tree_root.  Transliteration of consensus-specs ssz/simple-serialize.md.
   Definitions only (proofs live in Ssz/*Proofs.v); parametric in the hash function. *)
From Coq Require Import String.
From Coq Require Import NArith List Bool.
Import ListNotations.
Local Open Scope N_scope.

Definition bytes := list N.           (* each element < 256 *)

Inductive ty : Type :=
| TUint (nbytes : N)                  (* uint8 .. uint256 : nbytes in {1,2,4,8,16,32} *)
| TBool
| TByteVector (n : N)                 (* Vector[uint8, n] / BytesN *)
| TByteList (limit : N)               (* List[uint8, limit] *)
| TBitvector (n : N)
| TBitlist (limit : N)
| TVector (t : ty) (n : N)
| TList (t : ty) (limit : N)
| TContainer (fields : list (string * ty)).

Inductive value : Type :=
| VUint (n : N)
| VBool (b : bool)
| VBytes (bs : bytes)
| VBits (bs : list bool)
| VSeq (vs : list value)
| VCont (vs : list value).

(* ---------- byte helpers ---------- *)
Fixpoint le_bytes (n : nat) (v : N) : bytes :=
  match n with O => [] | S n' => (v mod 256) :: le_bytes n' (v / 256) end.
Fixpoint le_value (bs : bytes) : N :=
  match bs with [] => 0 | b :: bs' => b + 256 * le_value bs' end.
Definition uint32_bytes (v : N) : bytes := le_bytes 4 v.

Fixpoint bits_to_byte (bs : list bool) (w : N) : N :=
  match bs with [] => 0 | b :: bs' => (if b then w else 0) + bits_to_byte bs' (2 * w) end.
(* pack bits little-endian within each byte *)
Fixpoint pack_bits (fuel : nat) (bs : list bool) : bytes :=
  match fuel with
  | O => []
  | S f => match bs with
           | [] => []
           | _ => bits_to_byte (firstn 8 bs) 1 :: pack_bits f (skipn 8 bs)
           end
  end.
Definition bits_bytes (bs : list bool) : bytes := pack_bits (length bs) bs.
Fixpoint byte_bits (n : nat) (b : N) : list bool :=
  match n with O => [] | S n' => N.odd b :: byte_bits n' (b / 2) end.
Definition unpack_bits (bs : bytes) : list bool := flat_map (byte_bits 8) bs.

(* ---------- sizes ---------- *)
Definition BYTES_PER_LENGTH_OFFSET : N := 4.
Fixpoint fixed_size (t : ty) : option N :=
  match t with
  | TUint n => Some n
  | TBool => Some 1
  | TByteVector n => Some n
  | TByteList _ => None
  | TBitvector n => Some ((n + 7) / 8)
  | TBitlist _ => None
  | TVector t n => match fixed_size t with Some s => Some (s * n) | None => None end
  | TList _ _ => None
  | TContainer fs =>
      (fix go (fs : list (string * ty)) : option N :=
         match fs with
         | [] => Some 0
         | (_, t) :: fs' =>
             match fixed_size t, go fs' with
             | Some a, Some b => Some (a + b)
             | _, _ => None
             end
         end) fs
  end.
Definition is_fixed (t : ty) : bool := match fixed_size t with Some _ => true | None => false end.
(* size of the fixed part a field occupies inside its parent *)
Definition slot_size (t : ty) : N := match fixed_size t with Some s => s | None => BYTES_PER_LENGTH_OFFSET end.

(* ---------- serialize ---------- *)
Definition len_N {A} (l : list A) : N := N.of_nat (length l).

(* generic layout of a heterogeneous/homogeneous sequence of already-serialized parts *)
Fixpoint layout_fixed (parts : list (bool * bytes)) (off : N) : bytes :=
  match parts with
  | [] => []
  | (true, b) :: ps => b ++ layout_fixed ps off
  | (false, b) :: ps => uint32_bytes off ++ layout_fixed ps (off + len_N b)
  end.
Fixpoint layout_var (parts : list (bool * bytes)) : bytes :=
  match parts with
  | [] => []
  | (true, _) :: ps => layout_var ps
  | (false, b) :: ps => b ++ layout_var ps
  end.
Definition fixed_part_len (parts : list (bool * bytes)) : N :=
  fold_right (fun (p : bool * bytes) acc => (if fst p then len_N (snd p) else BYTES_PER_LENGTH_OFFSET) + acc) 0 parts.
Definition layout (parts : list (bool * bytes)) : bytes :=
  layout_fixed parts (fixed_part_len parts) ++ layout_var parts.

Fixpoint serialize (t : ty) (v : value) {struct t} : bytes :=
  match t, v with
  | TUint n, VUint x => le_bytes (N.to_nat n) x
  | TBool, VBool b => [if b then 1 else 0]
  | TByteVector _, VBytes bs => bs
  | TByteList _, VBytes bs => bs
  | TBitvector _, VBits bs => bits_bytes bs
  | TBitlist _, VBits bs => bits_bytes (bs ++ [true])
  | TVector et _, VSeq vs => layout (map (fun x => (is_fixed et, serialize et x)) vs)
  | TList et _, VSeq vs => layout (map (fun x => (is_fixed et, serialize et x)) vs)
  | TContainer fs, VCont vs =>
      layout ((fix go (fs : list (string * ty)) (vs : list value) : list (bool * bytes) :=
                 match fs, vs with
                 | (_, ft) :: fs', x :: vs' => (is_fixed ft, serialize ft x) :: go fs' vs'
                 | _, _ => []
                 end) fs vs)
  | _, _ => []
  end.

(* ---------- well-typed values ---------- *)
Fixpoint has_type (t : ty) (v : value) {struct t} : bool :=
  match t, v with
  | TUint n, VUint x => x <? 2 ^ (8 * n)
  | TBool, VBool _ => true
  | TByteVector n, VBytes bs => (len_N bs =? n) && forallb (fun b => b <? 256) bs
  | TByteList l, VBytes bs => (len_N bs <=? l) && forallb (fun b => b <? 256) bs
  | TBitvector n, VBits bs => len_N bs =? n
  | TBitlist l, VBits bs => len_N bs <=? l
  | TVector et n, VSeq vs => (len_N vs =? n) && forallb (has_type et) vs
  | TList et l, VSeq vs => (len_N vs <=? l) && forallb (has_type et) vs
  | TContainer fs, VCont vs =>
      (fix go (fs : list (string * ty)) (vs : list value) : bool :=
         match fs, vs with
         | [], [] => true
         | (_, ft) :: fs', x :: vs' => has_type ft x && go fs' vs'
         | _, _ => false
         end) fs vs
  | _, _ => false
  end.

(* ---------- deserialize (strict: canonical encodings only) ---------- *)
Definition slice (bs : bytes) (a b : N) : bytes := firstn (N.to_nat (b - a)) (skipn (N.to_nat a) bs).

Fixpoint chunks_of (fuel : nat) (sz : nat) (bs : bytes) : list bytes :=
  match fuel with
  | O => []
  | S f => match bs with [] => [] | _ => firstn sz bs :: chunks_of f sz (skipn sz bs) end
  end.

Fixpoint all_some {A} (l : list (option A)) : option (list A) :=
  match l with
  | [] => Some []
  | Some a :: l' => match all_some l' with Some r => Some (a :: r) | None => None end
  | None :: _ => None
  end.

(* offsets o_0 .. o_{k-1} (already read) delimit k variable parts ending at [total];
   valid iff o_0 = fixed length, nondecreasing, all <= total *)
Fixpoint offsets_ok (prev : N) (offs : list N) (total : N) : bool :=
  match offs with
  | [] => prev <=? total
  | o :: offs' => (prev <=? o) && offsets_ok o offs' total
  end.
Fixpoint cut (bs : bytes) (offs : list N) (total : N) : list bytes :=
  match offs with
  | [] => []
  | [o] => [slice bs o total]
  | o :: ((o' :: _) as offs') => slice bs o o' :: cut bs offs' total
  end.

(* highest set bit position of the last byte of a bitlist encoding *)
Definition bitlist_decode (bs : bytes) : option (list bool) :=
  match rev bs with
  | [] => None
  | last :: _ =>
      if last =? 0 then None
      else
        let nbits := (len_N bs - 1) * 8 + N.log2 last in   (* data bits *)
        Some (firstn (N.to_nat nbits) (unpack_bits bs))
  end.

Fixpoint deserialize (t : ty) (bs : bytes) {struct t} : option value :=
  match t with
  | TUint n => if len_N bs =? n then Some (VUint (le_value bs)) else None
  | TBool => match bs with [0] => Some (VBool false) | [1] => Some (VBool true) | _ => None end
  | TByteVector n => if len_N bs =? n then Some (VBytes bs) else None
  | TByteList l => if len_N bs <=? l then Some (VBytes bs) else None
  | TBitvector n =>
      if len_N bs =? (n + 7) / 8 then
        let bits := unpack_bits bs in
        if forallb negb (skipn (N.to_nat n) bits) then Some (VBits (firstn (N.to_nat n) bits)) else None
      else None
  | TBitlist l =>
      match bitlist_decode bs with
      | Some bits => if len_N bits <=? l then Some (VBits bits) else None
      | None => None
      end
  | TVector et n =>
      match fixed_size et with
      | Some sz =>
          if (len_N bs =? sz * n) && negb (n =? 0) then
            match all_some (map (deserialize et) (chunks_of (length bs) (N.to_nat sz) bs)) with
            | Some vs => Some (VSeq vs) | None => None end
          else None
      | None =>
          if (n =? 0) then None else
          let fixed_len := 4 * n in
          if len_N bs <? fixed_len then None else
          let offs := map le_value (chunks_of (N.to_nat fixed_len) 4 (firstn (N.to_nat fixed_len) bs)) in
          match offs with
          | o0 :: _ =>
              if (o0 =? fixed_len) && offsets_ok o0 offs (len_N bs) then
                match all_some (map (deserialize et) (cut bs offs (len_N bs))) with
                | Some vs => Some (VSeq vs) | None => None end
              else None
          | [] => None
          end
      end
  | TList et l =>
      match fixed_size et with
      | Some sz =>
          if (sz =? 0) then None else
          if (len_N bs mod sz =? 0) && (len_N bs / sz <=? l) then
            match all_some (map (deserialize et) (chunks_of (length bs) (N.to_nat sz) bs)) with
            | Some vs => Some (VSeq vs) | None => None end
          else None
      | None =>
          match bs with
          | [] => Some (VSeq [])
          | _ =>
              if len_N bs <? 4 then None else
              let o0 := le_value (firstn 4 bs) in
              if negb (o0 mod 4 =? 0) || (o0 =? 0) || (len_N bs <? o0) || (l <? o0 / 4) then None else
              let offs := map le_value (chunks_of (N.to_nat o0) 4 (firstn (N.to_nat o0) bs)) in
              if offsets_ok o0 offs (len_N bs) then
                match all_some (map (deserialize et) (cut bs offs (len_N bs))) with
                | Some vs => Some (VSeq vs) | None => None end
              else None
          end
      end
  | TContainer fs =>
      let fixed_len := fold_right (fun (f : string * ty) acc => slot_size (snd f) + acc) 0 fs in
      if len_N bs <? fixed_len then None else
      (* first pass: read fixed parts and offsets *)
      let fix scan (fs : list (string * ty)) (pos : N) : list (ty * option bytes * N) :=
          match fs with
          | [] => []
          | (_, ft) :: fs' =>
              match fixed_size ft with
              | Some sz => (ft, Some (slice bs pos (pos + sz)), 0) :: scan fs' (pos + sz)
              | None => (ft, None, le_value (slice bs pos (pos + 4))) :: scan fs' (pos + 4)
              end
          end in
      let items := scan fs 0 in
      let offs := flat_map (fun it => match it with (_, None, o) => [o] | _ => [] end) items in
      let offs_good :=
          match offs with
          | [] => len_N bs =? fixed_len
          | o0 :: _ => (o0 =? fixed_len) && offsets_ok o0 offs (len_N bs)
          end in
      if negb offs_good then None else
      let parts := cut bs offs (len_N bs) in
      let fix build (items : list (ty * option bytes * N)) (parts : list bytes)
                    (dec : list (ty -> bytes -> option value)) {struct items} : option (list value) :=
          match items, dec with
          | [], _ => Some []
          | (ft, Some b, _) :: items', d :: dec' =>
              match d ft b, build items' parts dec' with
              | Some v, Some r => Some (v :: r) | _, _ => None end
          | (ft, None, _) :: items', d :: dec' =>
              match parts with
              | p :: parts' =>
                  match d ft p, build items' parts' dec' with
                  | Some v, Some r => Some (v :: r) | _, _ => None end
              | [] => None
              end
          | _ :: _, [] => None
          end in
      (* per-field decoders obtained by structural recursion on the field list *)
      let decs := (fix mk (fs : list (string * ty)) : list (ty -> bytes -> option value) :=
                     match fs with
                     | [] => []
                     | (_, ft) :: fs' => (fun _ b => deserialize ft b) :: mk fs'
                     end) fs in
      match build items parts decs with
      | Some vs => Some (VCont vs)
      | None => None
      end
  end.

(* ---------- merkleization ---------- *)
Section Merkle.
  Variable H : bytes -> bytes.             (* 64 bytes -> 32 bytes *)
  Variable zero_hash : nat -> bytes.       (* zero_hash d = root of an all-zero tree of depth d *)

  Definition zero_chunk : bytes := repeat 0 32.
  Fixpoint zero_hash_rec (d : nat) : bytes :=
    match d with O => zero_chunk | S d' => let z := zero_hash_rec d' in H (z ++ z) end.

  (* root of [chunks] padded with zero chunks to 2^depth leaves *)
  Fixpoint merkle_tree (depth : nat) (chunks : list bytes) : bytes :=
    match depth with
    | O => match chunks with [] => zero_chunk | c :: _ => c end
    | S d =>
        match chunks with
        | [] => zero_hash depth
        | _ =>
            let half := 2 ^ N.of_nat d in
            if len_N chunks <=? half
            then H (merkle_tree d chunks ++ zero_hash d)
            else let k := N.to_nat half in
                 H (merkle_tree d (firstn k chunks) ++ merkle_tree d (skipn k chunks))
        end
    end.

  Definition depth_of (limit : N) : nat := N.to_nat (N.log2_up limit).
  Definition merkleize (chunks : list bytes) (limit : N) : bytes := merkle_tree (depth_of limit) chunks.
  Definition mix_in_length (root : bytes) (len : N) : bytes := H (root ++ le_bytes 32 len).

  Definition pad32 (bs : bytes) : bytes :=
    let r := Nat.modulo (length bs) 32 in if Nat.eqb r 0 then bs else bs ++ repeat 0 (Nat.sub 32 r).
  Definition pack_bytes (bs : bytes) : list bytes :=
    let p := pad32 bs in chunks_of (length p) 32 p.

  Definition is_basic (t : ty) : bool := match t with TUint _ | TBool => true | _ => false end.
  Definition basic_size (t : ty) : N := match t with TUint n => n | _ => 1 end.

  Fixpoint hash_tree_root (t : ty) (v : value) {struct t} : bytes :=
    match t, v with
    | TUint n, VUint x => le_bytes 32 x
    | TBool, VBool b => le_bytes 32 (if b then 1 else 0)
    | TByteVector n, VBytes bs => merkleize (pack_bytes bs) ((n + 31) / 32)
    | TByteList l, VBytes bs => mix_in_length (merkleize (pack_bytes bs) ((l + 31) / 32)) (len_N bs)
    | TBitvector n, VBits bs => merkleize (pack_bytes (bits_bytes bs)) ((n + 255) / 256)
    | TBitlist l, VBits bs => mix_in_length (merkleize (pack_bytes (bits_bytes bs)) ((l + 255) / 256)) (len_N bs)
    | TVector et n, VSeq vs =>
        if is_basic et
        then merkleize (pack_bytes (flat_map (serialize et) vs)) ((n * basic_size et + 31) / 32)
        else merkleize (map (hash_tree_root et) vs) n
    | TList et l, VSeq vs =>
        if is_basic et
        then mix_in_length (merkleize (pack_bytes (flat_map (serialize et) vs)) ((l * basic_size et + 31) / 32)) (len_N vs)
        else mix_in_length (merkleize (map (hash_tree_root et) vs) l) (len_N vs)
    | TContainer fs, VCont vs =>
        merkleize ((fix go (fs : list (string * ty)) (vs : list value) : list bytes :=
                      match fs, vs with
                      | (_, ft) :: fs', x :: vs' => hash_tree_root ft x :: go fs' vs'
                      | _, _ => []
                      end) fs vs) (len_N fs)
    | _, _ => zero_chunk
    end.
End Merkle.
