(* Generic SSZ theorems, for ALL types and ALL values (no bounds, no sampling).  Definitions are in SszCore.v. *)
From Coq Require Import String NArith ZArith List Bool Lia ZifyN ZifyNat ZifyBool Arith.
From V Require Import Ssz.SszCore.
Import ListNotations.
Local Open Scope N_scope.
Ltac Zify.zify_post_hook ::= Z.div_mod_to_equations.

(* ---------- induction principle for the nested type ---------- *)
Section TyInd.
  Variable P : ty -> Prop.
  Hypothesis HUint : forall n, P (TUint n).
  Hypothesis HBool : P TBool.
  Hypothesis HBV : forall n, P (TByteVector n).
  Hypothesis HBL : forall n, P (TByteList n).
  Hypothesis HBitV : forall n, P (TBitvector n).
  Hypothesis HBitL : forall n, P (TBitlist n).
  Hypothesis HVec : forall t n, P t -> P (TVector t n).
  Hypothesis HList : forall t n, P t -> P (TList t n).
  Hypothesis HCont : forall fs, Forall (fun f => P (snd f)) fs -> P (TContainer fs).
  Fixpoint ty_ind' (t : ty) : P t :=
    match t with
    | TUint n => HUint n
    | TBool => HBool
    | TByteVector n => HBV n
    | TByteList n => HBL n
    | TBitvector n => HBitV n
    | TBitlist n => HBitL n
    | TVector t n => HVec t n (ty_ind' t)
    | TList t n => HList t n (ty_ind' t)
    | TContainer fs =>
        HCont fs ((fix go (fs : list (string * ty)) : Forall (fun f => P (snd f)) fs :=
                     match fs with
                     | [] => Forall_nil _
                     | f :: fs' => Forall_cons f (ty_ind' (snd f)) (go fs')
                     end) fs)
    end.
End TyInd.

(* ---------- named versions of the local fixpoints ---------- *)
Fixpoint ser_fields (fs : list (string * ty)) (vs : list value) : list (bool * bytes) :=
  match fs, vs with
  | (_, ft) :: fs', x :: vs' => (is_fixed ft, serialize ft x) :: ser_fields fs' vs'
  | _, _ => []
  end.
Fixpoint type_fields (fs : list (string * ty)) (vs : list value) : bool :=
  match fs, vs with
  | [], [] => true
  | (_, ft) :: fs', x :: vs' => has_type ft x && type_fields fs' vs'
  | _, _ => false
  end.
Fixpoint size_fields (fs : list (string * ty)) : option N :=
  match fs with
  | [] => Some 0
  | (_, t) :: fs' => match fixed_size t, size_fields fs' with Some a, Some b => Some (a + b) | _, _ => None end
  end.
Lemma serialize_container fs vs : serialize (TContainer fs) (VCont vs) = layout (ser_fields fs vs).
Proof. reflexivity. Qed.
Lemma has_type_container fs vs : has_type (TContainer fs) (VCont vs) = type_fields fs vs.
Proof. reflexivity. Qed.
Lemma fixed_size_container fs : fixed_size (TContainer fs) = size_fields fs.
Proof. reflexivity. Qed.

(* ---------- lengths ---------- *)
Lemma len_N_app {A} (a b : list A) : len_N (a ++ b) = len_N a + len_N b.
Proof. unfold len_N. rewrite app_length. lia. Qed.
Lemma len_N_nil {A} : len_N (@nil A) = 0.
Proof. reflexivity. Qed.
Lemma len_N_cons {A} (x : A) l : len_N (x :: l) = 1 + len_N l.
Proof. unfold len_N. simpl length. lia. Qed.

Lemma le_bytes_length n v : length (le_bytes n v) = n.
Proof. revert v. induction n; intros; simpl; [reflexivity | now rewrite IHn]. Qed.

Lemma pack_bits_length : forall fuel bs, (length bs <= fuel)%nat ->
  length (pack_bits fuel bs) = ((length bs + 7) / 8)%nat.
Proof.
  induction fuel as [|f IH]; intros bs Hf.
  - destruct bs; simpl in *; [reflexivity | lia].
  - destruct bs as [|b bs']; [reflexivity|].
    cbn [pack_bits]. cbn [length]. rewrite IH.
    + rewrite skipn_length. cbn [length].
      destruct (Nat.le_gt_cases 8 (S (length bs'))).
      * replace (S (length bs') + 7)%nat with ((S (length bs') - 8 + 7) + 1 * 8)%nat by lia.
        rewrite Nat.div_add by lia. lia.
      * replace (S (length bs') - 8)%nat with 0%nat by lia.
        assert (((S (length bs') + 7) / 8 = 1)%nat).
        { symmetry. apply Nat.div_unique with (r := (length bs')); lia. }
        rewrite H0. reflexivity.
    + rewrite skipn_length. cbn [length] in *. lia.
Qed.
Lemma bits_bytes_length bs : length (bits_bytes bs) = ((length bs + 7) / 8)%nat.
Proof. apply pack_bits_length. lia. Qed.

(* all parts fixed: the layout is the plain concatenation *)
Definition all_fixed (parts : list (bool * bytes)) : bool := forallb fst parts.
Lemma layout_fixed_all_fixed parts off : all_fixed parts = true ->
  layout_fixed parts off = concat (map snd parts) /\ layout_var parts = [].
Proof.
  induction parts as [|[f b] ps IH]; intros H; simpl in *; [auto|].
  apply andb_true_iff in H as [Hf Hps]. subst f. destruct (IH Hps) as [A B]. now rewrite A, B.
Qed.
Lemma layout_all_fixed parts : all_fixed parts = true -> layout parts = concat (map snd parts).
Proof.
  intros H. unfold layout. destruct (layout_fixed_all_fixed parts (fixed_part_len parts) H) as [A B].
  rewrite A, B. apply app_nil_r.
Qed.

Lemma is_fixed_Some t n : fixed_size t = Some n -> is_fixed t = true.
Proof. unfold is_fixed. now intros ->. Qed.

Theorem ser_length : forall t v n,
  fixed_size t = Some n -> has_type t v = true -> len_N (serialize t v) = n.
Proof.
  induction t using ty_ind'; intros v m Hs Ht.
  - (* uint *) destruct v; try discriminate. simpl in *. injection Hs as <-.
    unfold len_N. rewrite le_bytes_length. lia.
  - destruct v; try discriminate. simpl in *. injection Hs as <-. reflexivity.
  - destruct v; try discriminate. simpl in *. injection Hs as <-.
    apply andb_true_iff in Ht as [Ht _]. now apply N.eqb_eq in Ht.
  - discriminate.
  - destruct v; try discriminate. simpl in *. injection Hs as <-.
    apply N.eqb_eq in Ht. unfold len_N in *. rewrite bits_bytes_length.
    subst n. rewrite Nat2N.inj_div, Nat2N.inj_add. reflexivity.
  - discriminate.
  - (* vector *)
    destruct v; try discriminate. cbn [fixed_size] in Hs.
    destruct (fixed_size t) as [s|] eqn:Es; [|discriminate]. injection Hs as <-.
    cbn [has_type] in Ht. apply andb_true_iff in Ht as [Hl Hall]. apply N.eqb_eq in Hl.
    cbn [serialize]. rewrite layout_all_fixed.
    2:{ unfold all_fixed. rewrite forallb_forall. intros x Hx. apply in_map_iff in Hx as [y [<- _]].
        simpl. eapply is_fixed_Some; eauto. }
    rewrite map_map. cbn [snd]. subst n. clear -IHt Es Hall.
    induction vs as [|x vs IH]; [simpl; unfold len_N; simpl; lia|].
    cbn [forallb] in Hall. apply andb_true_iff in Hall as [Hx Hall].
    cbn [map concat]. rewrite len_N_app, (IHt x s eq_refl Hx), (IH Hall), len_N_cons. lia.
  - discriminate.
  - (* container *)
    destruct v; try discriminate.
    rewrite fixed_size_container in Hs. rewrite has_type_container in Ht. rewrite serialize_container.
    assert (Hfix : all_fixed (ser_fields fs vs) = true /\ len_N (concat (map snd (ser_fields fs vs))) = m).
    { revert vs m Hs Ht. induction H as [|[fn ft] fs' Hf Hfs IH]; intros vs m Hs Ht.
      - destruct vs; [|discriminate]. simpl in *. injection Hs as <-. auto.
      - destruct vs as [|x vs]; [discriminate|]. cbn [size_fields] in Hs. cbn [type_fields] in Ht.
        destruct (fixed_size ft) as [a|] eqn:Ea; [|discriminate].
        destruct (size_fields fs') as [b|] eqn:Eb; [|discriminate]. injection Hs as <-.
        apply andb_true_iff in Ht as [Hx Hvs].
        destruct (IH vs b eq_refl Hvs) as [A B]. cbn [ser_fields all_fixed forallb fst map snd concat].
        split.
        + unfold all_fixed in A. rewrite A. rewrite (is_fixed_Some _ _ Ea). reflexivity.
        + rewrite len_N_app, B. cbn [snd] in Hf. rewrite (Hf x a Ea Hx). reflexivity. }
    destruct Hfix as [A B]. rewrite layout_all_fixed; assumption.
Qed.
