(* Generic SSZ theorems, for ALL types and ALL values (no bounds, no sampling).  Definitions are in SszCore.v. *)
From Coq Require Import String NArith ZArith List Bool Lia ZifyN ZifyNat ZifyBool Arith.
From V Require Import Ssz.SszCore.
Import ListNotations.
Local Open Scope N_scope.
Ltac Zify.zify_post_hook ::= Z.div_mod_to_equations.

(* ---------- induction principle for the nested type ---------- *)
Section TyInd.
  Variable P : ty -> Prop.
  Hypothesis HUint : forall n, P (TUint n).
  Hypothesis HBool : P TBool.
  Hypothesis HBV : forall n, P (TByteVector n).
  Hypothesis HBL : forall n, P (TByteList n).
  Hypothesis HBitV : forall n, P (TBitvector n).
  Hypothesis HBitL : forall n, P (TBitlist n).
  Hypothesis HVec : forall t n, P t -> P (TVector t n).
  Hypothesis HList : forall t n, P t -> P (TList t n).
  Hypothesis HCont : forall fs, Forall (fun f => P (snd f)) fs -> P (TContainer fs).
  Fixpoint ty_ind' (t : ty) : P t :=
    match t with
    | TUint n => HUint n
    | TBool => HBool
    | TByteVector n => HBV n
    | TByteList n => HBL n
    | TBitvector n => HBitV n
    | TBitlist n => HBitL n
    | TVector t n => HVec t n (ty_ind' t)
    | TList t n => HList t n (ty_ind' t)
    | TContainer fs =>
        HCont fs ((fix go (fs : list (string * ty)) : Forall (fun f => P (snd f)) fs :=
                     match fs with
                     | [] => Forall_nil _
                     | f :: fs' => Forall_cons f (ty_ind' (snd f)) (go fs')
                     end) fs)
    end.
End TyInd.

(* ---------- named versions of the local fixpoints ---------- *)
Fixpoint ser_fields (fs : list (string * ty)) (vs : list value) : list (bool * bytes) :=
  match fs, vs with
  | (_, ft) :: fs', x :: vs' => (is_fixed ft, serialize ft x) :: ser_fields fs' vs'
  | _, _ => []
  end.
Fixpoint type_fields (fs : list (string * ty)) (vs : list value) : bool :=
  match fs, vs with
  | [], [] => true
  | (_, ft) :: fs', x :: vs' => has_type ft x && type_fields fs' vs'
  | _, _ => false
  end.
Fixpoint size_fields (fs : list (string * ty)) : option N :=
  match fs with
  | [] => Some 0
  | (_, t) :: fs' => match fixed_size t, size_fields fs' with Some a, Some b => Some (a + b) | _, _ => None end
  end.
Lemma serialize_container fs vs : serialize (TContainer fs) (VCont vs) = layout (ser_fields fs vs).
Proof. reflexivity. Qed.
Lemma has_type_container fs vs : has_type (TContainer fs) (VCont vs) = type_fields fs vs.
Proof. reflexivity. Qed.
Lemma fixed_size_container fs : fixed_size (TContainer fs) = size_fields fs.
Proof. reflexivity. Qed.

(* ---------- lengths ---------- *)
Lemma len_N_app {A} (a b : list A) : len_N (a ++ b) = len_N a + len_N b.
Proof. unfold len_N. rewrite app_length. lia. Qed.
Lemma len_N_nil {A} : len_N (@nil A) = 0.
Proof. reflexivity. Qed.
Lemma len_N_cons {A} (x : A) l : len_N (x :: l) = 1 + len_N l.
Proof. unfold len_N. simpl length. lia. Qed.

Lemma le_bytes_length n v : length (le_bytes n v) = n.
Proof. revert v. induction n; intros; simpl; [reflexivity | now rewrite IHn]. Qed.

Lemma pack_bits_length : forall fuel bs, (length bs <= fuel)%nat ->
  length (pack_bits fuel bs) = ((length bs + 7) / 8)%nat.
Proof.
  induction fuel as [|f IH]; intros bs Hf.
  - destruct bs; simpl in *; [reflexivity | lia].
  - destruct bs as [|b bs']; [reflexivity|].
    cbn [pack_bits]. cbn [length]. rewrite IH.
    + rewrite skipn_length. cbn [length].
      destruct (Nat.le_gt_cases 8 (S (length bs'))).
      * replace (S (length bs') + 7)%nat with ((S (length bs') - 8 + 7) + 1 * 8)%nat by lia.
        rewrite Nat.div_add by lia. lia.
      * replace (S (length bs') - 8)%nat with 0%nat by lia.
        assert (((S (length bs') + 7) / 8 = 1)%nat).
        { symmetry. apply Nat.div_unique with (r := (length bs')); lia. }
        rewrite H0. reflexivity.
    + rewrite skipn_length. cbn [length] in *. lia.
Qed.
Lemma bits_bytes_length bs : length (bits_bytes bs) = ((length bs + 7) / 8)%nat.
Proof. apply pack_bits_length. lia. Qed.

(* all parts fixed: the layout is the plain concatenation *)
Definition all_fixed (parts : list (bool * bytes)) : bool := forallb fst parts.
Lemma layout_fixed_all_fixed parts off : all_fixed parts = true ->
  layout_fixed parts off = concat (map snd parts) /\ layout_var parts = [].
Proof.
  induction parts as [|[f b] ps IH]; intros H; simpl in *; [auto|].
  apply andb_true_iff in H as [Hf Hps]. subst f. destruct (IH Hps) as [A B]. now rewrite A, B.
Qed.
Lemma layout_all_fixed parts : all_fixed parts = true -> layout parts = concat (map snd parts).
Proof.
  intros H. unfold layout. destruct (layout_fixed_all_fixed parts (fixed_part_len parts) H) as [A B].
  rewrite A, B. apply app_nil_r.
Qed.

Lemma is_fixed_Some t n : fixed_size t = Some n -> is_fixed t = true.
Proof. unfold is_fixed. now intros ->. Qed.

Theorem ser_length : forall t v n,
  fixed_size t = Some n -> has_type t v = true -> len_N (serialize t v) = n.
Proof.
  induction t using ty_ind'; intros v m Hs Ht.
  - (* uint *) destruct v; try discriminate. simpl in *. injection Hs as <-.
    unfold len_N. rewrite le_bytes_length. lia.
  - destruct v; try discriminate. simpl in *. injection Hs as <-. reflexivity.
  - destruct v; try discriminate. simpl in *. injection Hs as <-.
    apply andb_true_iff in Ht as [Ht _]. now apply N.eqb_eq in Ht.
  - discriminate.
  - destruct v; try discriminate. simpl in *. injection Hs as <-.
    apply N.eqb_eq in Ht. unfold len_N in *. rewrite bits_bytes_length.
    subst n. rewrite Nat2N.inj_div, Nat2N.inj_add. reflexivity.
  - discriminate.
  - (* vector *)
    destruct v; try discriminate. cbn [fixed_size] in Hs.
    destruct (fixed_size t) as [s|] eqn:Es; [|discriminate]. injection Hs as <-.
    cbn [has_type] in Ht. apply andb_true_iff in Ht as [Hl Hall]. apply N.eqb_eq in Hl.
    cbn [serialize]. rewrite layout_all_fixed.
    2:{ unfold all_fixed. rewrite forallb_forall. intros x Hx. apply in_map_iff in Hx as [y [<- _]].
        simpl. eapply is_fixed_Some; eauto. }
    rewrite map_map. cbn [snd]. subst n. clear -IHt Es Hall.
    induction vs as [|x vs IH]; [simpl; unfold len_N; simpl; lia|].
    cbn [forallb] in Hall. apply andb_true_iff in Hall as [Hx Hall].
    cbn [map concat]. rewrite len_N_app, (IHt x s eq_refl Hx), (IH Hall), len_N_cons. lia.
  - discriminate.
  - (* container *)
    destruct v; try discriminate.
    rewrite fixed_size_container in Hs. rewrite has_type_container in Ht. rewrite serialize_container.
    assert (Hfix : all_fixed (ser_fields fs vs) = true /\ len_N (concat (map snd (ser_fields fs vs))) = m).
    { revert vs m Hs Ht. induction H as [|[fn ft] fs' Hf Hfs IH]; intros vs m Hs Ht.
      - destruct vs; [|discriminate]. simpl in *. injection Hs as <-. auto.
      - destruct vs as [|x vs]; [discriminate|]. cbn [size_fields] in Hs. cbn [type_fields] in Ht.
        destruct (fixed_size ft) as [a|] eqn:Ea; [|discriminate].
        destruct (size_fields fs') as [b|] eqn:Eb; [|discriminate]. injection Hs as <-.
        apply andb_true_iff in Ht as [Hx Hvs].
        destruct (IH vs b eq_refl Hvs) as [A B]. cbn [ser_fields all_fixed forallb fst map snd concat].
        split.
        + unfold all_fixed in A. rewrite A. rewrite (is_fixed_Some _ _ Ea). reflexivity.
        + rewrite len_N_app, B. cbn [snd] in Hf. rewrite (Hf x a Ea Hx). reflexivity. }
    destruct Hfix as [A B]. rewrite layout_all_fixed; assumption.
Qed.

(* ================= leaf round trips ================= *)
Lemma to_nat_len_N {A} (l : list A) : N.to_nat (len_N l) = length l.
Proof. unfold len_N. apply Nat2N.id. Qed.

Lemma le_value_le_bytes : forall n v, le_value (le_bytes n v) = v mod 256 ^ N.of_nat n.
Proof.
  induction n as [|n IH]; intros v.
  - simpl. now rewrite N.mod_1_r.
  - cbn [le_bytes le_value]. rewrite IH.
    rewrite Nat2N.inj_succ, N.pow_succ_r'.
    rewrite N.mod_mul_r; [reflexivity | lia | apply N.pow_nonzero; lia].
Qed.

Lemma pow256 n : 256 ^ n = 2 ^ (8 * n).
Proof. rewrite N.pow_mul_r. reflexivity. Qed.

Lemma deser_ser_uint n x : has_type (TUint n) (VUint x) = true ->
  deserialize (TUint n) (serialize (TUint n) (VUint x)) = Some (VUint x).
Proof.
  cbn [has_type serialize deserialize]. intros Hx. apply N.ltb_lt in Hx.
  unfold len_N. rewrite le_bytes_length, N2Nat.id, N.eqb_refl.
  rewrite le_value_le_bytes, N2Nat.id, pow256. now rewrite N.mod_small.
Qed.

Lemma deser_ser_bool b : deserialize TBool (serialize TBool (VBool b)) = Some (VBool b).
Proof. destruct b; reflexivity. Qed.

(* ---- bits ---- *)
Lemma bits_to_byte_scale : forall c w, bits_to_byte c w = w * bits_to_byte c 1.
Proof.
  induction c as [|b c IH]; intros w; cbn [bits_to_byte]; [lia|].
  rewrite (IH (2 * w)), (IH (2 * 1)). destruct b; lia.
Qed.
Lemma byte_bits_zero k : byte_bits k 0 = repeat false k.
Proof.
  induction k; cbn [byte_bits repeat]; [reflexivity|].
  change (0 / 2) with 0. change (N.odd 0) with false. now rewrite IHk.
Qed.
Lemma byte_bits_bits_to_byte : forall k c, (length c <= k)%nat ->
  byte_bits k (bits_to_byte c 1) = c ++ repeat false (k - length c).
Proof.
  induction k as [|k IH]; intros c Hc.
  - destruct c; [reflexivity | simpl in Hc; lia].
  - destruct c as [|b c].
    + change (bits_to_byte [] 1) with 0. rewrite byte_bits_zero. reflexivity.
    + cbn [bits_to_byte byte_bits length app]. rewrite (bits_to_byte_scale c (2 * 1)).
      assert (Hodd : N.odd ((if b then 1 else 0) + 2 * 1 * bits_to_byte c 1) = b).
      { replace (2 * 1 * bits_to_byte c 1) with (2 * bits_to_byte c 1) by lia.
        rewrite N.odd_add_mul_2. destruct b; reflexivity. }
      rewrite Hodd. f_equal.
      assert (Hdiv : ((if b then 1 else 0) + 2 * 1 * bits_to_byte c 1) / 2 = bits_to_byte c 1).
      { destruct b; [|].
        - replace (1 + 2 * 1 * bits_to_byte c 1) with (1 + bits_to_byte c 1 * 2) by lia.
          rewrite N.div_add by lia. reflexivity.
        - replace (0 + 2 * 1 * bits_to_byte c 1) with (bits_to_byte c 1 * 2) by lia. now rewrite N.div_mul by lia. }
      rewrite Hdiv. apply IH. simpl in Hc. lia.
Qed.

Lemma unpack_pack_bits : forall fuel bs, (length bs <= fuel)%nat ->
  exists pad, unpack_bits (pack_bits fuel bs) = bs ++ repeat false pad.
Proof.
  induction fuel as [|f IH]; intros bs Hf.
  - destruct bs; [exists 0%nat; reflexivity | simpl in Hf; lia].
  - destruct bs as [|b bs']; [exists 0%nat; reflexivity|].
    set (bs := b :: bs') in *. cbn [pack_bits]. unfold bs at 1. fold bs.
    unfold unpack_bits. cbn [flat_map]. fold (unpack_bits (pack_bits f (skipn 8 bs))).
    rewrite byte_bits_bits_to_byte by (rewrite firstn_length; lia).
    destruct (Nat.le_gt_cases 8 (length bs)) as [Hge|Hlt].
    + destruct (IH (skipn 8 bs)) as [pad Hp]; [rewrite skipn_length; lia|].
      exists pad. rewrite Hp. rewrite firstn_length. replace (8 - Nat.min 8 (length bs))%nat with 0%nat by lia.
      cbn [repeat]. rewrite app_nil_r, app_assoc, firstn_skipn. reflexivity.
    + rewrite firstn_all2 by lia. rewrite skipn_all2 by lia.
      destruct f; cbn [pack_bits flat_map unpack_bits]; exists (8 - length bs)%nat; now rewrite app_nil_r.
Qed.

Lemma firstn_app_exact {A} (a b : list A) : firstn (length a) (a ++ b) = a.
Proof. rewrite firstn_app, Nat.sub_diag, firstn_all. cbn [firstn]. apply app_nil_r. Qed.
Lemma skipn_app_exact {A} (a b : list A) : skipn (length a) (a ++ b) = b.
Proof. rewrite skipn_app, Nat.sub_diag, skipn_all. reflexivity. Qed.
Lemma forallb_negb_repeat n : forallb negb (repeat false n) = true.
Proof. induction n; simpl; auto. Qed.

Lemma deser_ser_bitvector n bs : has_type (TBitvector n) (VBits bs) = true ->
  deserialize (TBitvector n) (serialize (TBitvector n) (VBits bs)) = Some (VBits bs).
Proof.
  cbn [has_type serialize deserialize]. intros Hn. apply N.eqb_eq in Hn.
  assert (Hl : len_N (bits_bytes bs) = (n + 7) / 8).
  { unfold len_N in *. rewrite bits_bytes_length. subst n. rewrite Nat2N.inj_div, Nat2N.inj_add. reflexivity. }
  rewrite Hl, N.eqb_refl.
  destruct (unpack_pack_bits (length bs) bs (le_n _)) as [pad Hp]. fold (bits_bytes bs) in Hp. rewrite Hp.
  subst n. rewrite to_nat_len_N, skipn_app_exact, firstn_app_exact, forallb_negb_repeat. reflexivity.
Qed.

(* ---- bitlists ---- *)
Lemma pack_bits_nil f : pack_bits f [] = [].
Proof. destruct f; reflexivity. Qed.

Lemma bits_to_byte_app : forall a b w,
  bits_to_byte (a ++ b) w = bits_to_byte a w + bits_to_byte b (w * 2 ^ N.of_nat (length a)).
Proof.
  induction a as [|x a IH]; intros b w.
  - cbn [app length bits_to_byte]. change (N.of_nat 0) with 0. rewrite N.pow_0_r, N.mul_1_r. lia.
  - cbn [app bits_to_byte length]. rewrite IH. rewrite Nat2N.inj_succ, N.pow_succ_r'.
    replace (2 * w * 2 ^ N.of_nat (length a)) with (w * (2 * 2 ^ N.of_nat (length a))) by lia. lia.
Qed.
Lemma bits_to_byte_lt : forall c, bits_to_byte c 1 < 2 ^ N.of_nat (length c).
Proof.
  induction c as [|b c IH]; [cbn; lia|].
  cbn [bits_to_byte length]. rewrite (bits_to_byte_scale c (2 * 1)), Nat2N.inj_succ, N.pow_succ_r'.
  destruct b; lia.
Qed.

Lemma pack_delim : forall fuel bs, (length bs + 1 <= fuel)%nat ->
  exists P c, pack_bits fuel (bs ++ [true]) = P ++ [bits_to_byte (c ++ [true]) 1] /\
              length bs = (8 * length P + length c)%nat /\ (length c < 8)%nat.
Proof.
  induction fuel as [|f IH]; intros bs Hf; [lia|].
  destruct (Nat.lt_ge_cases (length bs) 8) as [Hlt|Hge].
  - exists [], bs. split; [|simpl; lia].
    assert (Hne : bs ++ [true] <> []) by (destruct bs; discriminate).
    cbn [pack_bits]. destruct (bs ++ [true]) as [|y ys] eqn:E; [contradiction|]. rewrite <- E.
    rewrite firstn_all2 by (rewrite app_length; simpl; lia).
    rewrite skipn_all2 by (rewrite app_length; simpl; lia).
    now rewrite pack_bits_nil.
  - destruct (IH (skipn 8 bs)) as [P [c [Hp [Hl Hc]]]]; [rewrite skipn_length; lia|].
    exists (bits_to_byte (firstn 8 bs) 1 :: P), c. split; [|split; [|assumption]].
    + cbn [pack_bits]. destruct (bs ++ [true]) as [|y ys] eqn:E; [destruct bs; discriminate|]. rewrite <- E.
      rewrite firstn_app, skipn_app. replace (8 - length bs)%nat with 0%nat by lia.
      change (firstn 0 [true]) with (@nil bool). change (skipn 0 [true]) with [true]. rewrite app_nil_r.
      rewrite Hp. reflexivity.
    + rewrite skipn_length in Hl. cbn [length]. lia.
Qed.

Lemma deser_ser_bitlist l bs : has_type (TBitlist l) (VBits bs) = true ->
  deserialize (TBitlist l) (serialize (TBitlist l) (VBits bs)) = Some (VBits bs).
Proof.
  cbn [has_type serialize deserialize]. intros Hl.
  assert (Hdec : bitlist_decode (bits_bytes (bs ++ [true])) = Some bs).
  { unfold bitlist_decode, bits_bytes.
    destruct (pack_delim (length (bs ++ [true])) bs) as [P [c [Hp [Hlen Hc]]]]; [rewrite app_length; simpl; lia|].
    destruct (unpack_pack_bits (length (bs ++ [true])) (bs ++ [true]) (le_n _)) as [pad Hu].
    rewrite Hu. rewrite Hp. rewrite rev_app_distr. cbn [rev app].
    set (last := bits_to_byte (c ++ [true]) 1).
    assert (Hlast : last = bits_to_byte c 1 + 2 ^ N.of_nat (length c)).
    { unfold last. rewrite bits_to_byte_app. cbn [bits_to_byte]. lia. }
    pose proof (bits_to_byte_lt c) as Hlt.
    assert (Hpos : 0 < 2 ^ N.of_nat (length c)) by (apply N.neq_0_lt_0, N.pow_nonzero; lia).
    assert (Hlog : N.log2 last = N.of_nat (length c)).
    { apply N.log2_unique; [lia|]. rewrite N.pow_succ_r'. lia. }
    assert (Hnz : (last =? 0) = false) by (apply N.eqb_neq; lia).
    rewrite Hnz, Hlog.
    replace (N.to_nat ((len_N (P ++ [last]) - 1) * 8 + N.of_nat (length c))) with (length bs).
    2:{ unfold len_N. rewrite app_length. cbn [length]. lia. }
    rewrite <- app_assoc. now rewrite firstn_app_exact. }
  rewrite Hdec. now rewrite Hl.
Qed.

Lemma deser_ser_bytevector n bs : has_type (TByteVector n) (VBytes bs) = true ->
  deserialize (TByteVector n) (serialize (TByteVector n) (VBytes bs)) = Some (VBytes bs).
Proof.
  cbn [has_type serialize deserialize]. intros H. apply andb_true_iff in H as [H _]. now rewrite H.
Qed.
Lemma deser_ser_bytelist n bs : has_type (TByteList n) (VBytes bs) = true ->
  deserialize (TByteList n) (serialize (TByteList n) (VBytes bs)) = Some (VBytes bs).
Proof.
  cbn [has_type serialize deserialize]. intros H. apply andb_true_iff in H as [H _]. now rewrite H.
Qed.

(* ================= layout machinery ================= *)
Definition var_parts (parts : list (bool * bytes)) : list bytes :=
  flat_map (fun p : bool * bytes => if fst p then [] else [snd p]) parts.
(* offsets given to the variable parts, starting at [off] *)
Fixpoint offs_of (parts : list (bool * bytes)) (off : N) : list N :=
  match parts with
  | [] => []
  | (true, _) :: ps => offs_of ps off
  | (false, b) :: ps => off :: offs_of ps (off + len_N b)
  end.
Fixpoint running (off : N) (vs : list bytes) : list N :=
  match vs with [] => [] | v :: vs' => off :: running (off + len_N v) vs' end.

Lemma offs_of_running parts off : offs_of parts off = running off (var_parts parts).
Proof.
  revert off. induction parts as [|[f b] ps IH]; intros off; [reflexivity|].
  destruct f; cbn [offs_of var_parts flat_map fst snd app]; [apply IH|].
  cbn [running]. f_equal. apply IH.
Qed.
Lemma layout_var_concat parts : layout_var parts = concat (var_parts parts).
Proof.
  induction parts as [|[f b] ps IH]; [reflexivity|].
  destruct f; cbn [layout_var var_parts flat_map fst snd app concat]; [apply IH | now rewrite IH].
Qed.
Lemma layout_fixed_len parts off : len_N (layout_fixed parts off) = fixed_part_len parts.
Proof.
  revert off. induction parts as [|[f b] ps IH]; intros off; [reflexivity|].
  destruct f; cbn [layout_fixed fixed_part_len fold_right fst snd].
  - rewrite len_N_app, IH. reflexivity.
  - rewrite len_N_app, IH. unfold uint32_bytes, len_N at 1. rewrite le_bytes_length. reflexivity.
Qed.

(* slicing *)
Lemma slice_mid (A B C : bytes) : slice (A ++ B ++ C) (len_N A) (len_N A + len_N B) = B.
Proof.
  unfold slice. rewrite to_nat_len_N, skipn_app_exact.
  replace (len_N A + len_N B - len_N A) with (len_N B) by lia.
  rewrite to_nat_len_N. apply firstn_app_exact.
Qed.
Lemma slice_mid' (A B C : bytes) a b : a = len_N A -> b = len_N A + len_N B -> slice (A ++ B ++ C) a b = B.
Proof. intros -> ->. apply slice_mid. Qed.

(* cutting the variable region back into the parts *)
Lemma cut_running : forall (vs : list bytes) (X : bytes),
  vs <> [] ->
  cut (X ++ concat vs) (running (len_N X) vs) (len_N X + len_N (concat vs)) = vs.
Proof.
  induction vs as [|v vs IH]; intros X Hne; [contradiction|].
  destruct vs as [|v' vs'].
  - cbn [running cut concat]. rewrite app_nil_r. f_equal.
    rewrite <- (app_nil_r (X ++ v)), <- app_assoc. apply slice_mid.
  - cbn [running]. cbn [cut]. cbn [concat]. f_equal.
    + apply slice_mid.
    + specialize (IH (X ++ v)). rewrite len_N_app in IH. cbn [running concat] in IH.
      rewrite <- app_assoc in IH. rewrite len_N_app. rewrite N.add_assoc.
      apply IH. discriminate.
Qed.

Lemma offsets_ok_running : forall vs off total,
  off + len_N (concat vs) = total ->
  offsets_ok off (running off vs) total = true.
Proof.
  induction vs as [|v vs IH]; intros off total Ht.
  - cbn [running offsets_ok]. cbn [concat] in Ht. rewrite len_N_nil in Ht. apply N.leb_le. lia.
  - cbn [running offsets_ok]. rewrite N.leb_refl. cbn [andb].
    destruct vs as [|v' vs'].
    + cbn [running offsets_ok]. cbn [concat] in Ht. rewrite app_nil_r in Ht. apply N.leb_le. lia.
    + cbn [concat] in Ht. rewrite len_N_app in Ht.
      specialize (IH (off + len_N v) total). cbn [running] in IH |- *. cbn [offsets_ok] in IH |- *.
      assert (Hle : (off <=? off + len_N v) = true) by (apply N.leb_le; lia).
      rewrite Hle. cbn [andb]. assert (Ht' : off + len_N v + len_N (concat (v' :: vs')) = total) by (cbn [concat]; rewrite len_N_app; rewrite len_N_app in Ht; lia).
      apply IH in Ht'. apply andb_true_iff in Ht' as [_ Ht']. exact Ht'.
Qed.

(* ================= well-formed types ================= *)
Fixpoint wf_ty (t : ty) : bool :=
  match t with
  | TUint n => 0 <? n
  | TBool => true
  | TByteVector n => 0 <? n
  | TByteList _ => true
  | TBitvector n => 0 <? n
  | TBitlist _ => true
  | TVector et n => (0 <? n) && wf_ty et && is_fixed et     (* the specifications use no vector of variable-size elements *)
  | TList et _ => wf_ty et
  | TContainer fs =>
      match fs with [] => false | _ => true end &&
      (fix go (fs : list (string * ty)) : bool :=
         match fs with [] => true | (_, t) :: fs' => wf_ty t && go fs' end) fs
  end.
Fixpoint wf_fields (fs : list (string * ty)) : bool :=
  match fs with [] => true | (_, t) :: fs' => wf_ty t && wf_fields fs' end.
Lemma wf_ty_container fs : wf_ty (TContainer fs) = match fs with [] => false | _ => true end && wf_fields fs.
Proof. reflexivity. Qed.

Lemma wf_fixed_pos : forall t s, wf_ty t = true -> fixed_size t = Some s -> 0 < s.
Proof.
  induction t using ty_ind'; intros s Hw Hs.
  - cbn [wf_ty fixed_size] in *. injection Hs as <-. now apply N.ltb_lt in Hw.
  - cbn [wf_ty fixed_size] in *. injection Hs as <-. lia.
  - cbn [wf_ty fixed_size] in *. injection Hs as <-. now apply N.ltb_lt in Hw.
  - discriminate.
  - cbn [wf_ty fixed_size] in *. injection Hs as <-. apply N.ltb_lt in Hw.
    assert (H8 : 8 <= n + 7) by lia. pose proof (N.div_le_mono 8 (n + 7) 8 ltac:(lia) H8) as H0.
    change (8 / 8) with 1 in H0. lia.
  - discriminate.
  - cbn [wf_ty fixed_size] in *.
    apply andb_true_iff in Hw as [Hw Hf]. apply andb_true_iff in Hw as [Hn Hw]. apply N.ltb_lt in Hn.
    destruct (fixed_size t) as [a|] eqn:E; [|discriminate]. injection Hs as <-.
    specialize (IHt a Hw eq_refl). nia.
  - discriminate.
  - rewrite wf_ty_container in Hw. rewrite fixed_size_container in Hs.
    apply andb_true_iff in Hw as [Hne Hw].
    destruct fs as [|[fn ft] fs']; [discriminate|].
    inversion H as [|? ? Hft Hrest]; subst. cbn [wf_fields size_fields] in *.
    apply andb_true_iff in Hw as [Hwt _].
    destruct (fixed_size ft) as [a|] eqn:Ea; [|discriminate].
    destruct (size_fields fs') as [b|]; [|discriminate]. injection Hs as <-.
    cbn [snd] in Hft. specialize (Hft a Hwt Ea). lia.
Qed.

(* ================= homogeneous sequences of fixed-size elements ================= *)
Lemma all_some_map_ok {A B} (f : B -> option A) (g : A -> B) (vs : list A) :
  (forall x, In x vs -> f (g x) = Some x) -> all_some (map f (map g vs)) = Some vs.
Proof.
  induction vs as [|x vs IH]; intros Hf; [reflexivity|].
  cbn [map all_some]. rewrite (Hf x (or_introl eq_refl)). rewrite IH; [reflexivity|].
  intros y Hy. apply Hf. now right.
Qed.

Lemma chunks_of_concat : forall (xs : list bytes) sz fuel,
  (0 < sz)%nat -> Forall (fun x => length x = sz) xs -> (length xs <= fuel)%nat ->
  chunks_of fuel sz (concat xs) = xs.
Proof.
  induction xs as [|x xs IH]; intros sz fuel Hsz Hall Hf.
  - destruct fuel; reflexivity.
  - inversion Hall as [|? ? Hx Hxs]; subst. destruct fuel as [|f]; [simpl in Hf; lia|].
    cbn [concat chunks_of]. destruct (x ++ concat xs) as [|y ys] eqn:E.
    + destruct x; [simpl in Hsz; lia | discriminate].
    + rewrite <- E. rewrite firstn_app_exact, skipn_app_exact. f_equal. apply IH; auto. simpl in Hf. lia.
Qed.

Lemma len_concat_fixed : forall (xs : list bytes) s, Forall (fun x => len_N x = s) xs -> len_N (concat xs) = s * len_N xs.
Proof.
  induction xs as [|x xs IH]; intros s Hall; [cbn; unfold len_N; simpl; lia|].
  inversion Hall; subst. cbn [concat]. rewrite len_N_app, (IH _ H2), len_N_cons. lia.
Qed.

Lemma serialize_seq_fixed et vs s :
  fixed_size et = Some s ->
  layout (map (fun x => (is_fixed et, serialize et x)) vs) = concat (map (serialize et) vs).
Proof.
  intros Es. rewrite layout_all_fixed.
  - now rewrite map_map.
  - unfold all_fixed. rewrite forallb_forall. intros x Hx. apply in_map_iff in Hx as [y [<- _]].
    simpl. eapply is_fixed_Some; eauto.
Qed.

Lemma part_le_concat : forall (xs : list bytes) x, In x xs -> len_N x <= len_N (concat xs).
Proof.
  induction xs as [|y xs IH]; intros x Hin; [contradiction|].
  cbn [concat]. rewrite len_N_app. destruct Hin as [->|Hin]; [lia|]. specialize (IH x Hin). lia.
Qed.

Lemma forallb_In {A} (f : A -> bool) l x : forallb f l = true -> In x l -> f x = true.
Proof. intros H Hin. rewrite forallb_forall in H. auto. Qed.

Lemma deser_seq_fixed et s vs :
  fixed_size et = Some s -> 0 < s ->
  (forall x, In x vs -> deserialize et (serialize et x) = Some x) ->
  forallb (has_type et) vs = true ->
  all_some (map (deserialize et)
     (chunks_of (length (concat (map (serialize et) vs))) (N.to_nat s) (concat (map (serialize et) vs)))) = Some vs.
Proof.
  intros Es Hs Hx Ht.
  assert (Hall : Forall (fun b => length b = N.to_nat s) (map (serialize et) vs)).
  { apply Forall_forall. intros b Hb. apply in_map_iff in Hb as [x [<- Hin]].
    pose proof (ser_length et x s Es (forallb_In _ _ _ Ht Hin)) as Hl. unfold len_N in Hl. lia. }
  rewrite chunks_of_concat; [now apply all_some_map_ok | lia | assumption |].
  (* enough fuel: every chunk has at least one byte *)
  clear -Hall Hs. induction (map (serialize et) vs) as [|b bs IH]; [simpl; lia|].
  inversion Hall; subst. cbn [concat length]. rewrite app_length. specialize (IH H2). lia.
Qed.

(* ================= lists of variable-size elements ================= *)
Lemma le_value_uint32 o : o < 2 ^ 32 -> le_value (uint32_bytes o) = o.
Proof. intros H. unfold uint32_bytes. rewrite le_value_le_bytes. change (256 ^ N.of_nat 4) with (2 ^ 32). now apply N.mod_small. Qed.

Definition all_var (parts : list (bool * bytes)) : bool := forallb (fun p => negb (fst p)) parts.
Lemma layout_fixed_all_var : forall parts off, all_var parts = true ->
  layout_fixed parts off = concat (map uint32_bytes (offs_of parts off)).
Proof.
  induction parts as [|[f b] ps IH]; intros off H; [reflexivity|].
  cbn [all_var forallb fst] in H. apply andb_true_iff in H as [Hf Hps]. destruct f; [discriminate|].
  cbn [layout_fixed offs_of map concat]. f_equal. now apply IH.
Qed.
Lemma fixed_part_len_all_var : forall parts, all_var parts = true -> fixed_part_len parts = 4 * len_N parts.
Proof.
  induction parts as [|[f b] ps IH]; intros H; [reflexivity|].
  cbn [all_var forallb fst] in H. apply andb_true_iff in H as [Hf Hps]. destruct f; [discriminate|].
  cbn [fixed_part_len fold_right fst]. fold (fixed_part_len ps). rewrite (IH Hps), len_N_cons. unfold BYTES_PER_LENGTH_OFFSET. lia.
Qed.
Lemma var_parts_all_var : forall parts, all_var parts = true -> var_parts parts = map snd parts.
Proof.
  induction parts as [|[f b] ps IH]; intros H; [reflexivity|].
  cbn [all_var forallb fst] in H. apply andb_true_iff in H as [Hf Hps]. destruct f; [discriminate|].
  cbn [var_parts flat_map fst snd app map]. f_equal. now apply IH.
Qed.

Lemma running_bounds : forall vs off o, In o (running off vs) -> off <= o /\ o <= off + len_N (concat vs).
Proof.
  induction vs as [|v vs IH]; intros off o Hin; [contradiction|].
  cbn [running concat] in *. rewrite len_N_app. destruct Hin as [<-|Hin]; [lia|].
  specialize (IH _ _ Hin). lia.
Qed.
Lemma running_length : forall vs off, length (running off vs) = length vs.
Proof. induction vs; intros; simpl; [reflexivity | now rewrite IHvs]. Qed.

Lemma map_le_value_uint32 : forall os, Forall (fun o => o < 2 ^ 32) os -> map le_value (map uint32_bytes os) = os.
Proof.
  induction os as [|o os IH]; intros H; [reflexivity|]. inversion H; subst.
  cbn [map]. rewrite le_value_uint32 by assumption. now rewrite IH.
Qed.

Lemma uint32_bytes_length o : length (uint32_bytes o) = 4%nat.
Proof. apply le_bytes_length. Qed.

(* the offset table of a list of variable-size parts, read back *)
Lemma read_offset_table : forall (encs : list bytes) (R : bytes) F,
  F = 4 * len_N encs -> F + len_N (concat encs) < 2 ^ 32 ->
  let OT := concat (map uint32_bytes (running F encs)) in
  len_N OT = F /\
  map le_value (chunks_of (N.to_nat F) 4 (firstn (N.to_nat F) (OT ++ R))) = running F encs.
Proof.
  intros encs R F HF Hlt OT.
  assert (Hlen : len_N OT = F).
  { unfold OT. rewrite (len_concat_fixed _ 4).
    - unfold len_N. rewrite map_length, running_length. unfold len_N in HF. lia.
    - apply Forall_forall. intros b Hb. apply in_map_iff in Hb as [o [<- _]]. unfold len_N. now rewrite uint32_bytes_length. }
  split; [assumption|].
  replace (N.to_nat F) with (length OT) by (unfold len_N in Hlen; lia).
  rewrite firstn_app_exact. unfold OT at 2.
  rewrite chunks_of_concat.
  - apply map_le_value_uint32. apply Forall_forall. intros o Ho. apply running_bounds in Ho. lia.
  - lia.
  - apply Forall_forall. intros b Hb. apply in_map_iff in Hb as [o [<- _]]. apply uint32_bytes_length.
  - rewrite map_length, running_length. unfold len_N in Hlen, HF.
    assert (length OT = 4 * length encs)%nat by lia. lia.
Qed.

(* ================= containers ================= *)
Section Scan.
  Variable bs : bytes.
  Fixpoint scan_fields (fs : list (string * ty)) (pos : N) : list (ty * option bytes * N) :=
    match fs with
    | [] => []
    | (_, ft) :: fs' =>
        match fixed_size ft with
        | Some sz => (ft, Some (slice bs pos (pos + sz)), 0) :: scan_fields fs' (pos + sz)
        | None => (ft, None, le_value (slice bs pos (pos + 4))) :: scan_fields fs' (pos + 4)
        end
    end.
End Scan.
Fixpoint build_fields (items : list (ty * option bytes * N)) (parts : list bytes)
         (dec : list (ty -> bytes -> option value)) {struct items} : option (list value) :=
  match items, dec with
  | [], _ => Some []
  | (ft, Some b, _) :: items', d :: dec' =>
      match d ft b, build_fields items' parts dec' with
      | Some v, Some r => Some (v :: r) | _, _ => None end
  | (ft, None, _) :: items', d :: dec' =>
      match parts with
      | p :: parts' =>
          match d ft p, build_fields items' parts' dec' with
          | Some v, Some r => Some (v :: r) | _, _ => None end
      | [] => None
      end
  | _ :: _, [] => None
  end.
Fixpoint mk_decs (fs : list (string * ty)) : list (ty -> bytes -> option value) :=
  match fs with
  | [] => []
  | (_, ft) :: fs' => (fun _ b => deserialize ft b) :: mk_decs fs'
  end.
Definition item_offs (items : list (ty * option bytes * N)) : list N :=
  flat_map (fun it => match it with (_, None, o) => [o] | _ => [] end) items.
Definition slots_len (fs : list (string * ty)) : N :=
  fold_right (fun (f : string * ty) acc => slot_size (snd f) + acc) 0 fs.

Lemma deserialize_container fs bs :
  deserialize (TContainer fs) bs =
  if len_N bs <? slots_len fs then None else
  let items := scan_fields bs fs 0 in
  let offs := item_offs items in
  let offs_good := match offs with
                   | [] => len_N bs =? slots_len fs
                   | o0 :: _ => (o0 =? slots_len fs) && offsets_ok o0 offs (len_N bs)
                   end in
  if negb offs_good then None else
  match build_fields items (cut bs offs (len_N bs)) (mk_decs fs) with
  | Some vs => Some (VCont vs)
  | None => None
  end.
Proof. reflexivity. Qed.

Fixpoint items_of (fs : list (string * ty)) (vs : list value) (off : N) : list (ty * option bytes * N) :=
  match fs, vs with
  | (_, ft) :: fs', x :: vs' =>
      match fixed_size ft with
      | Some _ => (ft, Some (serialize ft x), 0) :: items_of fs' vs' off
      | None => (ft, None, off) :: items_of fs' vs' (off + len_N (serialize ft x))
      end
  | _, _ => []
  end.

Lemma len_N_uint32 o : len_N (uint32_bytes o) = 4.
Proof. unfold len_N. now rewrite uint32_bytes_length. Qed.

Lemma slots_len_parts : forall fs vs, type_fields fs vs = true -> slots_len fs = fixed_part_len (ser_fields fs vs).
Proof.
  induction fs as [|[fn ft] fs IH]; intros vs Ht; destruct vs as [|x vs]; try discriminate; [reflexivity|].
  cbn [type_fields] in Ht. apply andb_true_iff in Ht as [Hx Hvs].
  cbn [slots_len fold_right snd ser_fields fixed_part_len fst]. fold (slots_len fs). fold (fixed_part_len (ser_fields fs vs)).
  rewrite (IH vs Hvs). f_equal. unfold slot_size, is_fixed.
  destruct (fixed_size ft) as [s|] eqn:E; [|reflexivity]. symmetry. now apply ser_length.
Qed.

Lemma item_offs_items_of : forall fs vs off, type_fields fs vs = true ->
  item_offs (items_of fs vs off) = offs_of (ser_fields fs vs) off.
Proof.
  induction fs as [|[fn ft] fs IH]; intros vs off Ht; destruct vs as [|x vs]; try discriminate; [reflexivity|].
  cbn [type_fields] in Ht. apply andb_true_iff in Ht as [Hx Hvs].
  cbn [items_of ser_fields]. unfold is_fixed. destruct (fixed_size ft) as [s|] eqn:E.
  - cbn [item_offs flat_map offs_of app]. apply IH; assumption.
  - cbn [item_offs flat_map offs_of app]. f_equal. apply IH; assumption.
Qed.

(* scanning the fixed part of a layout that sits after a prefix A *)
Lemma scan_layout : forall fs vs A R off,
  type_fields fs vs = true ->
  (forall o, In o (offs_of (ser_fields fs vs) off) -> o < 2 ^ 32) ->
  scan_fields (A ++ layout_fixed (ser_fields fs vs) off ++ R) fs (len_N A) = items_of fs vs off.
Proof.
  induction fs as [|[fn ft] fs IH]; intros vs A R off Ht Hoff; destruct vs as [|x vs]; try discriminate; [reflexivity|].
  cbn [type_fields] in Ht. apply andb_true_iff in Ht as [Hx Hvs].
  cbn [scan_fields items_of ser_fields]. unfold is_fixed. destruct (fixed_size ft) as [s|] eqn:E.
  - cbn [layout_fixed]. pose proof (ser_length ft x s E Hx) as Hl.
    rewrite <- app_assoc. rewrite (slice_mid' A (serialize ft x) _ (len_N A) (len_N A + s)) by (auto; now rewrite Hl).
    f_equal.
    specialize (IH vs (A ++ serialize ft x) R off Hvs).
    rewrite len_N_app, Hl, <- app_assoc in IH. apply IH.
    intros o Ho. apply Hoff. cbn [ser_fields offs_of]. unfold is_fixed. now rewrite E.
  - cbn [layout_fixed]. rewrite <- app_assoc.
    assert (Ho : off < 2 ^ 32).
    { apply Hoff. cbn [ser_fields offs_of]. unfold is_fixed. rewrite E. now left. }
    rewrite (slice_mid' A (uint32_bytes off) _ (len_N A) (len_N A + 4))
      by (auto; now rewrite len_N_uint32).
    rewrite le_value_uint32 by assumption. f_equal.
    specialize (IH vs (A ++ uint32_bytes off) R (off + len_N (serialize ft x)) Hvs).
    rewrite len_N_app, len_N_uint32, <- app_assoc in IH.
    apply IH. intros o Hin. apply Hoff. cbn [ser_fields offs_of]. unfold is_fixed. rewrite E. now right.
Qed.

Lemma build_items_of : forall fs vs off,
  type_fields fs vs = true ->
  Forall2 (fun (f : string * ty) x => deserialize (snd f) (serialize (snd f) x) = Some x) fs vs ->
  build_fields (items_of fs vs off) (var_parts (ser_fields fs vs)) (mk_decs fs) = Some vs.
Proof.
  induction fs as [|[fn ft] fs IH]; intros vs off Ht Hd; destruct vs as [|x vs]; try discriminate; [reflexivity|].
  cbn [type_fields] in Ht. apply andb_true_iff in Ht as [Hx Hvs].
  inversion Hd as [|? ? ? ? Hdx Hdr]; subst. cbn [snd] in Hdx.
  cbn [items_of ser_fields mk_decs]. unfold is_fixed. destruct (fixed_size ft) as [s|] eqn:E.
  - cbn [var_parts flat_map fst app build_fields]. rewrite Hdx.
    fold (var_parts (ser_fields fs vs)). rewrite (IH vs off Hvs Hdr). reflexivity.
  - cbn [var_parts flat_map fst snd app build_fields]. rewrite Hdx.
    fold (var_parts (ser_fields fs vs)). rewrite (IH vs _ Hvs Hdr). reflexivity.
Qed.

Lemma var_part_le_layout : forall parts b, In b (var_parts parts) -> len_N b <= len_N (layout parts).
Proof.
  intros parts b Hin. unfold layout. rewrite len_N_app, layout_var_concat.
  pose proof (part_le_concat _ _ Hin). lia.
Qed.
Lemma fixed_part_le : forall parts b, In (true, b) parts -> len_N b <= fixed_part_len parts.
Proof.
  induction parts as [|[f c] ps IH]; intros b Hin; [contradiction|].
  cbn [fixed_part_len fold_right]. fold (fixed_part_len ps). destruct Hin as [Heq|Hin].
  - injection Heq as -> ->. cbn [fst snd]. lia.
  - specialize (IH b Hin). destruct f; cbn [fst snd]; lia.
Qed.
Lemma part_le_layout : forall parts f b, In (f, b) parts -> len_N b <= len_N (layout parts).
Proof.
  intros parts f b Hin. destruct f.
  - unfold layout. rewrite len_N_app, layout_fixed_len. pose proof (fixed_part_le _ _ Hin). lia.
  - apply var_part_le_layout. unfold var_parts. apply in_flat_map. exists (false, b). split; [assumption | now left].
Qed.

Lemma offs_bound parts : forall o, In o (offs_of parts (fixed_part_len parts)) -> o <= len_N (layout parts).
Proof.
  intros o Ho. rewrite offs_of_running in Ho. apply running_bounds in Ho.
  unfold layout. rewrite len_N_app, layout_fixed_len, layout_var_concat. lia.
Qed.

(* the container case, given the round trip of every field *)
Lemma deser_ser_container fs vs :
  type_fields fs vs = true ->
  len_N (layout (ser_fields fs vs)) < 2 ^ 32 ->
  Forall2 (fun (f : string * ty) x => deserialize (snd f) (serialize (snd f) x) = Some x) fs vs ->
  deserialize (TContainer fs) (layout (ser_fields fs vs)) = Some (VCont vs).
Proof.
  intros Ht Hlt Hd. rewrite deserialize_container.
  set (parts := ser_fields fs vs) in *.
  set (F := fixed_part_len parts).
  assert (HF : slots_len fs = F) by (apply slots_len_parts; assumption).
  assert (Hlay : layout parts = layout_fixed parts F ++ concat (var_parts parts)).
  { unfold layout. now rewrite layout_var_concat. }
  assert (HlenFX : len_N (layout_fixed parts F) = F) by apply layout_fixed_len.
  assert (Hlen : len_N (layout parts) = F + len_N (concat (var_parts parts))).
  { rewrite Hlay, len_N_app, HlenFX. reflexivity. }
  rewrite HF.
  assert (Hge : (len_N (layout parts) <? F) = false) by (apply N.ltb_ge; lia).
  rewrite Hge.
  assert (Hscan : scan_fields (layout parts) fs 0 = items_of fs vs F).
  { rewrite Hlay.
    pose proof (scan_layout fs vs [] (concat (var_parts parts)) F Ht) as Hs.
    cbn [app] in Hs. change (len_N (@nil N)) with 0 in Hs. apply Hs.
    intros o Ho. pose proof (offs_bound parts o Ho). lia. }
  cbv zeta. rewrite Hscan. rewrite item_offs_items_of by assumption. fold parts.
  rewrite offs_of_running.
  destruct (var_parts parts) as [|v vsr] eqn:Ev.
  - (* no variable-size field *)
    cbn [running]. cbn [concat] in Hlen. rewrite len_N_nil in Hlen.
    replace (len_N (layout parts) =? F) with true by (symmetry; apply N.eqb_eq; lia).
    cbn [negb cut].
    pose proof (build_items_of fs vs F Ht Hd) as Hb. fold parts in Hb. rewrite Ev in Hb. now rewrite Hb.
  - assert (Hrun : running F (v :: vsr) = F :: running (F + len_N v) vsr) by reflexivity.
    rewrite Hrun, N.eqb_refl. rewrite <- Hrun.
    rewrite (offsets_ok_running (v :: vsr) F (len_N (layout parts))) by (now rewrite Hlen).
    cbn [andb negb].
    assert (Hcut : cut (layout parts) (running F (v :: vsr)) (len_N (layout parts)) = v :: vsr).
    { pose proof (cut_running (v :: vsr) (layout_fixed parts F) ltac:(discriminate)) as Hc.
      rewrite HlenFX in Hc. rewrite Hlen, Hlay. exact Hc. }
    rewrite Hcut.
    pose proof (build_items_of fs vs F Ht Hd) as Hb. fold parts in Hb. rewrite Ev in Hb. now rewrite Hb.
Qed.

(* ================= lists of variable-size elements: round trip ================= *)
Lemma match_nonempty {A B} (l : list A) (a b : B) : l <> [] -> match l with [] => a | _ :: _ => b end = b.
Proof. destruct l; [contradiction | reflexivity]. Qed.
Lemma deser_ser_list_var et l vs :
  fixed_size et = None ->
  len_N vs <= l ->
  len_N (layout (map (fun x => (is_fixed et, serialize et x)) vs)) < 2 ^ 32 ->
  (forall x, In x vs -> deserialize et (serialize et x) = Some x) ->
  deserialize (TList et l) (layout (map (fun x => (is_fixed et, serialize et x)) vs)) = Some (VSeq vs).
Proof.
  intros En Hl Hlt Hd.
  assert (Hnf : is_fixed et = false) by (unfold is_fixed; now rewrite En).
  rewrite Hnf in *.
  destruct vs as [|x0 vs0]; [cbn [deserialize map]; rewrite En; reflexivity|].
  remember (x0 :: vs0) as vs eqn:Evs.
  set (parts := map (fun x => (false, serialize et x)) vs) in *.
  cbn [deserialize]. rewrite En.
  assert (Hav : all_var parts = true).
  { unfold all_var, parts. rewrite forallb_forall. intros p Hp. apply in_map_iff in Hp as [y [<- _]]. reflexivity. }
  set (encs := map (serialize et) vs).
  assert (Hvp : var_parts parts = encs).
  { rewrite var_parts_all_var by assumption. unfold parts, encs. rewrite map_map. reflexivity. }
  set (F := fixed_part_len parts).
  assert (HF : F = 4 * len_N encs).
  { unfold F. rewrite fixed_part_len_all_var by assumption. unfold parts, encs, len_N. rewrite !map_length. reflexivity. }
  assert (Hlay : layout parts = concat (map uint32_bytes (running F encs)) ++ concat encs).
  { unfold layout. rewrite layout_var_concat, Hvp. rewrite layout_fixed_all_var by assumption.
    rewrite offs_of_running, Hvp. reflexivity. }
  assert (Hk : 1 <= len_N encs).
  { unfold encs, len_N. rewrite map_length, Evs. simpl length. lia. }
  destruct (read_offset_table encs (concat encs) F HF) as [HlenOT Hread].
  { rewrite Hlay, len_N_app in Hlt.
    assert (len_N (concat (map uint32_bytes (running F encs))) = F).
    { rewrite (len_concat_fixed _ 4).
      - unfold len_N. rewrite map_length, running_length. unfold len_N in HF. lia.
      - apply Forall_forall. intros b Hb. apply in_map_iff in Hb as [o [<- _]]. apply len_N_uint32. }
    lia. }
  set (OT := concat (map uint32_bytes (running F encs))) in *.
  assert (Hlen : len_N (layout parts) = F + len_N (concat encs)) by (rewrite Hlay, len_N_app, HlenOT; reflexivity).
  assert (HFlt : F < 2 ^ 32) by lia.
  (* the encoding is not empty *)
  assert (Hne : layout parts <> []).
  { intro E. rewrite E, len_N_nil in Hlen. lia. }
  rewrite match_nonempty by exact Hne.
  assert (H4 : (len_N (layout parts) <? 4) = false) by (apply N.ltb_ge; lia).
  rewrite H4.
  (* first offset *)
  assert (Ho0 : le_value (firstn 4 (layout parts)) = F).
  { rewrite Hlay. unfold OT. destruct encs as [|e0 encs0] eqn:Ee; [rewrite len_N_nil in Hk; lia|].
    cbn [running map concat]. rewrite <- !app_assoc.
    replace 4%nat with (length (uint32_bytes F)) by apply uint32_bytes_length.
    rewrite firstn_app_exact. now apply le_value_uint32. }
  rewrite Ho0.
  assert (Hc1 : (F mod 4 =? 0) = true) by (apply N.eqb_eq; rewrite HF, N.mul_comm; apply N.mod_mul; lia).
  assert (Hc2 : (F =? 0) = false) by (apply N.eqb_neq; lia).
  assert (Hc3 : (len_N (layout parts) <? F) = false) by (apply N.ltb_ge; lia).
  assert (Hc4 : (l <? F / 4) = false).
  { apply N.ltb_ge. rewrite HF, N.mul_comm, N.div_mul by lia.
    unfold encs, len_N. rewrite map_length. unfold len_N in Hl. exact Hl. }
  rewrite Hc1, Hc2, Hc3, Hc4. cbn [negb orb].
  assert (Hread' : map le_value (chunks_of (N.to_nat F) 4 (firstn (N.to_nat F) (layout parts))) = running F encs)
    by (rewrite Hlay; exact Hread).
  rewrite Hread'.
  rewrite (offsets_ok_running encs F (len_N (layout parts))) by (now rewrite Hlen).
  assert (Hcut : cut (layout parts) (running F encs) (len_N (layout parts)) = encs).
  { pose proof (cut_running encs OT) as Hc. rewrite HlenOT in Hc. rewrite Hlen, Hlay. apply Hc.
    intro E. rewrite E, len_N_nil in Hk. lia. }
  rewrite Hcut. unfold encs. rewrite all_some_map_ok by assumption. reflexivity.
Qed.

(* ================= the round-trip theorem ================= *)
Lemma type_fields_length : forall fs vs, type_fields fs vs = true -> length fs = length vs.
Proof.
  induction fs as [|[n t] fs IH]; intros [|x vs] H; try discriminate; [reflexivity|].
  cbn [type_fields] in H. apply andb_true_iff in H as [_ H]. simpl. f_equal. now apply IH.
Qed.

Theorem deser_ser : forall t, wf_ty t = true -> forall v,
  has_type t v = true -> len_N (serialize t v) < 2 ^ 32 ->
  deserialize t (serialize t v) = Some v.
Proof.
  induction t using ty_ind'; intros Hw v Ht Hlt.
  - destruct v; try discriminate. now apply deser_ser_uint.
  - destruct v; try discriminate. apply deser_ser_bool.
  - destruct v; try discriminate. now apply deser_ser_bytevector.
  - destruct v; try discriminate. now apply deser_ser_bytelist.
  - destruct v; try discriminate. now apply deser_ser_bitvector.
  - destruct v; try discriminate. now apply deser_ser_bitlist.
  - (* vector of fixed-size elements *)
    destruct v; try discriminate.
    cbn [wf_ty] in Hw. apply andb_true_iff in Hw as [Hw Hf]. apply andb_true_iff in Hw as [Hn Hwt]. apply N.ltb_lt in Hn.
    unfold is_fixed in Hf. destruct (fixed_size t) as [s|] eqn:Es; [|discriminate].
    pose proof (wf_fixed_pos t s Hwt Es) as Hs.
    pose proof Ht as Ht0. cbn [has_type] in Ht. apply andb_true_iff in Ht as [Hl Hall]. apply N.eqb_eq in Hl.
    assert (Hlen : len_N (serialize (TVector t n) (VSeq vs)) = s * n).
    { apply ser_length; [cbn [fixed_size]; now rewrite Es | assumption]. }
    cbn [serialize] in *. rewrite (serialize_seq_fixed t vs s Es) in *.
    cbn [deserialize]. rewrite Es, Hlen, N.eqb_refl.
    replace (n =? 0) with false by (symmetry; apply N.eqb_neq; lia). cbn [negb andb].
    rewrite deser_seq_fixed; auto.
    intros x Hx. apply IHt; [assumption | eapply forallb_In; eauto |].
    pose proof (part_le_concat (map (serialize t) vs) (serialize t x) (in_map _ _ _ Hx)). lia.
  - (* list *)
    destruct v; try discriminate. cbn [wf_ty] in Hw.
    cbn [has_type] in Ht. apply andb_true_iff in Ht as [Hl Hall]. apply N.leb_le in Hl.
    cbn [serialize] in *.
    destruct (fixed_size t) as [s|] eqn:Es.
    + pose proof (wf_fixed_pos t s Hw Es) as Hs.
      rewrite (serialize_seq_fixed t vs s Es) in *.
      assert (Hcl : len_N (concat (map (serialize t) vs)) = s * len_N vs).
      { rewrite (len_concat_fixed _ s).
        - unfold len_N. now rewrite map_length.
        - apply Forall_forall. intros b Hb. apply in_map_iff in Hb as [x [<- Hin]].
          apply ser_length; [assumption | eapply forallb_In; eauto]. }
      cbn [deserialize]. rewrite Es.
      replace (s =? 0) with false by (symmetry; apply N.eqb_neq; lia).
      rewrite Hcl. rewrite N.mul_comm, N.mod_mul, N.div_mul by lia. rewrite N.eqb_refl.
      replace (len_N vs <=? n) with true by (symmetry; now apply N.leb_le). cbn [andb].
      rewrite deser_seq_fixed; auto.
      intros x Hx. apply IHt; [assumption | eapply forallb_In; eauto |].
      pose proof (part_le_concat (map (serialize t) vs) (serialize t x) (in_map _ _ _ Hx)). lia.
    + apply deser_ser_list_var; auto.
      intros x Hx. apply IHt; [assumption | eapply forallb_In; eauto |].
      pose proof (part_le_layout (map (fun x => (is_fixed t, serialize t x)) vs) (is_fixed t) (serialize t x)) as Hp.
      assert (Hin : In (is_fixed t, serialize t x) (map (fun x => (is_fixed t, serialize t x)) vs))
        by (apply in_map_iff; exists x; auto).
      specialize (Hp Hin). lia.
  - (* container *)
    destruct v; try discriminate.
    rewrite wf_ty_container in Hw. apply andb_true_iff in Hw as [_ Hw].
    rewrite has_type_container in Ht. rewrite serialize_container in *.
    apply deser_ser_container; [assumption | assumption |].
    (* every field round-trips, by the induction hypothesis *)
    assert (Hparts : forall f x, In (f, x) (ser_fields fs vs) -> len_N x < 2 ^ 32).
    { intros f x Hin. pose proof (part_le_layout _ _ _ Hin). lia. }
    clear Hlt. revert vs Ht Hparts Hw. induction H as [|[fn ft] fs' Hft Hrest IH]; intros vs Ht Hparts Hw.
    + destruct vs; [constructor | discriminate].
    + destruct vs as [|x vs]; [discriminate|]. cbn [type_fields] in Ht. apply andb_true_iff in Ht as [Hx Hvs].
      cbn [wf_fields] in Hw. apply andb_true_iff in Hw as [Hwt Hwr].
      constructor.
      * cbn [snd] in *. apply Hft; [assumption | assumption |].
        apply (Hparts (is_fixed ft)). cbn [ser_fields]. now left.
      * apply IH; [assumption | | assumption].
        intros f y Hin. apply (Hparts f). cbn [ser_fields]. now right.
Qed.

(* corollary: what Serialize writes is what ByteLength/FixedLength must report, and it decodes back *)
Corollary ser_deser_canonical : forall t, wf_ty t = true -> forall v,
  has_type t v = true -> len_N (serialize t v) < 2 ^ 32 ->
  exists v', deserialize t (serialize t v) = Some v' /\ serialize t v' = serialize t v.
Proof. intros t Hw v Ht Hl. exists v. split; [now apply deser_ser | reflexivity]. Qed.

(* ================= refusals ================= *)
(* a fixed-size type accepts exactly its size: truncated input AND trailing bytes are refused *)
Lemma slots_len_all_fixed : forall fs n, size_fields fs = Some n -> slots_len fs = n.
Proof.
  induction fs as [|[fn ft] fs IH]; intros n H; cbn [size_fields slots_len fold_right snd] in *.
  - now injection H as <-.
  - fold (slots_len fs). destruct (fixed_size ft) as [a|] eqn:Ea; [|discriminate].
    destruct (size_fields fs) as [b|] eqn:Eb; [|discriminate]. injection H as <-.
    rewrite (IH b eq_refl). unfold slot_size. now rewrite Ea.
Qed.
Lemma item_offs_all_fixed : forall bs fs pos n, size_fields fs = Some n -> item_offs (scan_fields bs fs pos) = [].
Proof.
  intros bs. induction fs as [|[fn ft] fs IH]; intros pos n H; [reflexivity|].
  cbn [size_fields scan_fields] in *. destruct (fixed_size ft) as [a|] eqn:Ea; [|discriminate].
  destruct (size_fields fs) as [b|] eqn:Eb; [|discriminate].
  cbn [item_offs flat_map app]. eapply IH. reflexivity.
Qed.

Theorem deser_fixed_exact_length : forall t n bs v,
  fixed_size t = Some n -> deserialize t bs = Some v -> len_N bs = n.
Proof.
  intros t n bs v Hs Hd. destruct t; cbn [fixed_size] in Hs; try discriminate.
  - injection Hs as <-. cbn [deserialize] in Hd. destruct (len_N bs =? nbytes) eqn:E; [now apply N.eqb_eq in E | discriminate].
  - injection Hs as <-. cbn [deserialize] in Hd.
    destruct bs as [|b [|b' r]]; try discriminate; [reflexivity | destruct b as [|[| |]]; discriminate].
  - injection Hs as <-. cbn [deserialize] in Hd. destruct (len_N bs =? n0) eqn:E; [now apply N.eqb_eq in E | discriminate].
  - injection Hs as <-. cbn [deserialize] in Hd.
    destruct (len_N bs =? (n0 + 7) / 8) eqn:E; [now apply N.eqb_eq in E | discriminate].
  - destruct (fixed_size t) as [s|] eqn:Es; [|discriminate]. injection Hs as <-.
    cbn [deserialize] in Hd. rewrite Es in Hd.
    destruct ((len_N bs =? s * n0) && negb (n0 =? 0)) eqn:E; [|discriminate].
    apply andb_true_iff in E as [E _]. now apply N.eqb_eq in E.
  - change (size_fields fields = Some n) in Hs. rewrite deserialize_container in Hd.
    rewrite (slots_len_all_fixed _ _ Hs) in Hd.
    destruct (len_N bs <? n) eqn:E1; [discriminate|]. cbv zeta in Hd.
    rewrite (item_offs_all_fixed bs fields 0 n Hs) in Hd.
    destruct (len_N bs =? n) eqn:E2; [now apply N.eqb_eq in E2 | discriminate].
Qed.
Corollary deser_rejects_truncated_fixed : forall t n bs, fixed_size t = Some n -> len_N bs < n -> deserialize t bs = None.
Proof.
  intros t n bs Hs Hl. destruct (deserialize t bs) as [v|] eqn:E; [|reflexivity].
  pose proof (deser_fixed_exact_length t n bs v Hs E). lia.
Qed.
Corollary deser_rejects_trailing_fixed : forall t n bs, fixed_size t = Some n -> n < len_N bs -> deserialize t bs = None.
Proof.
  intros t n bs Hs Hl. destruct (deserialize t bs) as [v|] eqn:E; [|reflexivity].
  pose proof (deser_fixed_exact_length t n bs v Hs E). lia.
Qed.

(* limits *)
Theorem deser_bitlist_limit : forall l bs b, deserialize (TBitlist l) bs = Some (VBits b) -> len_N b <= l.
Proof.
  intros l bs b H. cbn [deserialize] in H. destruct (bitlist_decode bs) as [bits|]; [|discriminate].
  destruct (len_N bits <=? l) eqn:E; [|discriminate]. injection H as <-. now apply N.leb_le.
Qed.
Theorem deser_bytelist_limit : forall l bs b, deserialize (TByteList l) bs = Some (VBytes b) -> len_N b <= l.
Proof.
  intros l bs b H. cbn [deserialize] in H. destruct (len_N bs <=? l) eqn:E; [|discriminate]. injection H as <-. now apply N.leb_le.
Qed.
(* a bitlist needs its delimiter bit *)
Theorem deser_bitlist_needs_delimiter : forall l bs, (bs = [] \/ exists p, bs = p ++ [0]) -> deserialize (TBitlist l) bs = None.
Proof.
  intros l bs [->|[p ->]]; [reflexivity|].
  cbn [deserialize]. unfold bitlist_decode. rewrite rev_app_distr. reflexivity.
Qed.

(* offsets: an accepted container has its first offset at the end of the fixed part, and its offsets
   nondecreasing and inside the input *)
Lemma offsets_ok_spec : forall offs prev total, offsets_ok prev offs total = true ->
  prev <= total /\ forall o, In o offs -> prev <= o /\ o <= total.
Proof.
  induction offs as [|o offs IH]; intros prev total H; cbn [offsets_ok] in H.
  - apply N.leb_le in H. split; [assumption | contradiction].
  - apply andb_true_iff in H as [H1 H2]. apply N.leb_le in H1. destruct (IH _ _ H2) as [A B].
    split; [lia|]. intros x [<-|Hx]; [lia|]. specialize (B x Hx). lia.
Qed.
Theorem deser_container_offsets : forall fs bs v,
  deserialize (TContainer fs) bs = Some v ->
  slots_len fs <= len_N bs /\
  match item_offs (scan_fields bs fs 0) with
  | [] => len_N bs = slots_len fs
  | o0 :: rest => o0 = slots_len fs /\ forall o, In o (o0 :: rest) -> o0 <= o /\ o <= len_N bs
  end.
Proof.
  intros fs bs v H. rewrite deserialize_container in H.
  destruct (len_N bs <? slots_len fs) eqn:E1; [discriminate|]. apply N.ltb_ge in E1. split; [assumption|].
  cbv zeta in H. destruct (item_offs (scan_fields bs fs 0)) as [|o0 rest] eqn:Eo.
  - destruct (len_N bs =? slots_len fs) eqn:E2; [now apply N.eqb_eq in E2 | discriminate].
  - destruct ((o0 =? slots_len fs) && offsets_ok o0 (o0 :: rest) (len_N bs)) eqn:E2; [|discriminate].
    apply andb_true_iff in E2 as [A B]. apply N.eqb_eq in A. split; [assumption|].
    apply offsets_ok_spec in B. destruct B as [_ B]. exact B.
Qed.

(* ---- list limits ---- *)
Lemma all_some_length {A} : forall (l : list (option A)) r, all_some l = Some r -> length r = length l.
Proof.
  induction l as [|[a|] l IH]; intros r H; cbn [all_some] in H; try discriminate.
  - now injection H as <-.
  - destruct (all_some l) as [r'|]; [|discriminate]. injection H as <-. simpl. f_equal. now apply IH.
Qed.
Lemma chunks_of_count : forall fuel sz (bs : bytes), (0 < sz)%nat ->
  (length (chunks_of fuel sz bs) * sz < length bs + sz)%nat.
Proof.
  induction fuel as [|f IH]; intros sz bs Hsz; [simpl; lia|].
  destruct bs as [|b bs']; [simpl; lia|]. cbn [chunks_of length]. set (bs := b :: bs') in *.
  specialize (IH sz (skipn sz bs) Hsz). rewrite skipn_length in IH.
  change (S (length bs')) with (length bs). assert (0 < length bs)%nat by (unfold bs; simpl; lia).
  rewrite Nat.mul_succ_l. destruct (Nat.le_gt_cases sz (length bs)) as [Hle|Hgt]; [lia|].
  rewrite skipn_all2 by lia. destruct f; simpl; lia.
Qed.
Lemma cut_length : forall offs bs total, length (cut bs offs total) = length offs.
Proof.
  induction offs as [|o offs IH]; intros bs total; [reflexivity|].
  destruct offs as [|o' offs']; [reflexivity|]. cbn [cut length]. f_equal. apply IH.
Qed.

Theorem deser_list_limit : forall et l bs vs, deserialize (TList et l) bs = Some (VSeq vs) -> len_N vs <= l.
Proof.
  intros et l bs vs H. cbn [deserialize] in H. destruct (fixed_size et) as [sz|] eqn:Es.
  - destruct (sz =? 0) eqn:E0; [discriminate|]. apply N.eqb_neq in E0.
    destruct ((len_N bs mod sz =? 0) && (len_N bs / sz <=? l)) eqn:E; [|discriminate].
    apply andb_true_iff in E as [Em El]. apply N.eqb_eq in Em. apply N.leb_le in El.
    destruct (all_some _) as [r|] eqn:Ea; [|discriminate]. injection H as <-.
    apply all_some_length in Ea. rewrite map_length in Ea.
    pose proof (chunks_of_count (length bs) (N.to_nat sz) bs ltac:(lia)) as Hc.
    unfold len_N in *. rewrite Ea.
    assert (Hdiv : N.of_nat (length bs) = sz * (N.of_nat (length bs) / sz)).
    { pose proof (N.div_mod (N.of_nat (length bs)) sz E0). lia. }
    set (k := N.of_nat (length bs) / sz) in *.
    assert (N.of_nat (length (chunks_of (length bs) (N.to_nat sz) bs)) < k + 1); [|lia].
    apply N.mul_lt_mono_pos_r with (p := sz); [lia|]. nia.
  - destruct bs as [|b0 bs0] eqn:Eb; [injection H as <-; cbn; lia|]. rewrite <- Eb in *. clear Eb b0 bs0.
    destruct (len_N bs <? 4); [discriminate|].
    set (o0 := le_value (firstn 4 bs)) in *.
    destruct (negb (o0 mod 4 =? 0) || (o0 =? 0) || (len_N bs <? o0) || (l <? o0 / 4)) eqn:E; [discriminate|].
    apply orb_false_iff in E as [E E4]. apply orb_false_iff in E as [E E3]. apply orb_false_iff in E as [E1 E2].
    apply negb_false_iff, N.eqb_eq in E1. apply N.ltb_ge in E4.
    destruct (offsets_ok _ _ _); [|discriminate].
    destruct (all_some _) as [r|] eqn:Ea; [|discriminate]. injection H as <-.
    apply all_some_length in Ea. rewrite map_length, cut_length, map_length in Ea.
    pose proof (chunks_of_count (N.to_nat o0) 4 (firstn (N.to_nat o0) bs) ltac:(lia)) as Hc.
    rewrite firstn_length in Hc. unfold len_N. rewrite Ea.
    assert (Hdiv : o0 = 4 * (o0 / 4)) by (pose proof (N.div_mod o0 4 ltac:(lia)); lia).
    set (k := o0 / 4) in *.
    assert (N.of_nat (length (chunks_of (N.to_nat o0) 4 (firstn (N.to_nat o0) bs))) < k + 1); [|lia].
    apply N.mul_lt_mono_pos_r with (p := 4); [lia|]. nia.
Qed.
