(* The tree form of a value: the backing tree a ztyp view holds for a value of a given type, and the theorem that
   its (cached) root is the specification's hash_tree_root — for ALL types and ALL values, any hash function. *)
From Coq Require Import String NArith List Bool Lia Arith.
From V Require Import Ssz.SszCore Ssz.SszProofs Ssz.TreeView.
Import ListNotations.

Section TreeValue.
  Variable H : bytes -> bytes.
  Variable zero_hash : nat -> bytes.
  Hypothesis zero_hash_0 : zero_hash 0 = zero_chunk.
  Hypothesis zero_hash_S : forall d, zero_hash (S d) = H (zero_hash d ++ zero_hash d).

  Local Notation build := (build H).
  Local Notation mk := (mk H).
  Local Notation htr := (hash_tree_root H zero_hash).

  (* root of a complete tree over arbitrary nodes = merkleization of their roots (no bound on the list needed:
     both sides ignore what does not fit) *)
  Theorem build_root_nodes : forall d ns, root (build d ns) = merkle_tree H zero_hash d (map root ns).
  Proof.
    induction d as [|d IH]; intros ns.
    - destruct ns as [|n ns']; reflexivity.
    - destruct ns as [|n ns'].
      + cbn [map]. exact (build_nil_root H zero_hash zero_hash_0 zero_hash_S (S d)).
      + assert (Hb : build (S d) (n :: ns') =
                     mk (build d (firstn (Nat.pow 2 d) (n :: ns'))) (build d (skipn (Nat.pow 2 d) (n :: ns')))) by reflexivity.
        rewrite Hb; clear Hb.
        assert (Hm : merkle_tree H zero_hash (S d) (map root (n :: ns')) =
                     if (len_N (map root (n :: ns')) <=? 2 ^ N.of_nat d)%N
                     then H (merkle_tree H zero_hash d (map root (n :: ns')) ++ zero_hash d)
                     else H (merkle_tree H zero_hash d (firstn (N.to_nat (2 ^ N.of_nat d)) (map root (n :: ns'))) ++
                             merkle_tree H zero_hash d (skipn (N.to_nat (2 ^ N.of_nat d)) (map root (n :: ns')))))
          by reflexivity.
        rewrite Hm; clear Hm.
        remember (n :: ns') as l eqn:El.
        assert (Hhalf : N.to_nat (2 ^ N.of_nat d)%N = Nat.pow 2 d).
        { rewrite <- (Nat2N.id (Nat.pow 2 d)). f_equal. rewrite Nat2N.inj_pow. reflexivity. }
        cbn [TreeView.mk root]. rewrite !IH. rewrite Hhalf, firstn_map, skipn_map.
        destruct (N.leb_spec (len_N (map root l)) (2 ^ N.of_nat d)%N) as [Hle|Hgt]; [|reflexivity].
        assert (Hl : (length l <= Nat.pow 2 d)%nat).
        { unfold len_N in Hle. rewrite map_length in Hle. rewrite <- Hhalf. lia. }
        rewrite firstn_all2 by assumption. rewrite skipn_all2 by assumption.
        cbn [map]. f_equal. f_equal.
        destruct d; [cbn; now rewrite zero_hash_0 | reflexivity].
  Qed.

  Definition chunk_tree (chunks : list bytes) (limit : N) : node := build (depth_of limit) (map Leaf chunks).
  Lemma chunk_tree_root chunks limit : root (chunk_tree chunks limit) = merkleize H zero_hash chunks limit.
  Proof.
    unfold chunk_tree, merkleize. rewrite build_root_nodes, map_map. cbn [root]. now rewrite map_id.
  Qed.
  Definition with_length (t : node) (len : N) : node := mk t (Leaf (le_bytes 32 len)).
  Lemma with_length_root t len : root (with_length t len) = mix_in_length H (root t) len.
  Proof. reflexivity. Qed.

  Fixpoint tree_of (t : ty) (v : value) {struct t} : node :=
    match t, v with
    | TUint n, VUint x => Leaf (le_bytes 32 x)
    | TBool, VBool b => Leaf (le_bytes 32 (if b then 1 else 0)%N)
    | TByteVector n, VBytes bs => chunk_tree (pack_bytes bs) ((n + 31) / 32)
    | TByteList l, VBytes bs => with_length (chunk_tree (pack_bytes bs) ((l + 31) / 32)) (len_N bs)
    | TBitvector n, VBits bs => chunk_tree (pack_bytes (bits_bytes bs)) ((n + 255) / 256)
    | TBitlist l, VBits bs => with_length (chunk_tree (pack_bytes (bits_bytes bs)) ((l + 255) / 256)) (len_N bs)
    | TVector et n, VSeq vs =>
        if is_basic et
        then chunk_tree (pack_bytes (flat_map (serialize et) vs)) ((n * basic_size et + 31) / 32)
        else build (depth_of n) (map (tree_of et) vs)
    | TList et l, VSeq vs =>
        if is_basic et
        then with_length (chunk_tree (pack_bytes (flat_map (serialize et) vs)) ((l * basic_size et + 31) / 32)) (len_N vs)
        else with_length (build (depth_of l) (map (tree_of et) vs)) (len_N vs)
    | TContainer fs, VCont vs =>
        build (depth_of (len_N fs))
          ((fix go (fs : list (string * ty)) (vs : list value) : list node :=
              match fs, vs with
              | (_, ft) :: fs', x :: vs' => tree_of ft x :: go fs' vs'
              | _, _ => []
              end) fs vs)
    | _, _ => Leaf zero_chunk
    end.

  Fixpoint tree_fields (fs : list (string * ty)) (vs : list value) : list node :=
    match fs, vs with
    | (_, ft) :: fs', x :: vs' => tree_of ft x :: tree_fields fs' vs'
    | _, _ => []
    end.
  Fixpoint htr_fields (fs : list (string * ty)) (vs : list value) : list bytes :=
    match fs, vs with
    | (_, ft) :: fs', x :: vs' => htr ft x :: htr_fields fs' vs'
    | _, _ => []
    end.
  Lemma tree_of_container fs vs : tree_of (TContainer fs) (VCont vs) = build (depth_of (len_N fs)) (tree_fields fs vs).
  Proof. reflexivity. Qed.
  Lemma htr_container fs vs : htr (TContainer fs) (VCont vs) = merkleize H zero_hash (htr_fields fs vs) (len_N fs).
  Proof. reflexivity. Qed.

  (* struct-form root = tree-form root = specification root *)
  Theorem htr_struct_eq_tree : forall t v, root (tree_of t v) = htr t v.
  Proof.
    induction t using ty_ind'; intros v; destruct v; try reflexivity.
    - cbn [tree_of hash_tree_root]. apply chunk_tree_root.
    - cbn [tree_of hash_tree_root]. rewrite with_length_root, chunk_tree_root. reflexivity.
    - cbn [tree_of hash_tree_root]. apply chunk_tree_root.
    - cbn [tree_of hash_tree_root]. rewrite with_length_root, chunk_tree_root. reflexivity.
    - cbn [tree_of hash_tree_root]. destruct (is_basic t); [apply chunk_tree_root|].
      unfold merkleize. rewrite build_root_nodes, map_map. f_equal. apply map_ext. intros a. apply IHt.
    - cbn [tree_of hash_tree_root]. destruct (is_basic t); rewrite with_length_root; [now rewrite chunk_tree_root|].
      unfold merkleize. rewrite build_root_nodes, map_map. f_equal. f_equal. apply map_ext. intros a. apply IHt.
    - rewrite tree_of_container, htr_container. unfold merkleize. rewrite build_root_nodes. f_equal.
      revert vs. induction H0 as [|[fn ft] fs' Hft Hrest IH]; intros vs; [reflexivity|].
      destruct vs as [|x vs]; [reflexivity|]. cbn [tree_fields htr_fields map]. f_equal; [apply Hft | apply IH].
  Qed.

  (* and the tree built for a value satisfies the cache invariant *)
  Theorem tree_of_cache_ok : forall t v, cache_ok H (tree_of t v).
  Proof.
    assert (Hb : forall d ns, Forall (cache_ok H) ns -> cache_ok H (build d ns))
      by exact (build_cache_ok H zero_hash zero_hash_0 zero_hash_S).
    assert (Hc : forall cs l, cache_ok H (chunk_tree cs l)).
    { intros. apply Hb. apply Forall_forall. intros n Hn. apply in_map_iff in Hn as [c [<- _]]. exact I. }
    assert (Hw : forall n l, cache_ok H n -> cache_ok H (with_length n l)).
    { intros. apply mk_cache_ok; [assumption | exact I]. }
    induction t using ty_ind'; intros v; destruct v; try exact I; cbn [tree_of]; auto.
    - destruct (is_basic t); auto. apply Hb. apply Forall_forall. intros n0 Hn. apply in_map_iff in Hn as [x [<- _]]. apply IHt.
    - destruct (is_basic t); auto. apply Hw, Hb. apply Forall_forall. intros n0 Hn. apply in_map_iff in Hn as [x [<- _]]. apply IHt.
    - change (cache_ok H (tree_of (TContainer fs) (VCont vs))). rewrite tree_of_container. apply Hb.
      revert vs. induction H0 as [|[fn ft] fs' Hft Hrest IH]; intros vs; [constructor|].
      destruct vs as [|x vs]; [constructor|]. cbn [tree_fields]. constructor; [apply Hft | apply IH].
  Qed.
End TreeValue.
