(* Hand-pinned SSZ schemas of consensus-specs (phase0, altair, bellatrix, capella, deneb, electra), the p2p
   interface types, and the few helper types of zrnt that have no spec container (marked "zrnt helper").
   This file is an ORACLE: it is written from the specification, not from the Go source.  Keys are the Go
   qualified names of the types that must implement the schema.  Limits are symbolic in the preset constants;
   [denote cfg] instantiates them. *)
From Coq Require Import String NArith List Bool.
From V Require Import Ssz.SszCore Ssz.SszDesc.
Import ListNotations.
Local Open Scope string_scope.
Local Open Scope N_scope.

Inductive sty : Type :=
| SUint (nbytes : N)
| SBool
| SByteVector (n : gexp)
| SByteList (l : gexp)
| SBitvector (n : gexp)
| SBitlist (l : gexp)
| SVector (t : sty) (n : gexp)
| SList (t : sty) (l : gexp)
| SContainer (fields : list (string * sty))
| SRef (name : string).

Definition Config := list (string * N).
Fixpoint cfg_get (c : Config) (k : string) : option N :=
  match c with
  | [] => None
  | (k', v) :: c' => if String.eqb k k' then Some v else cfg_get c' k
  end.

(* limits of the specification: literals, preset constants, products, quotients, sums *)
Fixpoint eval_sexp (cfg : Config) (e : gexp) : option N :=
  match e with
  | ELit n => Some n
  | ESpec k => cfg_get cfg k
  | EMul a b => match eval_sexp cfg a, eval_sexp cfg b with Some x, Some y => Some (x * y) | _, _ => None end
  | EAdd a b => match eval_sexp cfg a, eval_sexp cfg b with Some x, Some y => Some (x + y) | _, _ => None end
  | EDiv a b => match eval_sexp cfg a, eval_sexp cfg b with
                | Some x, Some y => if y =? 0 then None else Some (x / y) | _, _ => None end
  | _ => None
  end.

Fixpoint lookup {A} (tbl : list (string * A)) (k : string) : option A :=
  match tbl with
  | [] => None
  | (k', v) :: t => if String.eqb k k' then Some v else lookup t k
  end.

Fixpoint denote (fuel : nat) (cfg : Config) (tbl : list (string * sty)) (s : sty) : option ty :=
  match fuel with
  | O => None
  | S f =>
      match s with
      | SUint n => Some (TUint n)
      | SBool => Some TBool
      | SByteVector e => option_map TByteVector (eval_sexp cfg e)
      | SByteList e => option_map TByteList (eval_sexp cfg e)
      | SBitvector e => option_map TBitvector (eval_sexp cfg e)
      | SBitlist e => option_map TBitlist (eval_sexp cfg e)
      | SVector t e => match denote f cfg tbl t, eval_sexp cfg e with Some t', Some n => Some (TVector t' n) | _, _ => None end
      | SList t e => match denote f cfg tbl t, eval_sexp cfg e with Some t', Some n => Some (TList t' n) | _, _ => None end
      | SContainer fs =>
          option_map TContainer
            ((fix go (fs : list (string * sty)) : option (list (string * ty)) :=
                match fs with
                | [] => Some []
                | (n, t) :: fs' =>
                    match denote f cfg tbl t, go fs' with
                    | Some t', Some r => Some ((n, t') :: r)
                    | _, _ => None
                    end
                end) fs)
      | SRef k => match lookup tbl k with Some s' => denote f cfg tbl s' | None => None end
      end
  end.

(* ---------- shorthands ---------- *)
Definition u8 := SUint 1.
Definition u64 := SUint 8.
Definition u256 := SUint 32.
Definition B4 := SByteVector (ELit 4).
Definition B20 := SByteVector (ELit 20).
Definition B32 := SByteVector (ELit 32).
Definition B48 := SByteVector (ELit 48).
Definition B96 := SByteVector (ELit 96).
Definition C (k : string) := ESpec k.
Definition R (k : string) := SRef k.

(* ---------- phase0 field lists (later forks append) ---------- *)
Definition block_fields (body : string) : list (string * sty) :=
  [("slot", u64); ("proposer_index", u64); ("parent_root", B32); ("state_root", B32); ("body", R body)].
Definition signed_fields (msg : string) : list (string * sty) :=
  [("message", R msg); ("signature", B96)].

Definition body_phase0 (att_slashings atts : string) : list (string * sty) :=
  [("randao_reveal", B96); ("eth1_data", R "common.Eth1Data"); ("graffiti", B32);
   ("proposer_slashings", R "phase0.ProposerSlashings");
   ("attester_slashings", R att_slashings);
   ("attestations", R atts);
   ("deposits", R "phase0.Deposits");
   ("voluntary_exits", R "phase0.VoluntaryExits")].

Definition state_common_1 : list (string * sty) :=
  [("genesis_time", u64); ("genesis_validators_root", B32); ("slot", u64); ("fork", R "common.Fork");
   ("latest_block_header", R "common.BeaconBlockHeader");
   ("block_roots", R "phase0.HistoricalBatchRoots"); ("state_roots", R "phase0.HistoricalBatchRoots");
   ("historical_roots", R "phase0.HistoricalRoots");
   ("eth1_data", R "common.Eth1Data"); ("eth1_data_votes", R "phase0.Eth1DataVotes"); ("eth1_deposit_index", u64);
   ("validators", R "phase0.ValidatorRegistry"); ("balances", R "phase0.Balances");
   ("randao_mixes", R "phase0.RandaoMixes"); ("slashings", R "phase0.SlashingsHistory")].
Definition state_finality : list (string * sty) :=
  [("justification_bits", SBitvector (ELit 4));
   ("previous_justified_checkpoint", R "common.Checkpoint");
   ("current_justified_checkpoint", R "common.Checkpoint");
   ("finalized_checkpoint", R "common.Checkpoint")].
Definition state_phase0 : list (string * sty) :=
  state_common_1 ++
  [("previous_epoch_attestations", R "phase0.PendingAttestations");
   ("current_epoch_attestations", R "phase0.PendingAttestations")] ++ state_finality.
Definition state_altair : list (string * sty) :=
  state_common_1 ++
  [("previous_epoch_participation", R "altair.ParticipationRegistry");
   ("current_epoch_participation", R "altair.ParticipationRegistry")] ++ state_finality ++
  [("inactivity_scores", R "altair.InactivityScores");
   ("current_sync_committee", R "common.SyncCommittee");
   ("next_sync_committee", R "common.SyncCommittee")].
Definition state_capella_tail : list (string * sty) :=
  [("next_withdrawal_index", u64); ("next_withdrawal_validator_index", u64);
   ("historical_summaries", R "capella.HistoricalSummaries")].

Definition payload_common : list (string * sty) :=
  [("parent_hash", B32); ("fee_recipient", B20); ("state_root", B32); ("receipts_root", B32);
   ("logs_bloom", SByteVector (ELit 256)); ("prev_randao", B32);
   ("block_number", u64); ("gas_limit", u64); ("gas_used", u64); ("timestamp", u64);
   ("extra_data", SByteList (ELit 32)); ("base_fee_per_gas", u256); ("block_hash", B32)].

Definition deposit_data_3 : list (string * sty) :=
  [("pubkey", B48); ("withdrawal_credentials", B32); ("amount", u64)].

Definition VRL := C "VALIDATOR_REGISTRY_LIMIT".
Definition electra_bits_limit := EMul (C "MAX_VALIDATORS_PER_COMMITTEE") (C "MAX_COMMITTEES_PER_SLOT").

Definition spec_schemas : list (string * sty) := [
  (* ---- common: primitives and aliases ---- *)
  ("common.Slot", u64); ("common.Epoch", u64); ("common.Timestamp", u64); ("common.Gwei", u64);
  ("common.ValidatorIndex", u64); ("common.CommitteeIndex", u64); ("common.DepositIndex", u64);
  ("common.WithdrawalIndex", u64);
  ("common.BLSPubkey", B48); ("common.BLSSignature", B96); ("common.KZGCommitment", B48);
  ("common.BLSDomain", B32); ("common.BLSDomainType", B4); ("common.Version", B4); ("common.ForkDigest", B4);
  ("common.NetworkMessageDomain", B4);
  ("common.Eth1Address", B20);
  ("common.LogsBloom", SByteVector (ELit 256));      (* BYTES_PER_LOGS_BLOOM; a Go array: not preset-dependent *)
  ("common.ExtraData", SByteList (ELit 32));          (* MAX_EXTRA_DATA_BYTES; a Go constant *)
  ("common.Transaction", SByteList (C "MAX_BYTES_PER_TRANSACTION"));
  ("common.PayloadTransactions", SList (R "common.Transaction") (C "MAX_TRANSACTIONS_PER_PAYLOAD"));
  ("common.JustificationBits", SBitvector (ELit 4));
  (* ---- common: containers ---- *)
  ("common.Fork", SContainer [("previous_version", B4); ("current_version", B4); ("epoch", u64)]);
  ("common.ForkData", SContainer [("current_version", B4); ("genesis_validators_root", B32)]);
  ("common.Checkpoint", SContainer [("epoch", u64); ("root", B32)]);
  ("common.SigningData", SContainer [("object_root", B32); ("domain", B32)]);
  ("common.BeaconBlockHeader", SContainer
     [("slot", u64); ("proposer_index", u64); ("parent_root", B32); ("state_root", B32); ("body_root", B32)]);
  ("common.SignedBeaconBlockHeader", SContainer (signed_fields "common.BeaconBlockHeader"));
  ("common.Eth1Data", SContainer [("deposit_root", B32); ("deposit_count", u64); ("block_hash", B32)]);
  ("common.DepositMessage", SContainer deposit_data_3);
  ("common.DepositData", SContainer (deposit_data_3 ++ [("signature", B96)]));
  ("common.DepositProof", SVector B32 (ELit 33));     (* DEPOSIT_CONTRACT_TREE_DEPTH + 1 *)
  ("common.Deposit", SContainer [("proof", R "common.DepositProof"); ("data", R "common.DepositData")]);
  ("common.CommitteeIndices", SList u64 (C "MAX_VALIDATORS_PER_COMMITTEE"));
  ("common.SlotCommitteeIndices", SList u64 electra_bits_limit);
  ("common.SyncCommitteePubkeys", SVector B48 (C "SYNC_COMMITTEE_SIZE"));
  ("common.SyncCommittee", SContainer [("pubkeys", R "common.SyncCommitteePubkeys"); ("aggregate_pubkey", B48)]);
  ("common.Withdrawal", SContainer [("index", u64); ("validator_index", u64); ("address", B20); ("amount", u64)]);
  ("common.Withdrawals", SList (R "common.Withdrawal") (C "MAX_WITHDRAWALS_PER_PAYLOAD"));
  ("common.BLSToExecutionChange", SContainer
     [("validator_index", u64); ("from_bls_pubkey", B48); ("to_execution_address", B20)]);
  ("common.SignedBLSToExecutionChange", SContainer (signed_fields "common.BLSToExecutionChange"));
  ("common.SignedBLSToExecutionChanges", SList (R "common.SignedBLSToExecutionChange") (C "MAX_BLS_TO_EXECUTION_CHANGES"));
  (* electra requests *)
  ("common.DepositRequest", SContainer (deposit_data_3 ++ [("signature", B96); ("index", u64)]));
  ("common.DepositRequests", SList (R "common.DepositRequest") (C "MAX_DEPOSIT_REQUESTS_PER_PAYLOAD"));
  ("common.WithdrawalRequest", SContainer [("source_address", B20); ("validator_pubkey", B48); ("amount", u64)]);
  ("common.WithdrawalRequests", SList (R "common.WithdrawalRequest") (C "MAX_WITHDRAWAL_REQUESTS_PER_PAYLOAD"));
  ("common.ConsolidationRequest", SContainer [("source_address", B20); ("source_pubkey", B48); ("target_pubkey", B48)]);
  ("common.ConsolidationRequests", SList (R "common.ConsolidationRequest") (C "MAX_CONSOLIDATION_REQUESTS_PER_PAYLOAD"));
  ("common.PendingDeposit", SContainer (deposit_data_3 ++ [("signature", B96); ("slot", u64)]));
  ("common.PendingDeposits", SList (R "common.PendingDeposit") (C "PENDING_DEPOSITS_LIMIT"));
  ("common.PendingPartialWithdrawal", SContainer [("validator_index", u64); ("amount", u64); ("withdrawable_epoch", u64)]);
  ("common.PendingPartialWithdrawals", SList (R "common.PendingPartialWithdrawal") (C "PENDING_PARTIAL_WITHDRAWALS_LIMIT"));
  ("common.PendingConsolidation", SContainer [("source_index", u64); ("target_index", u64)]);
  ("common.PendingConsolidations", SList (R "common.PendingConsolidation") (C "PENDING_CONSOLIDATIONS_LIMIT"));
  (* p2p interface *)
  ("common.AttnetBits", SBitvector (ELit 64));        (* ATTESTATION_SUBNET_COUNT *)
  ("common.SyncnetBits", SBitvector (ELit 4));        (* SYNC_COMMITTEE_SUBNET_COUNT *)
  ("common.SeqNr", u64); ("common.Ping", u64); ("common.Pong", u64); ("common.Goodbye", u64);
  ("common.MetaData", SContainer [("seq_number", u64); ("attnets", R "common.AttnetBits"); ("syncnets", R "common.SyncnetBits")]);
  ("common.Status", SContainer
     [("fork_digest", B4); ("finalized_root", B32); ("finalized_epoch", u64); ("head_root", B32); ("head_slot", u64)]);
  ("common.Eth2Data", SContainer [("fork_digest", B4); ("next_fork_version", B4); ("next_fork_epoch", u64)]);   (* ENRForkID *)
  (* zrnt helpers *)
  ("common.GweiList", SList u64 VRL);
  ("common.Deltas", SContainer [("rewards", R "common.GweiList"); ("penalties", R "common.GweiList")]);
  (* ---- phase0 ---- *)
  ("phase0.AttestationBits", SBitlist (C "MAX_VALIDATORS_PER_COMMITTEE"));
  ("phase0.AttestationData", SContainer
     [("slot", u64); ("index", u64); ("beacon_block_root", B32);
      ("source", R "common.Checkpoint"); ("target", R "common.Checkpoint")]);
  ("phase0.Attestation", SContainer
     [("aggregation_bits", R "phase0.AttestationBits"); ("data", R "phase0.AttestationData"); ("signature", B96)]);
  ("phase0.Attestations", SList (R "phase0.Attestation") (C "MAX_ATTESTATIONS"));
  ("phase0.IndexedAttestation", SContainer
     [("attesting_indices", R "common.CommitteeIndices"); ("data", R "phase0.AttestationData"); ("signature", B96)]);
  ("phase0.PendingAttestation", SContainer
     [("aggregation_bits", R "phase0.AttestationBits"); ("data", R "phase0.AttestationData");
      ("inclusion_delay", u64); ("proposer_index", u64)]);
  ("phase0.PendingAttestations", SList (R "phase0.PendingAttestation") (EMul (C "MAX_ATTESTATIONS") (C "SLOTS_PER_EPOCH")));
  ("phase0.AttesterSlashing", SContainer
     [("attestation_1", R "phase0.IndexedAttestation"); ("attestation_2", R "phase0.IndexedAttestation")]);
  ("phase0.AttesterSlashings", SList (R "phase0.AttesterSlashing") (C "MAX_ATTESTER_SLASHINGS"));
  ("phase0.ProposerSlashing", SContainer
     [("signed_header_1", R "common.SignedBeaconBlockHeader"); ("signed_header_2", R "common.SignedBeaconBlockHeader")]);
  ("phase0.ProposerSlashings", SList (R "phase0.ProposerSlashing") (C "MAX_PROPOSER_SLASHINGS"));
  ("phase0.Deposits", SList (R "common.Deposit") (C "MAX_DEPOSITS"));
  ("phase0.VoluntaryExit", SContainer [("epoch", u64); ("validator_index", u64)]);
  ("phase0.SignedVoluntaryExit", SContainer (signed_fields "phase0.VoluntaryExit"));
  ("phase0.VoluntaryExits", SList (R "phase0.SignedVoluntaryExit") (C "MAX_VOLUNTARY_EXITS"));
  ("phase0.AggregateAndProof", SContainer
     [("aggregator_index", u64); ("aggregate", R "phase0.Attestation"); ("selection_proof", B96)]);
  ("phase0.SignedAggregateAndProof", SContainer (signed_fields "phase0.AggregateAndProof"));
  ("phase0.Eth1DataVotes", SList (R "common.Eth1Data") (EMul (C "EPOCHS_PER_ETH1_VOTING_PERIOD") (C "SLOTS_PER_EPOCH")));
  ("phase0.HistoricalBatchRoots", SVector B32 (C "SLOTS_PER_HISTORICAL_ROOT"));
  ("phase0.HistoricalBatch", SContainer
     [("block_roots", R "phase0.HistoricalBatchRoots"); ("state_roots", R "phase0.HistoricalBatchRoots")]);
  ("phase0.HistoricalRoots", SList B32 (C "HISTORICAL_ROOTS_LIMIT"));
  ("phase0.RandaoMixes", SVector B32 (C "EPOCHS_PER_HISTORICAL_VECTOR"));
  ("phase0.SlashingsHistory", SVector u64 (C "EPOCHS_PER_SLASHINGS_VECTOR"));
  ("phase0.Balances", SList u64 VRL);
  ("phase0.RegistryIndices", SList u64 VRL);          (* zrnt helper *)
  ("phase0.Validator", SContainer
     [("pubkey", B48); ("withdrawal_credentials", B32); ("effective_balance", u64); ("slashed", SBool);
      ("activation_eligibility_epoch", u64); ("activation_epoch", u64); ("exit_epoch", u64); ("withdrawable_epoch", u64)]);
  ("phase0.ValidatorRegistry", SList (R "phase0.Validator") VRL);
  ("phase0.BeaconBlockBody", SContainer (body_phase0 "phase0.AttesterSlashings" "phase0.Attestations"));
  ("phase0.BeaconBlock", SContainer (block_fields "phase0.BeaconBlockBody"));
  ("phase0.SignedBeaconBlock", SContainer (signed_fields "phase0.BeaconBlock"));
  ("phase0.BeaconState", SContainer state_phase0);
  (* ---- altair ---- *)
  ("altair.ParticipationFlags", u8);
  ("altair.ParticipationRegistry", SList u8 VRL);
  ("altair.InactivityScores", SList u64 VRL);
  ("altair.SyncCommitteeBits", SBitvector (C "SYNC_COMMITTEE_SIZE"));
  ("altair.SyncCommitteeSubnetBits", SBitvector (EDiv (C "SYNC_COMMITTEE_SIZE") (ELit 4)));   (* / SYNC_COMMITTEE_SUBNET_COUNT *)
  ("altair.SyncAggregate", SContainer
     [("sync_committee_bits", R "altair.SyncCommitteeBits"); ("sync_committee_signature", B96)]);
  ("altair.SyncCommitteeMessage", SContainer
     [("slot", u64); ("beacon_block_root", B32); ("validator_index", u64); ("signature", B96)]);
  ("altair.SyncCommitteeContribution", SContainer
     [("slot", u64); ("beacon_block_root", B32); ("subcommittee_index", u64);
      ("aggregation_bits", R "altair.SyncCommitteeSubnetBits"); ("signature", B96)]);
  ("altair.ContributionAndProof", SContainer
     [("aggregator_index", u64); ("contribution", R "altair.SyncCommitteeContribution"); ("selection_proof", B96)]);
  ("altair.SignedContributionAndProof", SContainer (signed_fields "altair.ContributionAndProof"));
  ("altair.SyncAggregatorSelectionData", SContainer [("slot", u64); ("subcommittee_index", u64)]);
  ("altair.SyncCommitteeProofBranch", SVector B32 (ELit 5));     (* floorlog2(NEXT_SYNC_COMMITTEE_INDEX = 55) *)
  ("altair.FinalizedRootProofBranch", SVector B32 (ELit 6));     (* floorlog2(FINALIZED_ROOT_INDEX = 105) *)
  ("altair.LightClientSnapshot", SContainer                      (* altair light-client draft *)
     [("header", R "common.BeaconBlockHeader"); ("current_sync_committee", R "common.SyncCommittee");
      ("next_sync_committee", R "common.SyncCommittee")]);
  ("altair.LightClientUpdate", SContainer
     [("attested_header", R "common.BeaconBlockHeader"); ("next_sync_committee", R "common.SyncCommittee");
      ("next_sync_committee_branch", R "altair.SyncCommitteeProofBranch");
      ("finalized_header", R "common.BeaconBlockHeader"); ("finality_branch", R "altair.FinalizedRootProofBranch");
      ("sync_aggregate", R "altair.SyncAggregate"); ("signature_slot", u64)]);
  ("altair.BeaconBlockBody", SContainer
     (body_phase0 "phase0.AttesterSlashings" "phase0.Attestations" ++ [("sync_aggregate", R "altair.SyncAggregate")]));
  ("altair.BeaconBlock", SContainer (block_fields "altair.BeaconBlockBody"));
  ("altair.SignedBeaconBlock", SContainer (signed_fields "altair.BeaconBlock"));
  ("altair.BeaconState", SContainer state_altair);
  (* ---- bellatrix ---- *)
  ("bellatrix.ExecutionPayload", SContainer (payload_common ++ [("transactions", R "common.PayloadTransactions")]));
  ("bellatrix.ExecutionPayloadHeader", SContainer (payload_common ++ [("transactions_root", B32)]));
  ("bellatrix.BeaconBlockBody", SContainer
     (body_phase0 "phase0.AttesterSlashings" "phase0.Attestations" ++
      [("sync_aggregate", R "altair.SyncAggregate"); ("execution_payload", R "bellatrix.ExecutionPayload")]));
  ("bellatrix.BeaconBlockBodyShallow", SContainer             (* zrnt helper: payload replaced by its root *)
     (body_phase0 "phase0.AttesterSlashings" "phase0.Attestations" ++
      [("sync_aggregate", R "altair.SyncAggregate"); ("execution_payload_root", B32)]));
  ("bellatrix.BeaconBlock", SContainer (block_fields "bellatrix.BeaconBlockBody"));
  ("bellatrix.SignedBeaconBlock", SContainer (signed_fields "bellatrix.BeaconBlock"));
  ("bellatrix.BeaconState", SContainer
     (state_altair ++ [("latest_execution_payload_header", R "bellatrix.ExecutionPayloadHeader")]));
  (* ---- capella ---- *)
  ("capella.ExecutionPayload", SContainer
     (payload_common ++ [("transactions", R "common.PayloadTransactions"); ("withdrawals", R "common.Withdrawals")]));
  ("capella.ExecutionPayloadHeader", SContainer
     (payload_common ++ [("transactions_root", B32); ("withdrawals_root", B32)]));
  ("capella.HistoricalSummary", SContainer [("block_summary_root", B32); ("state_summary_root", B32)]);
  ("capella.HistoricalSummaries", SList (R "capella.HistoricalSummary") (C "HISTORICAL_ROOTS_LIMIT"));
  ("capella.BeaconBlockBody", SContainer
     (body_phase0 "phase0.AttesterSlashings" "phase0.Attestations" ++
      [("sync_aggregate", R "altair.SyncAggregate"); ("execution_payload", R "capella.ExecutionPayload");
       ("bls_to_execution_changes", R "common.SignedBLSToExecutionChanges")]));
  ("capella.BeaconBlockBodyShallow", SContainer
     (body_phase0 "phase0.AttesterSlashings" "phase0.Attestations" ++
      [("sync_aggregate", R "altair.SyncAggregate"); ("execution_payload_root", B32);
       ("bls_to_execution_changes", R "common.SignedBLSToExecutionChanges")]));
  ("capella.BeaconBlock", SContainer (block_fields "capella.BeaconBlockBody"));
  ("capella.SignedBeaconBlock", SContainer (signed_fields "capella.BeaconBlock"));
  ("capella.BeaconState", SContainer
     (state_altair ++ [("latest_execution_payload_header", R "capella.ExecutionPayloadHeader")] ++ state_capella_tail));
  (* ---- deneb ---- *)
  ("deneb.ExecutionPayload", SContainer
     (payload_common ++ [("transactions", R "common.PayloadTransactions"); ("withdrawals", R "common.Withdrawals");
                         ("blob_gas_used", u64); ("excess_blob_gas", u64)]));
  ("deneb.ExecutionPayloadHeader", SContainer
     (payload_common ++ [("transactions_root", B32); ("withdrawals_root", B32);
                         ("blob_gas_used", u64); ("excess_blob_gas", u64)]));
  ("deneb.KZGCommitments", SList B48 (C "MAX_BLOB_COMMITMENTS_PER_BLOCK"));
  ("deneb.BeaconBlockBody", SContainer
     (body_phase0 "phase0.AttesterSlashings" "phase0.Attestations" ++
      [("sync_aggregate", R "altair.SyncAggregate"); ("execution_payload", R "deneb.ExecutionPayload");
       ("bls_to_execution_changes", R "common.SignedBLSToExecutionChanges");
       ("blob_kzg_commitments", R "deneb.KZGCommitments")]));
  ("deneb.BeaconBlockBodyShallow", SContainer
     (body_phase0 "phase0.AttesterSlashings" "phase0.Attestations" ++
      [("sync_aggregate", R "altair.SyncAggregate"); ("execution_payload_root", B32);
       ("bls_to_execution_changes", R "common.SignedBLSToExecutionChanges");
       ("blob_kzg_commitments", R "deneb.KZGCommitments")]));
  ("deneb.BeaconBlock", SContainer (block_fields "deneb.BeaconBlockBody"));
  ("deneb.SignedBeaconBlock", SContainer (signed_fields "deneb.BeaconBlock"));
  ("deneb.BeaconState", SContainer
     (state_altair ++ [("latest_execution_payload_header", R "deneb.ExecutionPayloadHeader")] ++ state_capella_tail));
  (* ---- electra ---- *)
  ("electra.AttestationBits", SBitlist electra_bits_limit);
  ("electra.CommitteeBits", SBitvector (C "MAX_COMMITTEES_PER_SLOT"));
  ("electra.Attestation", SContainer
     [("aggregation_bits", R "electra.AttestationBits"); ("data", R "phase0.AttestationData"); ("signature", B96);
      ("committee_bits", R "electra.CommitteeBits")]);
  ("electra.Attestations", SList (R "electra.Attestation") (C "MAX_ATTESTATIONS_ELECTRA"));
  ("electra.SingleAttestation", SContainer
     [("committee_index", u64); ("attester_index", u64); ("data", R "phase0.AttestationData"); ("signature", B96)]);
  ("electra.IndexedAttestation", SContainer
     [("attesting_indices", R "common.SlotCommitteeIndices"); ("data", R "phase0.AttestationData"); ("signature", B96)]);
  ("electra.AttesterSlashing", SContainer
     [("attestation_1", R "electra.IndexedAttestation"); ("attestation_2", R "electra.IndexedAttestation")]);
  ("electra.AttesterSlashings", SList (R "electra.AttesterSlashing") (C "MAX_ATTESTER_SLASHINGS_ELECTRA"));
  ("electra.AggregateAndProof", SContainer
     [("aggregator_index", u64); ("aggregate", R "electra.Attestation"); ("selection_proof", B96)]);
  ("electra.SignedAggregateAndProof", SContainer (signed_fields "electra.AggregateAndProof"));
  ("electra.ExecutionRequests", SContainer
     [("deposits", R "common.DepositRequests"); ("withdrawals", R "common.WithdrawalRequests");
      ("consolidations", R "common.ConsolidationRequests")]);
  ("electra.BeaconBlockBody", SContainer
     (body_phase0 "electra.AttesterSlashings" "electra.Attestations" ++
      [("sync_aggregate", R "altair.SyncAggregate"); ("execution_payload", R "deneb.ExecutionPayload");
       ("bls_to_execution_changes", R "common.SignedBLSToExecutionChanges");
       ("blob_kzg_commitments", R "deneb.KZGCommitments");
       ("execution_requests", R "electra.ExecutionRequests")]));
  ("electra.BeaconBlockBodyShallow", SContainer
     (body_phase0 "electra.AttesterSlashings" "electra.Attestations" ++
      [("sync_aggregate", R "altair.SyncAggregate"); ("execution_payload_root", B32);
       ("bls_to_execution_changes", R "common.SignedBLSToExecutionChanges");
       ("blob_kzg_commitments", R "deneb.KZGCommitments");
       ("execution_requests", R "electra.ExecutionRequests")]));
  ("electra.BeaconBlock", SContainer (block_fields "electra.BeaconBlockBody"));
  ("electra.SignedBeaconBlock", SContainer (signed_fields "electra.BeaconBlock"));
  ("electra.BeaconState", SContainer
     (state_altair ++ [("latest_execution_payload_header", R "deneb.ExecutionPayloadHeader")] ++ state_capella_tail ++
      [("deposit_requests_start_index", u64); ("deposit_balance_to_consume", u64); ("exit_balance_to_consume", u64);
       ("earliest_exit_epoch", u64); ("consolidation_balance_to_consume", u64); ("earliest_consolidation_epoch", u64);
       ("pending_deposits", R "common.PendingDeposits");
       ("pending_partial_withdrawals", R "common.PendingPartialWithdrawals");
       ("pending_consolidations", R "common.PendingConsolidations")]))
].

Definition spec_ty (cfg : Config) (name : string) : option ty :=
  match lookup spec_schemas name with
  | Some s => denote 40 cfg spec_schemas s
  | None => None
  end.

(* ---------- pinned presets (the SSZ-relevant constants only) ---------- *)
Definition cfg_mainnet : Config := [
  ("MAX_COMMITTEES_PER_SLOT", 64); ("MAX_VALIDATORS_PER_COMMITTEE", 2048); ("SLOTS_PER_EPOCH", 32);
  ("EPOCHS_PER_ETH1_VOTING_PERIOD", 64); ("SLOTS_PER_HISTORICAL_ROOT", 8192);
  ("EPOCHS_PER_HISTORICAL_VECTOR", 65536); ("EPOCHS_PER_SLASHINGS_VECTOR", 8192);
  ("HISTORICAL_ROOTS_LIMIT", 16777216); ("VALIDATOR_REGISTRY_LIMIT", 1099511627776);
  ("MAX_PROPOSER_SLASHINGS", 16); ("MAX_ATTESTER_SLASHINGS", 2); ("MAX_ATTESTATIONS", 128);
  ("MAX_DEPOSITS", 16); ("MAX_VOLUNTARY_EXITS", 16);
  ("SYNC_COMMITTEE_SIZE", 512);
  ("MAX_BYTES_PER_TRANSACTION", 1073741824); ("MAX_TRANSACTIONS_PER_PAYLOAD", 1048576);
  ("MAX_BLS_TO_EXECUTION_CHANGES", 16); ("MAX_WITHDRAWALS_PER_PAYLOAD", 16);
  ("MAX_BLOB_COMMITMENTS_PER_BLOCK", 4096);
  ("PENDING_DEPOSITS_LIMIT", 134217728); ("PENDING_PARTIAL_WITHDRAWALS_LIMIT", 134217728);
  ("PENDING_CONSOLIDATIONS_LIMIT", 262144);
  ("MAX_ATTESTER_SLASHINGS_ELECTRA", 1); ("MAX_ATTESTATIONS_ELECTRA", 8);
  ("MAX_CONSOLIDATION_REQUESTS_PER_PAYLOAD", 2); ("MAX_DEPOSIT_REQUESTS_PER_PAYLOAD", 8192);
  ("MAX_WITHDRAWAL_REQUESTS_PER_PAYLOAD", 16)].

Definition cfg_minimal : Config := [
  ("MAX_COMMITTEES_PER_SLOT", 4); ("MAX_VALIDATORS_PER_COMMITTEE", 2048); ("SLOTS_PER_EPOCH", 8);
  ("EPOCHS_PER_ETH1_VOTING_PERIOD", 4); ("SLOTS_PER_HISTORICAL_ROOT", 64);
  ("EPOCHS_PER_HISTORICAL_VECTOR", 64); ("EPOCHS_PER_SLASHINGS_VECTOR", 64);
  ("HISTORICAL_ROOTS_LIMIT", 16777216); ("VALIDATOR_REGISTRY_LIMIT", 1099511627776);
  ("MAX_PROPOSER_SLASHINGS", 16); ("MAX_ATTESTER_SLASHINGS", 2); ("MAX_ATTESTATIONS", 128);
  ("MAX_DEPOSITS", 16); ("MAX_VOLUNTARY_EXITS", 16);
  ("SYNC_COMMITTEE_SIZE", 32);
  ("MAX_BYTES_PER_TRANSACTION", 1073741824); ("MAX_TRANSACTIONS_PER_PAYLOAD", 1048576);
  ("MAX_BLS_TO_EXECUTION_CHANGES", 16); ("MAX_WITHDRAWALS_PER_PAYLOAD", 4);
  ("MAX_BLOB_COMMITMENTS_PER_BLOCK", 32);
  ("PENDING_DEPOSITS_LIMIT", 134217728); ("PENDING_PARTIAL_WITHDRAWALS_LIMIT", 64);
  ("PENDING_CONSOLIDATIONS_LIMIT", 64);
  ("MAX_ATTESTER_SLASHINGS_ELECTRA", 1); ("MAX_ATTESTATIONS_ELECTRA", 8);
  ("MAX_CONSOLIDATION_REQUESTS_PER_PAYLOAD", 2); ("MAX_DEPOSIT_REQUESTS_PER_PAYLOAD", 4);
  ("MAX_WITHDRAWAL_REQUESTS_PER_PAYLOAD", 2)].

(* every constant a distinct prime: any wrong constant, factor or arithmetic in a limit changes the value
   (the vector lengths that must be powers of two for nothing in SSZ are free to be odd here) *)
Definition cfg_primes : Config := [
  ("MAX_COMMITTEES_PER_SLOT", 5); ("MAX_VALIDATORS_PER_COMMITTEE", 7); ("SLOTS_PER_EPOCH", 11);
  ("EPOCHS_PER_ETH1_VOTING_PERIOD", 13); ("SLOTS_PER_HISTORICAL_ROOT", 17);
  ("EPOCHS_PER_HISTORICAL_VECTOR", 19); ("EPOCHS_PER_SLASHINGS_VECTOR", 23);
  ("HISTORICAL_ROOTS_LIMIT", 29); ("VALIDATOR_REGISTRY_LIMIT", 31);
  ("MAX_PROPOSER_SLASHINGS", 37); ("MAX_ATTESTER_SLASHINGS", 41); ("MAX_ATTESTATIONS", 43);
  ("MAX_DEPOSITS", 47); ("MAX_VOLUNTARY_EXITS", 53);
  ("SYNC_COMMITTEE_SIZE", 236);   (* 4 * 59: divisible by the subnet count *)
  ("MAX_BYTES_PER_TRANSACTION", 61); ("MAX_TRANSACTIONS_PER_PAYLOAD", 67);
  ("MAX_BLS_TO_EXECUTION_CHANGES", 71); ("MAX_WITHDRAWALS_PER_PAYLOAD", 73);
  ("MAX_BLOB_COMMITMENTS_PER_BLOCK", 79);
  ("PENDING_DEPOSITS_LIMIT", 83); ("PENDING_PARTIAL_WITHDRAWALS_LIMIT", 89);
  ("PENDING_CONSOLIDATIONS_LIMIT", 97);
  ("MAX_ATTESTER_SLASHINGS_ELECTRA", 101); ("MAX_ATTESTATIONS_ELECTRA", 103);
  ("MAX_CONSOLIDATION_REQUESTS_PER_PAYLOAD", 107); ("MAX_DEPOSIT_REQUESTS_PER_PAYLOAD", 109);
  ("MAX_WITHDRAWAL_REQUESTS_PER_PAYLOAD", 113)].

Definition all_denote (cfg : Config) : bool :=
  forallb (fun p => match spec_ty cfg (fst p) with Some _ => true | None => false end) spec_schemas.
Lemma spec_schemas_denote : all_denote cfg_mainnet && all_denote cfg_minimal && all_denote cfg_primes = true.
Proof. vm_compute. reflexivity. Qed.
