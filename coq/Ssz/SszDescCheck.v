(* Reflection over the regenerated descriptions (DESIGN.md App. A.4): a checker, run by vm_compute on
   GenSsz.gen_types, that every Go type's declaration, its five hand-written methods and the ztyp view
   type definitions denote exactly the pinned schema of Ssz/SpecSchemas.v under a given configuration.
   The checker returns the LIST OF PROBLEMS (empty = obligation discharged) so that a failure names the
   type, the method and what differs. *)
From Coq Require Import String NArith List Bool Ascii.
From V Require Import Ssz.SszCore Ssz.SszDesc Ssz.SpecSchemas.
Import ListNotations.
Local Open Scope string_scope.
Local Open Scope N_scope.

(* ---------- type equality up to List[uint8] = ByteList ---------- *)
Fixpoint norm_ty (t : ty) : ty :=
  match t with
  | TVector et n => match norm_ty et with TUint 1 => TByteVector n | e => TVector e n end
  | TList et l => match norm_ty et with TUint 1 => TByteList l | e => TList e l end
  | TContainer fs => TContainer (map (fun f => (fst f, norm_ty (snd f))) fs)
  | _ => t
  end.
Fixpoint ty_eqb (a b : ty) {struct a} : bool :=
  match a, b with
  | TUint x, TUint y => x =? y
  | TBool, TBool => true
  | TByteVector x, TByteVector y => x =? y
  | TByteList x, TByteList y => x =? y
  | TBitvector x, TBitvector y => x =? y
  | TBitlist x, TBitlist y => x =? y
  | TVector s x, TVector t y => ty_eqb s t && (x =? y)
  | TList s x, TList t y => ty_eqb s t && (x =? y)
  | TContainer fs, TContainer gs =>
      (fix go (fs gs : list (string * ty)) : bool :=
         match fs, gs with
         | [], [] => true
         | (n, s) :: fs', (m, t) :: gs' => String.eqb n m && ty_eqb s t && go fs' gs'
         | _, _ => false
         end) fs gs
  | _, _ => false
  end.
(* same shape, ignoring field names (Go struct field names differ from spec names) *)
Fixpoint ty_shape_eqb (a b : ty) {struct a} : bool :=
  match a, b with
  | TVector s x, TVector t y => ty_shape_eqb s t && (x =? y)
  | TList s x, TList t y => ty_shape_eqb s t && (x =? y)
  | TContainer fs, TContainer gs =>
      (fix go (fs gs : list (string * ty)) : bool :=
         match fs, gs with
         | [], [] => true
         | (_, s) :: fs', (_, t) :: gs' => ty_shape_eqb s t && go fs' gs'
         | _, _ => false
         end) fs gs
  | _, _ => ty_eqb a b
  end.
Definition same_ty (a b : ty) : bool := ty_eqb (norm_ty a) (norm_ty b).

Fixpoint all_some_map {A B} (f : A -> option B) (l : list A) : option (list B) :=
  match l with
  | [] => Some []
  | a :: l' => match f a, all_some_map f l' with Some b, Some r => Some (b :: r) | _, _ => None end
  end.

Section Check.
  Variable cfg : Config.
  Variable consts : list (string * N).
  Variable aliases : list (string * string).
  Variable views : list (string * vdef).
  Variable types : list gtype.

  (* ---------- builtins of ztyp ---------- *)
  Definition builtin_view (n : string) : option ty :=
    if String.eqb n "Uint64Type" then Some (TUint 8)
    else if String.eqb n "Uint32Type" then Some (TUint 4)
    else if String.eqb n "Uint16Type" then Some (TUint 2)
    else if String.eqb n "Uint8Type" then Some (TUint 1)
    else if String.eqb n "ByteType" then Some (TUint 1)
    else if String.eqb n "Uint256Type" then Some (TUint 32)
    else if String.eqb n "BoolType" then Some TBool
    else if String.eqb n "RootType" then Some (TByteVector 32)
    else if String.eqb n "Bytes4Type" then Some (TByteVector 4)
    else None.
  Definition builtin_go (n : string) : option ty :=
    if String.eqb n "view.Uint64View" then Some (TUint 8)
    else if String.eqb n "view.Uint32View" then Some (TUint 4)
    else if String.eqb n "view.Uint16View" then Some (TUint 2)
    else if String.eqb n "view.Uint8View" then Some (TUint 1)
    else if String.eqb n "view.Uint256View" then Some (TUint 32)
    else if String.eqb n "view.BoolView" then Some TBool
    else if String.eqb n "bool" then Some TBool
    else if String.eqb n "byte" then Some (TUint 1)
    else if String.eqb n "uint8" then Some (TUint 1)
    else if String.eqb n "uint64" then Some (TUint 8)
    else if String.eqb n "tree.Root" then Some (TByteVector 32)
    else if String.eqb n "view.RootView" then Some (TByteVector 32)
    else None.

  Fixpoint resolve_alias (fuel : nat) (n : string) : string :=
    match fuel with
    | O => n
    | S f => match lookup aliases n with Some m => resolve_alias f m | None => n end
    end.
  Definition strip_star (n : string) : string :=
    match n with String "*" r => r | _ => n end.

  (* the SSZ type a Go type name stands for: its pinned schema if it is one of the checked types, else a builtin *)
  Definition go_ty (n : string) : option ty :=
    let n := resolve_alias 5 (strip_star n) in
    match spec_ty cfg n with
    | Some t => Some t
    | None => builtin_go n
    end.
  Definition find_type (n : string) : option gtype :=
    find (fun g => String.eqb (g_name g) (resolve_alias 5 (strip_star n))) types.

  (* ---------- expressions ---------- *)
  (* [vt q] : denotation of the named view type q; [len] : value of len(receiver) where that is meaningful *)
  Fixpoint eval_exp (vt : string -> option ty) (len : option N) (e : gexp) {struct e} : option N :=
    let bin (f : N -> N -> option N) a b :=
        match eval_exp vt len a, eval_exp vt len b with Some x, Some y => f x y | _, _ => None end in
    match e with
    | ELit n => Some n
    | ESpec k => cfg_get cfg k
    | EConst k => lookup consts k
    | EMul a b => bin (fun x y => Some (x * y)) a b
    | EAdd a b => bin (fun x y => Some (x + y)) a b
    | ESub a b => bin (fun x y => if x <? y then None else Some (x - y)) a b
    | EDiv a b => bin (fun x y => if y =? 0 then None else Some (x / y)) a b
    | EShl a b => bin (fun x y => Some (N.shiftl x y)) a b
    | EShr a b => bin (fun x y => Some (N.shiftr x y)) a b
    | ETypeByteLength q =>
        match vt q with
        | Some t => match fixed_size t with Some n => Some n | None => Some 0 end
        | None => None
        end
    | EVecLength q =>
        match vt q with
        | Some (TVector _ n) => Some n
        | Some (TByteVector n) => Some n
        | _ => None
        end
    | ELen => len
    | EFieldByteLength _ => None
    | EUnknown _ => None
    end.

  Definition view_name_ty (rec : vdef -> option ty) (q : string) : option ty :=
    match q with
    | String "v" (String "i" (String "e" (String "w" (String "." r)))) => builtin_view r
    | _ => match lookup views q with Some v => rec v | None => None end
    end.

  Fixpoint view_ty (fuel : nat) (v : vdef) {struct fuel} : option ty :=
    match fuel with
    | O => None
    | S f =>
        let ev := eval_exp (view_name_ty (view_ty f)) None in
        match v with
        | VRef q => view_name_ty (view_ty f) q
        | VBasic n => builtin_view n
        | VContainer _ fs =>
            option_map TContainer
              (all_some_map (fun p => match view_ty f (snd p) with Some t => Some (fst p, t) | None => None end) fs)
        | VList e l => match view_ty f e, ev l with Some t, Some n => Some (TList t n) | _, _ => None end
        | VVector e l => match view_ty f e, ev l with Some t, Some n => Some (TVector t n) | _, _ => None end
        | VBitList l => option_map TBitlist (ev l)
        | VBitVector l => option_map TBitvector (ev l)
        | VSmallBytes l => match ev l with Some n => if n <=? 32 then Some (TByteVector n) else None | None => None end
        | VUnknown _ => None
        end
    end.
  Definition vfuel : nat := 30.
  Definition vt (q : string) : option ty := view_name_ty (view_ty vfuel) q.
  Definition ev (len : option N) (e : gexp) : option N := eval_exp vt len e.
  Definition ev_is (len : option N) (e : gexp) (n : N) : bool :=
    match ev len e with Some m => m =? n | None => false end.
  (* e, as a function of len(receiver), equals f at a few probe lengths *)
  Definition ev_fun_is (e : gexp) (f : N -> N) : bool :=
    forallb (fun k => ev_is (Some k) e (f k)) [0; 1; 2; 7; 1000].

  (* ---------- problems ---------- *)
  Definition problems := list string.
  Notation "a +++ b" := (@app string a b) (at level 60, right associativity).
  Definition chk (b : bool) (msg : string) : problems := if b then [] else [msg].
  Definition fsize (t : ty) : N := match fixed_size t with Some n => n | None => 0 end.

  (* container argument lists *)
  Definition arg_field (a : garg) : string :=
    match a with GArg f _ => f | GArgConv f _ => f | GArgUnknown p => "?" ++ p end.
  Fixpoint str_list_eqb (a b : list string) : bool :=
    match a, b with
    | [], [] => true
    | x :: a', y :: b' => String.eqb x y && str_list_eqb a' b'
    | _, _ => false
    end.
  Definition field_go_type (fields : list (string * string * string * string)) (f : string) : option string :=
    match find (fun x => match x with (n, _, _, _) => String.eqb n f end) fields with
    | Some (_, t, _, _) => Some t
    | None => None
    end.
  (* wrapped iff the field's type takes a spec; conversions must denote the field's schema *)
  Definition arg_ok (fields : list (string * string * string * string)) (a : garg) : bool :=
    match a with
    | GArg f w =>
        match field_go_type fields f with
        | Some t => match find_type t with
                    | Some g => Bool.eqb (g_spec g) w
                    | None => negb w
                    end
        | None => false
        end
    | GArgConv f c =>
        match field_go_type fields f with
        | Some t => match go_ty t, go_ty c with Some a, Some b => same_ty a b | _, _ => false end
        | None => false
        end
    | GArgUnknown _ => false
    end.
  Definition args_ok (who : string) (fields : list (string * string * string * string)) (args : list garg) : problems :=
    chk (str_list_eqb (map arg_field args) (map (fun x => match x with (n, _, _, _) => n end) fields))
        (who ++ ": argument list differs from the struct field order") +++
    chk (forallb (arg_ok fields) args) (who ++ ": an argument is not a plain field reference / has the wrong Wrap or conversion").

  Fixpoint flatten_sum (e : gexp) : list gexp :=
    match e with EAdd a b => flatten_sum a ++ flatten_sum b | _ => [e] end.
  Definition is_field_len (e : gexp) : option string := match e with EFieldByteLength f => Some f | _ => None end.

  Fixpoint distinct (l : list string) : bool :=
    match l with [] => true | x :: l' => negb (existsb (String.eqb x) l') && distinct l' end.

  (* canonical Merkle tree of a byte array of [size] bytes: ceil(size/32) chunks, zero-padded to a power of two *)
  Fixpoint pair_up (l : list htree) : list htree :=
    match l with
    | a :: b :: r => HNode a b :: pair_up r
    | [a] => [HNode a HZero]
    | [] => []
    end.
  Fixpoint canon_level (fuel : nat) (leaves : list htree) : htree :=
    match fuel with
    | O => HZero
    | S f => match leaves with
             | [] => HZero
             | [x] => x
             | _ => canon_level f (pair_up leaves)
             end
    end.
  Fixpoint chunk_leaves (n : nat) (lo size : N) : list htree :=
    match n with
    | O => []
    | S n' => HChunk lo (N.min (lo + 32) size) :: chunk_leaves n' (lo + 32) size
    end.
  Definition canon_tree (size : N) : htree :=
    canon_level 10 (chunk_leaves (N.to_nat ((size + 31) / 32)) 0 size).
  Fixpoint clip_tree (size : N) (t : htree) : htree :=
    match t with
    | HChunk lo hi => HChunk lo (N.min hi size)
    | HZero => HZero
    | HNode l r => HNode (clip_tree size l) (clip_tree size r)
    end.
  Fixpoint htree_eqb (a b : htree) : bool :=
    match a, b with
    | HChunk x y, HChunk u v => (x =? u) && (y =? v)
    | HZero, HZero => true
    | HNode l r, HNode l' r' => htree_eqb l l' && htree_eqb r r'
    | _, _ => false
    end.

  (* hand-written bodies reviewed on the pinned snapshot, by fingerprint of the body text *)
  Variable reviewed : list (string * string).     (* "pkg.Type/Method" , fingerprint *)
  Definition custom_ok (name meth : string) (m : gmeth) : bool :=
    match m with
    | MCustom fp _ => existsb (fun p => String.eqb (fst p) (name ++ "/" ++ meth) && String.eqb (snd p) fp) reviewed
    | _ => false
    end.

  Definition is_basic_ty (t : ty) : bool := match t with TUint _ | TBool => true | _ => false end.
  Definition is_root_ty (t : ty) : bool := match t with TByteVector 32 => true | _ => false end.

  (* ---------- homogeneous collections: list / vector of elements of type [et] ---------- *)
  Definition list_checks (name : string) (g : gtype) (et : ty) (limit : N) (elem_spec : bool) : problems :=
    let es := fsize et in
    chk (match g_deser g with
         | MList w esz lim => Bool.eqb w elem_spec && ev_is None esz es && ev_is None lim limit
         | MReadRootsLimited lim => is_root_ty et && ev_is None lim limit
         | m => custom_ok name "Deserialize" m
         end) (name ++ ".Deserialize: not a list decoder of the schema's element size and limit") +++
    chk (match g_ser g with
         | MList w esz ELen => Bool.eqb w elem_spec && ev_is None esz es
         | MWriteRoots => is_root_ty et
         | m => custom_ok name "Serialize" m
         end) (name ++ ".Serialize: not a list encoder of the schema's element size") +++
    chk (match g_blen g with
         | MExp e => negb (es =? 0) && ev_fun_is e (fun k => k * es)
         | MSumOffsets w => (es =? 0) && Bool.eqb w elem_spec
         | m => custom_ok name "ByteLength" m
         end) (name ++ ".ByteLength: not len * element size (fixed) / sum of lengths + offsets (variable)") +++
    chk (match g_flen g with MExp e => ev_is None e 0 | m => custom_ok name "FixedLength" m end)
        (name ++ ".FixedLength: a list must report 0") +++
    chk (match g_htr g with
         | MListHTR kind w lim =>
             ev_is None lim limit &&
             (if String.eqb kind "Complex" then negb (is_basic_ty et) && Bool.eqb w elem_spec
              else if String.eqb kind "Uint64" then ty_eqb et (TUint 8)
              else if String.eqb kind "Uint8" then ty_eqb et (TUint 1)
              else false)
         | m => custom_ok name "HashTreeRoot" m
         end) (name ++ ".HashTreeRoot: not the list merkleization of the schema (kind / limit)").

  Definition vector_checks (name : string) (g : gtype) (et : ty) (n : N) (elem_spec : bool) : problems :=
    let es := fsize et in
    chk (negb (es =? 0)) (name ++ ": vector of variable-size elements is not supported by the checker") +++
    chk (match g_deser g with
         | MVector w esz len => Bool.eqb w elem_spec && ev_is None esz es && ev_is None len n
         | MReadRoots len => is_root_ty et && ev_is None len n
         | m => custom_ok name "Deserialize" m
         end) (name ++ ".Deserialize: not a vector decoder of the schema's element size and length") +++
    chk (match g_ser g with
         | MVector w esz len => Bool.eqb w elem_spec && ev_is None esz es && ev_is (Some n) len n
         | MWriteRoots => is_root_ty et
         | m => custom_ok name "Serialize" m
         end) (name ++ ".Serialize: not a vector encoder of the schema's element size") +++
    chk (match g_blen g with MExp e => ev_is (Some n) e (n * es) | m => custom_ok name "ByteLength" m end)
        (name ++ ".ByteLength: not length * element size") +++
    chk (match g_flen g with MExp e => ev_is (Some n) e (n * es) | m => custom_ok name "FixedLength" m end)
        (name ++ ".FixedLength: not length * element size") +++
    chk (match g_htr g with
         | MVectorHTR kind w len =>
             ev_is (Some n) len n &&
             (if String.eqb kind "Complex" then negb (is_basic_ty et) && Bool.eqb w elem_spec
              else if String.eqb kind "Chunks" then is_root_ty et
              else if String.eqb kind "Uint64" then ty_eqb et (TUint 8)
              else if String.eqb kind "Uint8" then ty_eqb et (TUint 1)
              else false)
         | m => custom_ok name "HashTreeRoot" m
         end) (name ++ ".HashTreeRoot: not the vector merkleization of the schema (kind / length)").

  (* ---------- byte-backed leaves held in a Go slice: ByteList, Bitlist, Bitvector ---------- *)
  Definition byteslice_checks (name : string) (g : gtype) (t : ty) : problems :=
    match t with
    | TByteList l =>
        chk (match g_deser g with MByteList e => ev_is None e l | m => custom_ok name "Deserialize" m end) (name ++ ".Deserialize: byte list limit") +++
        chk (match g_ser g with MWriteBytes => true | m => custom_ok name "Serialize" m end) (name ++ ".Serialize: byte list") +++
        chk (match g_blen g with MExp e => ev_fun_is e (fun k => k) | m => custom_ok name "ByteLength" m end) (name ++ ".ByteLength: byte list") +++
        chk (match g_flen g with MExp e => ev_is None e 0 | m => custom_ok name "FixedLength" m end) (name ++ ".FixedLength: byte list must report 0") +++
        chk (match g_htr g with MListHTR "Byte" _ e => ev_is None e l | m => custom_ok name "HashTreeRoot" m end) (name ++ ".HashTreeRoot: byte list limit")
    | TBitlist l =>
        chk (match g_deser g with MBitList e => ev_is None e l | m => custom_ok name "Deserialize" m end) (name ++ ".Deserialize: bitlist limit") +++
        chk (match g_ser g with MWriteBitList => true | m => custom_ok name "Serialize" m end) (name ++ ".Serialize: bitlist") +++
        chk (match g_blen g with MExp e => ev_fun_is e (fun k => k) | m => custom_ok name "ByteLength" m end) (name ++ ".ByteLength: bitlist") +++
        chk (match g_flen g with MExp e => ev_is None e 0 | m => custom_ok name "FixedLength" m end) (name ++ ".FixedLength: bitlist must report 0") +++
        chk (match g_htr g with MListHTR "Bit" _ e => ev_is None e l | m => custom_ok name "HashTreeRoot" m end) (name ++ ".HashTreeRoot: bitlist limit")
    | TBitvector n =>
        let bl := (n + 7) / 8 in
        chk (match g_deser g with MBitVector e => ev_is None e n | m => custom_ok name "Deserialize" m end) (name ++ ".Deserialize: bitvector length") +++
        chk (match g_ser g with MWriteBitVector => true | m => custom_ok name "Serialize" m end) (name ++ ".Serialize: bitvector") +++
        chk (match g_blen g with MExp e => ev_is (Some bl) e bl | m => custom_ok name "ByteLength" m end) (name ++ ".ByteLength: bitvector") +++
        chk (match g_flen g with MExp e => ev_is (Some bl) e bl | m => custom_ok name "FixedLength" m end) (name ++ ".FixedLength: bitvector") +++
        chk (match g_htr g with MVectorHTR "Bit" _ ELen => true | m => custom_ok name "HashTreeRoot" m end) (name ++ ".HashTreeRoot: bitvector")
    | _ => [name ++ ": a []byte type must be a ByteList, Bitlist or Bitvector in the schema"]
    end.

  (* ---------- fixed byte arrays: ByteVector[n] / small Bitvector ---------- *)
  Definition bytearray_checks (name : string) (g : gtype) (t : ty) (alen : N) : problems :=
    let size := fsize t in
    chk (match t with TByteVector _ | TBitvector _ => true | _ => false end) (name ++ ": a [n]byte type must be a ByteVector or Bitvector in the schema") +++
    chk (alen =? size) (name ++ ": array length differs from the schema's byte size") +++
    chk (match g_deser g, t with
         | MReadArray, TByteVector _ => true
         | MReadArray, TBitvector n => n mod 8 =? 0           (* no padding bits to police *)
         | MBitVector e, TBitvector n => ev_is None e n      (* read + BitvectorCheck(n) *)
         | m, _ => custom_ok name "Deserialize" m
         end) (name ++ ".Deserialize: not a plain read of the array (byte vector) / read with padding check (bitvector)") +++
    chk (match g_ser g with MWriteBytes => true | m => custom_ok name "Serialize" m end) (name ++ ".Serialize: not a plain write of the array") +++
    chk (match g_blen g with MExp e => ev_is None e size | m => custom_ok name "ByteLength" m end) (name ++ ".ByteLength: not the array size") +++
    chk (match g_flen g with MExp e => ev_is None e size | m => custom_ok name "FixedLength" m end) (name ++ ".FixedLength: not the array size") +++
    chk (match g_htr g with
         | MHtrPadded => size =? 32
         | MHtrTree tr => htree_eqb (clip_tree size tr) (canon_tree size)
         | m => custom_ok name "HashTreeRoot" m
         end) (name ++ ".HashTreeRoot: hand-written tree is not the merkleization of the byte vector").

  (* ---------- named basic types: type Slot Uint64View ---------- *)
  Definition named_checks (name : string) (g : gtype) (t : ty) : problems :=
    let size := fsize t in
    let deleg m := match m with MDelegate tgt => match go_ty tgt with Some u => same_ty u t | None => false end | _ => false end in
    chk (is_basic_ty t) (name ++ ": a named scalar type must be a basic type in the schema") +++
    chk (deleg (g_deser g) || custom_ok name "Deserialize" (g_deser g)) (name ++ ".Deserialize: does not delegate to the basic view of the schema's width") +++
    chk (match g_ser g with MWriteUint k => k =? size | m => deleg m || custom_ok name "Serialize" m end) (name ++ ".Serialize: wrong integer width") +++
    chk (match g_blen g with MExp e => ev_is None e size | m => custom_ok name "ByteLength" m end) (name ++ ".ByteLength") +++
    chk (match g_flen g with MExp e => ev_is None e size | m => custom_ok name "FixedLength" m end) (name ++ ".FixedLength") +++
    chk (deleg (g_htr g) || custom_ok name "HashTreeRoot" (g_htr g)) (name ++ ".HashTreeRoot: does not delegate to the basic view of the schema's width").

  (* ---------- containers ---------- *)
  Definition struct_checks (name : string) (g : gtype) (sfs : list (string * ty))
             (fields : list (string * string * string * string)) : problems :=
    let t := TContainer sfs in
    let fixed := is_fixed t in
    let fixed_part := fold_right (fun (f : string * ty) acc => slot_size (snd f) + acc) 0 sfs in
    let var_fields := flat_map (fun p => match p with ((gn, _, _, _), (_, ft)) => if is_fixed ft then [] else [gn] end) (combine fields sfs) in
    chk (Nat.eqb (length fields) (length sfs)) (name ++ ": number of struct fields differs from the schema") +++
    flat_map (fun p => match p with ((gn, gt, js, ys), (sn, st)) =>
                chk (match go_ty gt with Some u => same_ty u st | None => false end)
                    (name ++ "." ++ gn ++ ": Go field type " ++ gt ++ " does not denote the schema type of field " ++ sn)
              end) (combine fields sfs) +++
    chk (distinct (map (fun x => match x with (gn, _, js, _) => if String.eqb js "" then gn else js end) fields) &&
         negb (existsb (fun x => match x with (_, _, js, _) => String.eqb js "-" end) fields))
        (name ++ ": JSON field names are not pairwise distinct") +++
    chk (distinct (map (fun x => match x with (gn, _, _, ys) => if String.eqb ys "" then gn else ys end) fields) &&
         negb (existsb (fun x => match x with (_, _, _, ys) => String.eqb ys "-" end) fields))
        (name ++ ": YAML field names are not pairwise distinct") +++
    (match g_deser g with
     | MContainer fl args => args_ok (name ++ ".Deserialize") fields args +++
                             chk (implb fl fixed) (name ++ ".Deserialize: FixedLenContainer used for a variable-size container")
     | m => chk (custom_ok name "Deserialize" m) (name ++ ".Deserialize: not a container decoder")
     end) +++
    (match g_ser g with
     | MContainer fl args => args_ok (name ++ ".Serialize") fields args +++
                             chk (implb fl fixed) (name ++ ".Serialize: FixedLenContainer used for a variable-size container")
     | m => chk (custom_ok name "Serialize" m) (name ++ ".Serialize: not a container encoder")
     end) +++
    (match g_blen g with
     | MContainerLength args => args_ok (name ++ ".ByteLength") fields args
     | MExp e =>
         if fixed then chk (ev_is None e (fsize t)) (name ++ ".ByteLength: constant differs from the schema's fixed size")
         else
           let terms := flatten_sum e in
           let fl := flat_map (fun x => match is_field_len x with Some f => [f] | None => [] end) terms in
           let rest := filter (fun x => match is_field_len x with Some _ => false | None => true end) terms in
           let total := fold_right (fun x acc => match ev None x, acc with Some a, Some b => Some (a + b) | _, _ => None end) (Some 0) rest in
           chk (match total with Some n => n =? fixed_part | None => false end)
               (name ++ ".ByteLength: constant part differs from the schema's fixed part") +++
           chk (distinct fl && Nat.eqb (length fl) (length var_fields) && forallb (fun f => existsb (String.eqb f) var_fields) fl)
               (name ++ ".ByteLength: does not add the length of every variable-size field exactly once")
     | m => chk (custom_ok name "ByteLength" m) (name ++ ".ByteLength: unrecognised")
     end) +++
    (match g_flen g with
     | MExp e => chk (ev_is None e (fsize t)) (name ++ ".FixedLength: differs from the schema (fixed size, or 0 when variable)")
     | MContainerLength args => args_ok (name ++ ".FixedLength") fields args +++
                                chk fixed (name ++ ".FixedLength: ContainerLength used for a variable-size container")
     | m => chk (custom_ok name "FixedLength" m) (name ++ ".FixedLength: unrecognised")
     end) +++
    (match g_htr g with
     | MHtrFields args => args_ok (name ++ ".HashTreeRoot") fields args
     | m => chk (custom_ok name "HashTreeRoot" m) (name ++ ".HashTreeRoot: not a field-root merkleization")
     end).

  Definition elem_spec_of (elem : string) : bool :=
    match find_type elem with Some g => g_spec g | None => false end.

  Definition type_problems (g : gtype) : problems :=
    let name := g_name g in
    match spec_ty cfg name with
    | None => [name ++ ": no pinned schema in SpecSchemas.v (new or renamed type)"]
    | Some t =>
        match g_decl g, t with
        | DStruct fields, TContainer sfs => struct_checks name g sfs fields
        | DStruct _, _ => [name ++ ": Go struct but the schema is not a container"]
        | DSlice elem _, _ =>
            if String.eqb elem "byte" then byteslice_checks name g t
            else
              match go_ty elem, norm_ty t with
              | Some et, TList st l =>
                  chk (same_ty et st) (name ++ ": element type " ++ elem ++ " does not denote the schema's element type") +++
                  list_checks name g et l (elem_spec_of elem)
              | Some et, TByteList l =>
                  chk (same_ty et (TUint 1)) (name ++ ": element type " ++ elem ++ " is not uint8") +++
                  list_checks name g et l (elem_spec_of elem)
              | Some et, TVector st n =>
                  chk (same_ty et st) (name ++ ": element type " ++ elem ++ " does not denote the schema's element type") +++
                  vector_checks name g et n (elem_spec_of elem)
              | _, _ => [name ++ ": Go slice of " ++ elem ++ " but the schema is not a list/vector of it"]
              end
        | DArray n elem, _ =>
            match ev None n with
            | None => [name ++ ": array length not evaluable"]
            | Some alen =>
                if String.eqb elem "byte" then bytearray_checks name g t alen
                else
                  match go_ty elem, norm_ty t with
                  | Some et, TVector st k =>
                      chk (same_ty et st && (alen =? k)) (name ++ ": array does not match the schema's vector") +++
                      vector_checks name g et k (elem_spec_of elem)
                  | _, _ => [name ++ ": Go array of " ++ elem ++ " but the schema is not a vector of it"]
                  end
            end
        | DNamed under, _ =>
            chk (match go_ty under with Some u => same_ty u t | None => false end)
                (name ++ ": underlying type " ++ under ++ " does not denote the schema") +++
            named_checks name g t
        | DUnknown p, _ => [name ++ ": unrecognised type declaration at " ++ p]
        end
    end.

  (* ---------- view type definitions ---------- *)
  (* (1) a ContainerType("N", ..) defined in package p must denote the schema of p.N, field names included;
     (2) every named view definition must denote something (no Unknown inside);
     (3) through (1), every field's view type is checked against the schema of the field. *)
  Definition pkg_of (q : string) : string :=
    (fix go (s : string) : string :=
       match s with
       | EmptyString => ""
       | String "." _ => ""
       | String c r => String c (go r)
       end) q.
  (* "pkg.XType" -> "pkg.X" *)
  Definition strip_type_suffix (q : string) : string :=
    let n := String.length q in
    if (4 <? N.of_nat n) && String.eqb (substring (n - 4) 4 q) "Type" then substring 0 (n - 4) q else q.
  Definition view_problems (p : string * vdef) : problems :=
    let (q, v) := p in
    match view_ty vfuel v with
    | None => ["view " ++ q ++ ": definition not understood (Unknown node, unknown constant or reference)"]
    | Some t =>
        match v with
        | VContainer n _ =>
            (* paired with the struct named like the definition (XType <-> X), else like the container label *)
            let k1 := strip_type_suffix q in
            let k2 := pkg_of q ++ "." ++ n in
            match spec_ty cfg k1, spec_ty cfg k2 with
            | Some st, _ => chk (ty_shape_eqb (norm_ty t) (norm_ty st)) ("view " ++ q ++ ": differs from the schema of " ++ k1 ++ " (field types, order or limits)")
            | None, Some st => chk (ty_shape_eqb (norm_ty t) (norm_ty st)) ("view " ++ q ++ ": differs from the schema of " ++ k2 ++ " (field types, order or limits)")
            | None, None => ["view " ++ q ++ ": no schema named " ++ k1 ++ " or " ++ k2]
            end
        | _ => []
        end
    end.

  (* advisory: json/yaml tags that are not the specification's field names (round trip is unaffected) *)
  Definition tag_notes (g : gtype) : list string :=
    match g_decl g, spec_ty cfg (g_name g) with
    | DStruct fields, Some (TContainer sfs) =>
        flat_map (fun p => match p with ((gn, _, js, ys), (sn, _)) =>
                    (if String.eqb js sn then [] else [g_name g ++ "." ++ gn ++ ": json """ ++ js ++ """ vs spec """ ++ sn ++ """"]) +++
                    (if String.eqb ys sn then [] else [g_name g ++ "." ++ gn ++ ": yaml """ ++ ys ++ """ vs spec """ ++ sn ++ """"])
                  end) (combine fields sfs)
    | _, _ => []
    end.

  Definition view_name_notes (p : string * vdef) : list string :=
    let (q, v) := p in
    match v, view_ty vfuel v with
    | VContainer n _, Some (TContainer vfs) =>
        match spec_ty cfg (strip_type_suffix q) with
        | Some (TContainer sfs) =>
            (if String.eqb (pkg_of q ++ "." ++ n) (strip_type_suffix q) then [] else ["view " ++ q ++ ": container label """ ++ n ++ """"]) +++
            flat_map (fun x => if String.eqb (fst (fst x)) (fst (snd x)) then []
                               else ["view " ++ q ++ ": field """ ++ fst (fst x) ++ """ vs spec """ ++ fst (snd x) ++ """"]) (combine vfs sfs)
        | _ => []
        end
    | _, _ => []
    end.
  Definition all_notes : list string := flat_map tag_notes types +++ flat_map view_name_notes views.

  (* every schema is implemented by some Go type and vice versa *)
  Definition coverage_problems : problems :=
    flat_map (fun p => chk (existsb (fun g => String.eqb (g_name g) (fst p)) types)
                           ("schema " ++ fst p ++ ": no Go type with the five methods (removed or renamed)")) spec_schemas.

  Definition all_problems : problems :=
    coverage_problems +++ flat_map type_problems types +++ flat_map view_problems views.
End Check.

(* hand-written method bodies that match no idiom, reviewed on the pinned snapshot (fingerprint = first 6 bytes
   of SHA-256 of the printed body); any edit changes the fingerprint and fails the obligation:
   - JustificationBits.Serialize: the single byte written directly (Bitvector[4] in one byte);
   - LogsBloom.HashTreeRoot: 8 chunks of 32 bytes hashed pairwise in three levels (= merkleize of 256 bytes). *)
Definition reviewed_bodies : list (string * string) := [
  ("common.JustificationBits/Serialize", "d8a288f40f23");
  ("common.LogsBloom/HashTreeRoot", "a513d7fca844")].
