(* The default value of an SSZ type (simple-serialize.md, "Default values"): what a zero-initialised object denotes.
   Used to judge the Go zero values (ent.New(), untouched by any decoder) of every zrnt type. *)
From Coq Require Import String NArith List Bool Lia ZifyN ZifyNat.
From V Require Import Ssz.SszCore Ssz.SszProofs.
Import ListNotations.
Local Open Scope N_scope.

Fixpoint default_value (t : ty) : value :=
  match t with
  | TUint _ => VUint 0
  | TBool => VBool false
  | TByteVector n => VBytes (repeat 0 (N.to_nat n))
  | TByteList _ => VBytes []
  | TBitvector n => VBits (repeat false (N.to_nat n))
  | TBitlist _ => VBits []
  | TVector et n => VSeq (repeat (default_value et) (N.to_nat n))
  | TList _ _ => VSeq []
  | TContainer fs =>
      VCont ((fix go (fs : list (string * ty)) : list value :=
                match fs with [] => [] | (_, ft) :: fs' => default_value ft :: go fs' end) fs)
  end.
Fixpoint default_fields (fs : list (string * ty)) : list value :=
  match fs with [] => [] | (_, ft) :: fs' => default_value ft :: default_fields fs' end.
Lemma default_value_container fs : default_value (TContainer fs) = VCont (default_fields fs).
Proof. reflexivity. Qed.

Lemma len_N_repeat {A} (x : A) n : len_N (repeat x (N.to_nat n)) = n.
Proof. unfold len_N. rewrite repeat_length. lia. Qed.
Lemma forallb_repeat {A} (f : A -> bool) x n : f x = true -> forallb f (repeat x n) = true.
Proof. intros H. induction n; simpl; [reflexivity | now rewrite H]. Qed.

(* the default value is a value of the type, for every type *)
Theorem default_has_type : forall t, has_type t (default_value t) = true.
Proof.
  induction t using ty_ind'; cbn [default_value has_type].
  - apply N.ltb_lt. apply N.neq_0_lt_0, N.pow_nonzero. lia.
  - reflexivity.
  - rewrite len_N_repeat, N.eqb_refl. cbn [andb]. now apply forallb_repeat.
  - cbn [forallb]. rewrite andb_true_r. apply N.leb_le. cbn. lia.
  - rewrite len_N_repeat. apply N.eqb_refl.
  - apply N.leb_le. cbn. lia.
  - rewrite len_N_repeat, N.eqb_refl. cbn [andb]. now apply forallb_repeat.
  - cbn [forallb]. rewrite andb_true_r. apply N.leb_le. cbn. lia.
  - change (has_type (TContainer fs) (default_value (TContainer fs)) = true).
    rewrite default_value_container, has_type_container.
    induction H as [|[fn ft] fs' Hft Hrest IH]; [reflexivity|].
    cbn [default_fields type_fields]. cbn [snd] in Hft. now rewrite Hft, IH.
Qed.

(* hence it round-trips through the codec (whenever its encoding fits the 4-byte offsets) *)
Corollary default_roundtrip : forall t, wf_ty t = true -> len_N (serialize t (default_value t)) < 2 ^ 32 ->
  deserialize t (serialize t (default_value t)) = Some (default_value t).
Proof. intros t Hw Hl. apply deser_ser; [assumption | apply default_has_type | assumption]. Qed.
