(* Descriptions regenerated from /repo by tools/go2coq (the data types only; the checker is Ssz/SszDescCheck.v).
   A [gtype] is what the translator saw of one Go type that carries the five SSZ methods:
   its declaration and, per method, the codec idiom with its argument list / size and limit expressions.
   A [vdef] is a ztyp view type definition (ContainerType(...), ListType(...), ...).
   Anything the translator did not recognise is an [..Unknown "<file:line>"] / [MCustom] node; the checker
   rejects those (MCustom only passes when its fingerprint is in the reviewed list). *)
From Coq Require Import String NArith List.
Import ListNotations.

Inductive gexp : Type :=
| ELit (n : N)
| ESpec (name : string)               (* spec.NAME : preset / config constant *)
| EConst (qname : string)             (* package-level Go constant, value listed in gen_consts *)
| EMul (a b : gexp) | EAdd (a b : gexp) | ESub (a b : gexp) | EDiv (a b : gexp)
| EShl (a b : gexp) | EShr (a b : gexp)
| ETypeByteLength (view : string)     (* XType.TypeByteLength() / XType.Size of a named view type *)
| EVecLength (view : string)          (* XType.Length() *)
| ELen                                (* len(receiver) *)
| EFieldByteLength (field : string)   (* recv.Field.ByteLength(..) *)
| EUnknown (pos : string).

Inductive vdef : Type :=
| VRef (qname : string)               (* named view type (var or function of spec) *)
| VBasic (name : string)              (* ztyp builtin: Uint64Type, Uint8Type, BoolType, ByteType, RootType, ... *)
| VContainer (name : string) (fields : list (string * vdef))
| VList (elem : vdef) (limit : gexp)  (* ListType / ComplexListType / BasicListType *)
| VVector (elem : vdef) (len : gexp)  (* VectorType / ComplexVectorType / BasicVectorType *)
| VBitList (limit : gexp)
| VBitVector (len : gexp)
| VSmallBytes (n : gexp)              (* SmallByteVecMeta(n), n <= 32 *)
| VUnknown (pos : string).

Inductive garg : Type :=
| GArg (field : string) (wrapped : bool)
| GArgConv (field : string) (conv : string)      (* BoolView conversion of a builtin-typed field *)
| GArgUnknown (pos : string).

(* shape of a hand-written Merkle tree over slices of the receiver array *)
Inductive htree : Type :=
| HChunk (lo hi : N)                  (* zero chunk with recv[lo:hi] copied to its start *)
| HZero
| HNode (l r : htree).

Inductive gmeth : Type :=
| MContainer (fixedlen : bool) (args : list garg)     (* Container or FixedLenContainer *)
| MContainerLength (args : list garg)                 (* codec.ContainerLength *)
| MHtrFields (args : list garg)                       (* hFn.HashTreeRoot(fields...) *)
| MList (wrapped : bool) (elemsize limit : gexp)      (* dr.List(add, size, limit) ; w.List(item, size, len) has limit = ELen *)
| MVector (wrapped : bool) (elemsize len : gexp)
| MReadRoots (len : gexp)
| MReadRootsLimited (limit : gexp)
| MWriteRoots
| MBitVector (n : gexp)                               (* dr.BitVector *)
| MBitList (limit : gexp)                             (* dr.BitList *)
| MByteList (limit : gexp)                            (* dr.ByteList *)
| MWriteBitVector | MWriteBitList
| MWriteBytes                                         (* w.Write(x) / w.Write(x[:]) *)
| MReadArray                                          (* dr.Read(x[:]) into the receiver array *)
| MDelegate (target : string)                         (* receiver converted to a builtin view type, same method *)
| MWriteUint (nbytes : N)                             (* w.WriteUint64(uint64(x)) / w.WriteByte(uint8(x)) *)
| MExp (e : gexp)                                     (* ByteLength / FixedLength given by an expression *)
| MSumOffsets (wrapped : bool)                        (* for v in a { out += v.ByteLength(..) + OFFSET_SIZE } *)
| MListHTR (kind : string) (wrapped : bool) (limit : gexp)   (* Complex | Uint64 | Uint8 | Byte | Bit *)
| MVectorHTR (kind : string) (wrapped : bool) (len : gexp)   (* Complex | Uint64 | Bit | Chunks | Byte *)
| MHtrPadded                                          (* root = the receiver's bytes, zero-padded to 32 *)
| MHtrTree (t : htree)                                (* explicit hFn(..) tree over 32-byte slices *)
| MCustom (fingerprint : string) (pos : string)       (* hand-written body *)
| MMissing
| MUnknown (pos : string).

Inductive gdecl : Type :=
| DStruct (fields : list (string * string * string * string))   (* Go name, Go type, json tag, yaml tag *)
| DSlice (elem : string) (ptr : bool)                  (* []T or []*T *)
| DArray (n : gexp) (elem : string)
| DNamed (under : string)                              (* type Slot Uint64View *)
| DUnknown (pos : string).

Record gtype : Type := mk_gtype {
  g_name : string;          (* "phase0.Attestation" *)
  g_pos : string;
  g_spec : bool;            (* the five methods take a *Spec *)
  g_decl : gdecl;
  g_deser : gmeth; g_ser : gmeth; g_blen : gmeth; g_flen : gmeth; g_htr : gmeth }.

(* accessor tables *)
Record gaccessor : Type := mk_gacc {
  a_method : string;        (* method name on the view type *)
  a_gets : list string;     (* index expressions used in v.Get(..) : constant names or literals *)
  a_sets : list string;     (* index expressions used in v.Set(..) *)
  a_wrap : list string;     (* As<T> wrappers applied to Get results *)
  a_pos : string }.
Record gviewtype : Type := mk_gview {
  v_name : string;          (* "phase0.BeaconStateView" *)
  v_embeds : string;        (* embedded ztyp view: ContainerView, ComplexListView, ... *)
  v_iota : list string;     (* the _state* iota block of the file, if the type is a state view *)
  v_methods : list gaccessor }.
