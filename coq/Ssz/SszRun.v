(* C04 / C05 correspondence: evaluate the generic SSZ model, instantiated at the pinned schema of the named
   type under the case's configuration, on the byte strings the Go harness fed to zrnt, and judge what Go did.
   The model decides whether the input is a canonical encoding of an in-limit value ([deserialize]); Go must
   accept exactly those, reproduce the bytes, report the lengths, and (C05) compute the model's root in both the
   struct form and the view form. *)
From Coq Require Import String Ascii NArith List Bool.
From V Require Import Base.Sha256 Ssz.SszCore Ssz.SszDesc Ssz.SpecSchemas Ssz.SszDefault.
Import ListNotations.
Local Open Scope N_scope.

(* ---------- hex strings (compact transport of byte strings) ---------- *)
Definition hexval (c : ascii) : N :=
  let n := N_of_ascii c in
  if (48 <=? n) && (n <=? 57) then n - 48
  else if (97 <=? n) && (n <=? 102) then n - 87
  else if (65 <=? n) && (n <=? 70) then n - 55
  else 0.
Fixpoint unhex (s : string) : bytes :=
  match s with
  | String a (String b r) => (16 * hexval a + hexval b) :: unhex r
  | _ => []
  end.

Fixpoint bytes_eqb (a b : bytes) : bool :=
  match a, b with
  | [], [] => true
  | x :: a', y :: b' => (x =? y) && bytes_eqb a' b'
  | _, _ => false
  end.

(* ---------- executable hash ---------- *)
Definition zero_table : list bytes :=
  Eval vm_compute in
    (fix go (n : nat) (z : bytes) : list bytes :=
       match n with O => [z] | S n' => z :: go n' (sha256 (z ++ z)) end) 64%nat (repeat 0 32).
Definition zero_hash_tbl (d : nat) : bytes := nth d zero_table [].
Definition htr (t : ty) (v : value) : bytes := hash_tree_root sha256 zero_hash_tbl t v.

(* ---------- what the harness observed ---------- *)
Inductive viewres : Type :=
| VNone                                   (* the type has no view form *)
| VRefused
| VPanic
| VAccepted (reser_same : bool) (root : string).

Inductive structres : Type :=
| SRefused
| SPanic
| SAccepted (reser : option string)       (* None: Serialize reproduced the input bytes; Some h: other bytes *)
            (bytelen fixedlen : N)
            (root : string)               (* struct-form HashTreeRoot, hex *)
            (json_ok yaml_ok : bool).     (* marshal + unmarshal + serialize gave the input bytes *)

(* how the Go zero value of a type relates to the type's values *)
Inductive zshape : Type :=
| ZClean        (* the zero value represents the SSZ default value (arrays, nil = empty list) *)
| ZNilBits      (* it holds a nil slice for a bitvector / bitlist: zrnt hashes nil as the default, Serialize may refuse *)
| ZNotAValue.   (* it holds a nil slice where a vector of n > 0 elements is required: not a value of the type *)

Inductive scase : Type :=
| CSsz (cfg : Config) (name : string) (input : string) (s : structres) (v : viewres)
(* the Go zero value of the type (never decoded): what Serialize wrote (None: it returned an error), the reported
   lengths, the struct-form root, the root of the view type's default node, whether its own bytes decode back *)
| CZero (cfg : Config) (name : string) (shape : zshape) (ser : option string) (bytelen fixedlen : N)
        (root : string) (viewroot : option string) (redecode panicked : bool)
(* the same comparison made on the Go side only, for default values too large for in-Coq evaluation *)
| CZeroGo (name : string) (ok : bool).

(* codes: 1 = the model itself is inconsistent on this input (deser/ser/has_type disagree, unknown type)
          2 = Go differs from the specification on this input *)
Definition judge_zero (with_roots : bool) (cfg : Config) (name : string) (shape : zshape) (ser : option string)
           (bl fixl : N) (root : string) (viewroot : option string) (redecode panicked : bool) : N :=
  match spec_ty cfg name with
  | None => 1
  | Some t =>
      let dv := default_value t in
      let bs := serialize t dv in
      let self := has_type t dv && match deserialize t bs with Some _ => true | None => false end in
      let fl := match fixed_size t with Some n => n | None => 0 end in
      let r := if with_roots then htr t dv else [] in
      let roots_ok :=
          if with_roots
          then bytes_eqb (unhex root) r && match viewroot with Some vr => bytes_eqb (unhex vr) r | None => true end
          else true in
      let ok :=
          match shape with
          | ZNotAValue => true
          | ZClean =>
              negb panicked && redecode && (bl =? len_N bs) && (fixl =? fl) && roots_ok &&
              match ser with Some h => bytes_eqb (unhex h) bs | None => false end
          | ZNilBits =>
              negb panicked && (fixl =? fl) && roots_ok &&
              match ser with Some h => bytes_eqb (unhex h) bs && (bl =? len_N bs) | None => true end
          end in
      (if self then 0 else 1) + (if ok then 0 else 2)
  end.

Definition judge (with_roots : bool) (c : scase) : N :=
  match c with
  | CZero cfg name shape ser bl fixl root viewroot redecode panicked =>
      judge_zero with_roots cfg name shape ser bl fixl root viewroot redecode panicked
  | CZeroGo _ ok => if ok then 0 else 2
  | CSsz cfg name input s view =>
      match spec_ty cfg name with
      | None => 1
      | Some t =>
          let bs := unhex input in
          match deserialize t bs with
          | None =>
              (* not a canonical encoding of an in-limit value: must be refused by both forms *)
              match s, view with
              | SRefused, (VNone | VRefused) => 0
              | _, _ => 2
              end
          | Some v =>
              let self := has_type t v && bytes_eqb (serialize t v) bs in
              let fl := match fixed_size t with Some n => n | None => 0 end in
              let r := if with_roots then htr t v else [] in
              let ok :=
                  match s with
                  | SAccepted reser bl fixl root js ys =>
                      match reser with None => true | Some _ => false end &&
                      (bl =? len_N bs) && (fixl =? fl) && js && ys &&
                      (if with_roots then bytes_eqb (unhex root) r else true)
                  | _ => false
                  end &&
                  match view with
                  | VNone => true
                  | VAccepted same vroot => same && (if with_roots then bytes_eqb (unhex vroot) r else true)
                  | VRefused | VPanic => false
                  end in
              (if self then 0 else 1) + (if ok then 0 else 2)
          end
      end
  end.

Fixpoint mism (with_roots : bool) (i : N) (cs : list scase) : list (N * N) :=
  match cs with
  | [] => []
  | c :: cs' =>
      let r := judge with_roots c in
      if r =? 0 then mism with_roots (i + 1) cs' else (i, r) :: mism with_roots (i + 1) cs'
  end.
Definition mismatches_c04 (cs : list scase) : list (N * N) := mism false 0 cs.
Definition mismatches_c05 (cs : list scase) : list (N * N) := mism true 0 cs.

(* sanity: the model on known vectors *)
Example run_checkpoint :
  judge true (CSsz cfg_minimal "common.Checkpoint"
    "0500000000000000aaaaaaaaaaaaaaaaaaaaaaaaaaaaaaaaaaaaaaaaaaaaaaaaaaaaaaaaaaaaaaaa"
    SRefused VNone) = 2.
Proof. vm_compute. reflexivity. Qed.
