(* Reflection over the regenerated accessor tables (GenAccessors.v): for every typed view that wraps a container
   view and is named after a struct (XView <-> X), every accessor must address the field it is named after:
   - the _state* iota block of a state.go file lists the struct's fields in order;
   - a method named F or SetF, F a field of X at position k, uses index k in every Get/Set it performs;
   - every other method only uses indices that exist, and an index constant named after a field has that
     field's position. *)
From Coq Require Import String Ascii NArith List Bool.
From V Require Import Ssz.SszCore Ssz.SszDesc Ssz.SpecSchemas Ssz.SszDescCheck.
Import ListNotations.
Local Open Scope string_scope.
Local Open Scope N_scope.

Fixpoint strip_prefix (p s : string) : option string :=
  match p, s with
  | EmptyString, _ => Some s
  | String a p', String b s' => if Ascii.eqb a b then strip_prefix p' s' else None
  | _, _ => None
  end.
Definition strip_suffix (suf s : string) : option string :=
  let n := String.length s in let k := String.length suf in
  if (Nat.leb k n) && String.eqb (substring (n - k) k s) suf then Some (substring 0 (n - k) s) else None.
Definition upcase_first (s : string) : string :=
  match s with
  | String c r => let n := N_of_ascii c in
                  String (if (97 <=? n) && (n <=? 122) then ascii_of_N (n - 32) else c) r
  | _ => s
  end.
Fixpoint parse_dec_aux (s : string) (acc : N) : option N :=
  match s with
  | EmptyString => Some acc
  | String c r => let n := N_of_ascii c in
                  if (48 <=? n) && (n <=? 57) then parse_dec_aux r (10 * acc + (n - 48)) else None
  end.
Definition parse_dec (s : string) : option N := match s with EmptyString => None | _ => parse_dec_aux s 0 end.

(* the field a constant is named after *)
Definition const_field_name (c : string) : option string :=
  match strip_prefix "_state" c with
  | Some r => Some r
  | None => match strip_prefix "_validator" c with
            | Some r => Some r
            | None => match strip_prefix "__" c with
                      | Some r => Some (upcase_first r)
                      | None => match strip_prefix "_" c with Some r => Some (upcase_first r) | None => None end
                      end
            end
  end.

Fixpoint index_of (name : string) (l : list string) (i : N) : option N :=
  match l with
  | [] => None
  | x :: l' => if String.eqb x name then Some i else index_of name l' (i + 1)
  end.

Notation "a +++ b" := (@app string a b) (at level 60, right associativity).

Section Acc.
  Variable cfg : Config.
  Variable consts : list (string * N).
  Variable types : list gtype.

  Definition struct_fields (q : string) : option (list string) :=
    match find (fun g => String.eqb (g_name g) q) types with
    | Some g => match g_decl g with
                | DStruct fs => Some (map (fun x => match x with (n, _, _, _) => n end) fs)
                | _ => None
                end
    | None => None
    end.

  (* value of an index expression: a literal or a constant of the view's package *)
  Definition index_val (pkg e : string) : option N :=
    match parse_dec e with
    | Some n => Some n
    | None => lookup consts (pkg ++ "." ++ e)
    end.

  Definition acc_problems (vname pkg : string) (fields : list string) (a : gaccessor) : list string :=
    let who := vname ++ "." ++ a_method a ++ " (" ++ a_pos a ++ ")" in
    let nf := N.of_nat (length fields) in
    let idx := a_gets a +++ a_sets a in
    let named :=
        match index_of (a_method a) fields 0 with
        | Some k => Some k
        | None => match strip_prefix "Set" (a_method a) with
                  | Some f => index_of f fields 0
                  | None => None
                  end
        end in
    flat_map (fun e =>
      match index_val pkg e with
      | None => [who ++ ": index expression " ++ e ++ " is neither a literal nor a known constant"]
      | Some v =>
          (if v <? nf then [] else [who ++ ": index " ++ e ++ " is outside the container"]) +++
          (match named with
           | Some k => if v =? k then [] else [who ++ ": accesses index " ++ e ++ ", not the field it is named after"]
           | None => []
           end) +++
          (match const_field_name e with
           | Some f => match index_of f fields 0 with
                       | Some k => if v =? k then [] else [who ++ ": constant " ++ e ++ " does not have the position of field " ++ f]
                       | None => []
                       end
           | None => []
           end)
      end) idx.

  Definition view_acc_problems (v : gviewtype) : list string :=
    if negb (String.eqb (v_embeds v) "ContainerView") then [] else
    match strip_suffix "View" (v_name v) with
    | None => []
    | Some q =>
        match struct_fields q with
        | None => []     (* a view without a struct form of the same name: nothing to name fields after *)
        | Some fields =>
            let pkg := pkg_of q in
            (* the iota block, when present, is the field list *)
            (match v_iota v with
             | [] => []
             | io =>
                 (if Nat.eqb (length io) (length fields) then [] else [v_name v ++ ": the _state index block has a different number of entries than the struct"]) +++
                 flat_map (fun p : string * string =>
                             match const_field_name (fst p) with
                             | Some f => if String.eqb f (snd p) then [] else [v_name v ++ ": index constant " ++ fst p ++ " is at the position of field " ++ snd p]
                             | None => [v_name v ++ ": unexpected entry " ++ fst p ++ " in the index block"]
                             end) (combine io fields) +++
                 flat_map (fun p : string * N =>
                             match lookup consts (pkg ++ "." ++ fst p) with
                             | Some n => if n =? snd p then [] else [v_name v ++ ": " ++ fst p ++ " does not evaluate to its position"]
                             | None => [v_name v ++ ": " ++ fst p ++ " has no constant value"]
                             end) (combine io (map N.of_nat (seq 0 (length io))))
             end) +++
            flat_map (acc_problems (v_name v) pkg fields) (v_methods v)
        end
    end.

  Definition accessor_problems (vs : list gviewtype) : list string := flat_map view_acc_problems vs.
End Acc.

Definition accessor_count (vs : list gviewtype) : N :=
  N.of_nat (fold_right (fun v acc => (length (v_methods v) + acc)%nat) 0%nat vs).
