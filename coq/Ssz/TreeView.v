(* Persistent binary Merkle tree with cached roots: the representation level of ztyp's tree-backed views.
   Nodes are immutable; every write rebuilds ("rebinds") the path from the written position to the root, sharing
   all untouched subtrees.  Definitions and theorems are parametric in the hash. *)
From Coq Require Import NArith List Bool Lia Arith.
From V Require Import Ssz.SszCore.
Import ListNotations.

(* list helpers *)
Lemma Forall_firstn' {A} (P : A -> Prop) n (l : list A) : Forall P l -> Forall P (firstn n l).
Proof. revert n; induction l; intros [|n] Hl; simpl; try constructor; inversion Hl; subst; auto. Qed.
Lemma Forall_skipn' {A} (P : A -> Prop) n (l : list A) : Forall P l -> Forall P (skipn n l).
Proof. revert n; induction l; intros [|n] Hl; simpl; auto. inversion Hl; subst; auto. Qed.
Lemma nth_firstn_lt' {A} (d : A) : forall n i (l : list A), (i < n)%nat -> nth i (firstn n l) d = nth i l d.
Proof. induction n; intros i l Hi; [lia|]. destruct l; [destruct i; reflexivity|]. destruct i; simpl; [reflexivity | apply IHn; lia]. Qed.
Lemma nth_skipn' {A} (d : A) : forall n i (l : list A), nth i (skipn n l) d = nth (n + i) l d.
Proof. induction n; intros i l; [reflexivity|]. destruct l; [destruct i; reflexivity|]. simpl. apply IHn. Qed.
Lemma nth_error_firstn' {A} : forall n i (l : list A), (i < n)%nat -> nth_error (firstn n l) i = nth_error l i.
Proof. induction n; intros i l Hi; [lia|]. destruct l; [destruct i; reflexivity|]. destruct i; simpl; [reflexivity | apply IHn; lia]. Qed.
Lemma nth_error_skipn' {A} : forall n i (l : list A), nth_error (skipn n l) i = nth_error l (n + i).
Proof. induction n; intros i l; [reflexivity|]. destruct l; [destruct i; reflexivity|]. simpl. apply IHn. Qed.

Section Tree.
  Variable H : bytes -> bytes.

  Inductive node : Type :=
  | Leaf (r : bytes)                         (* a 32-byte chunk / a root whose subtree is not expanded *)
  | Pair (l r : node) (cache : bytes).       (* inner node with its cached root *)

  Definition root (n : node) : bytes := match n with Leaf r => r | Pair _ _ c => c end.
  (* the only way trees are built: the cache is computed at construction *)
  Definition mk (l r : node) : node := Pair l r (H (root l ++ root r)).

  (* the root recomputed from scratch, ignoring every cache *)
  Fixpoint compute (n : node) : bytes :=
    match n with Leaf r => r | Pair l r _ => H (compute l ++ compute r) end.

  (* cache invariant: every cached root is the hash of its children's roots *)
  Fixpoint cache_ok (n : node) : Prop :=
    match n with
    | Leaf _ => True
    | Pair l r c => c = H (root l ++ root r) /\ cache_ok l /\ cache_ok r
    end.

  Lemma cache_ok_root : forall n, cache_ok n -> root n = compute n.
  Proof.
    induction n as [r|l IHl r IHr c]; simpl; [reflexivity|].
    intros [-> [Hl Hr]]. now rewrite (IHl Hl), (IHr Hr).
  Qed.
  Lemma mk_cache_ok l r : cache_ok l -> cache_ok r -> cache_ok (mk l r).
  Proof. simpl. auto. Qed.

  (* ---------- navigation by generalized index: a path of bits from the root, false = left ---------- *)
  Definition path := list bool.
  Fixpoint get (n : node) (p : path) {struct p} : option node :=
    match p with
    | [] => Some n
    | b :: p' => match n with
                 | Pair l r _ => get (if b then r else l) p'
                 | Leaf _ => None
                 end
    end.
  (* set with path rebinding *)
  Fixpoint set (n : node) (p : path) (x : node) {struct p} : option node :=
    match p with
    | [] => Some x
    | b :: p' =>
        match n with
        | Pair l r _ =>
            if b then match set r p' x with Some r' => Some (mk l r') | None => None end
            else match set l p' x with Some l' => Some (mk l' r) | None => None end
        | Leaf _ => None
        end
    end.

  Theorem set_cache_ok : forall n p x n', cache_ok n -> cache_ok x -> set n p x = Some n' -> cache_ok n'.
  Proof.
    intros n p; revert n. induction p as [|b p IH]; intros n x n' Hn Hx Hs; simpl in Hs.
    - inversion Hs; subst; assumption.
    - destruct n as [|l r c]; [discriminate|]. destruct Hn as [_ [Hl Hr]]. destruct b.
      + destruct (set r p x) as [r'|] eqn:E; [|discriminate]. injection Hs as <-.
        apply mk_cache_ok; [assumption | eapply (IH r); eauto].
      + destruct (set l p x) as [l'|] eqn:E; [|discriminate]. injection Hs as <-.
        apply mk_cache_ok; [eapply (IH l); eauto | assumption].
  Qed.

  Theorem get_set_same : forall n p x n', set n p x = Some n' -> get n' p = Some x.
  Proof.
    intros n p; revert n. induction p as [|b p IH]; intros n x n' Hs; simpl in Hs.
    - inversion Hs; subst; reflexivity.
    - destruct n as [|l r c]; [discriminate|]. destruct b.
      + destruct (set r p x) eqn:E; [|discriminate]. injection Hs as <-. simpl. eauto.
      + destruct (set l p x) eqn:E; [|discriminate]. injection Hs as <-. simpl. eauto.
  Qed.

  (* two positions neither of which lies inside the other *)
  Fixpoint disjoint (p q : path) : Prop :=
    match p, q with
    | b :: p', c :: q' => b <> c \/ disjoint p' q'
    | _, _ => False
    end.
  Theorem get_set_other : forall n p q x n', set n p x = Some n' -> disjoint p q -> get n' q = get n q.
  Proof.
    intros n p; revert n. induction p as [|b p IH]; intros n q x n' Hs Hd; [destruct q; contradiction|].
    destruct q as [|c q]; [contradiction|]. simpl in Hs. destruct n as [|l r k]; [discriminate|].
    destruct b.
    - destruct (set r p x) as [r'|] eqn:E; [|discriminate]. injection Hs as <-. simpl.
      destruct c; [|reflexivity]. destruct Hd as [Hd|Hd]; [congruence|]. eapply IH; eauto.
    - destruct (set l p x) as [l'|] eqn:E; [|discriminate]. injection Hs as <-. simpl.
      destruct c; [reflexivity|]. destruct Hd as [Hd|Hd]; [congruence|]. eapply IH; eauto.
  Qed.
  Lemma same_length_neq_disjoint : forall p q, length p = length q -> p <> q -> disjoint p q.
  Proof.
    induction p as [|b p IH]; intros [|c q] Hl Hn; simpl in *; try discriminate; [congruence|].
    destruct (Bool.bool_dec b c) as [->|Hbc]; [right|left; assumption].
    apply IH; [lia | congruence].
  Qed.

  (* a write is visible in the root, and only the written subtree matters (sub-view write-through) *)
  Theorem set_root_compute : forall n p x n',
      cache_ok n -> cache_ok x -> set n p x = Some n' -> root n' = compute n'.
  Proof. intros n p x n' Hn Hx Hs. apply cache_ok_root. exact (set_cache_ok n p x n' Hn Hx Hs). Qed.

  (* writing into a sub-view = writing at the concatenated path of the parent *)
  Theorem subview_write_through : forall n p q x sub sub' n',
      get n p = Some sub -> set sub q x = Some sub' -> set n p sub' = Some n' ->
      set n (p ++ q) x = Some n' /\ get n' (p ++ q) = Some x.
  Proof.
    intros n p; revert n. induction p as [|b p IH]; intros n q x sub sub' n' Hg Hs Hp; simpl in *.
    - injection Hg as <-. injection Hp as <-. split; [assumption | eapply get_set_same; eauto].
    - destruct n as [|l r c]; [discriminate|]. destruct b.
      + destruct (set r p sub') as [r'|] eqn:E; [|discriminate]. injection Hp as <-.
        destruct (IH r q x sub sub' r' Hg Hs E) as [A B]. rewrite A. split; [reflexivity|]. simpl. exact B.
      + destruct (set l p sub') as [l'|] eqn:E; [|discriminate]. injection Hp as <-.
        destruct (IH l q x sub sub' l' Hg Hs E) as [A B]. rewrite A. split; [reflexivity|]. simpl. exact B.
  Qed.

  (* ---------- complete trees over a list of nodes, zero-padded ---------- *)
  Variable zero_hash : nat -> bytes.
  Hypothesis zero_hash_0 : zero_hash 0 = zero_chunk.
  Hypothesis zero_hash_S : forall d, zero_hash (S d) = H (zero_hash d ++ zero_hash d).

  Fixpoint zero_node (d : nat) : node :=
    match d with O => Leaf zero_chunk | S d' => mk (zero_node d') (zero_node d') end.
  Lemma zero_node_ok d : cache_ok (zero_node d) /\ root (zero_node d) = zero_hash d.
  Proof.
    induction d as [|d [A B]]; simpl; [now rewrite zero_hash_0|].
    rewrite zero_hash_S, B. auto.
  Qed.

  Fixpoint build (d : nat) (ns : list node) : node :=
    match d with
    | O => match ns with [] => Leaf zero_chunk | n :: _ => n end
    | S d' =>
        match ns with
        | [] => zero_node d
        | _ => let k := Nat.pow 2 d' in mk (build d' (firstn k ns)) (build d' (skipn k ns))
        end
    end.
  Lemma build_nil_root d : root (build d []) = zero_hash d.
  Proof. destruct d; [simpl; now rewrite zero_hash_0 | exact (proj2 (zero_node_ok (S d)))]. Qed.
  Lemma build_cache_ok : forall d ns, Forall cache_ok ns -> cache_ok (build d ns).
  Proof.
    induction d as [|d IH]; intros ns Hns.
    - destruct ns; simpl; [exact I | now inversion Hns].
    - destruct ns as [|n ns']; [apply (proj1 (zero_node_ok (S d)))|].
      cbn [build]. apply mk_cache_ok; apply IH.
      + now apply Forall_firstn'.
      + now apply Forall_skipn'.
  Qed.

  (* the root of the tree built over chunk leaves is the specification's merkleization *)
  Theorem build_root_merkle : forall d cs, (length cs <= Nat.pow 2 d)%nat ->
      root (build d (map Leaf cs)) = merkle_tree H zero_hash d cs.
  Proof.
    induction d as [|d IH]; intros cs Hlen.
    - destruct cs as [|c cs']; reflexivity.
    - destruct cs as [|c cs']; [cbn [map build]; exact (proj2 (zero_node_ok (S d)))|].
      assert (Hb : build (S d) (map Leaf (c :: cs')) =
                   mk (build d (firstn (Nat.pow 2 d) (map Leaf (c :: cs')))) (build d (skipn (Nat.pow 2 d) (map Leaf (c :: cs')))))
        by reflexivity.
      rewrite Hb; clear Hb.
      assert (Hm : merkle_tree H zero_hash (S d) (c :: cs') =
                   if (len_N (c :: cs') <=? 2 ^ N.of_nat d)%N
                   then H (merkle_tree H zero_hash d (c :: cs') ++ zero_hash d)
                   else H (merkle_tree H zero_hash d (firstn (N.to_nat (2 ^ N.of_nat d)) (c :: cs')) ++
                           merkle_tree H zero_hash d (skipn (N.to_nat (2 ^ N.of_nat d)) (c :: cs'))))
        by reflexivity.
      rewrite Hm; clear Hm.
      remember (c :: cs') as cs eqn:Ecs.
      cbn [mk root]. rewrite firstn_map, skipn_map.
      assert (Hhalf : N.to_nat (2 ^ N.of_nat d)%N = Nat.pow 2 d).
      { rewrite <- (Nat2N.id (Nat.pow 2 d)). f_equal. rewrite Nat2N.inj_pow. reflexivity. }
      destruct (N.leb_spec (len_N cs) (2 ^ N.of_nat d)%N) as [Hle|Hgt].
      + (* everything fits in the left half: the right half is the zero tree *)
        assert (Hl : (length cs <= Nat.pow 2 d)%nat).
        { unfold len_N in Hle. rewrite <- Hhalf. lia. }
        rewrite firstn_all2 by assumption. rewrite skipn_all2 by assumption.
        rewrite (IH cs Hl). f_equal. f_equal. apply build_nil_root.
      + rewrite Hhalf. rewrite !IH.
        * reflexivity.
        * rewrite skipn_length. cbn [Nat.pow] in Hlen. lia.
        * rewrite firstn_length. lia.
  Qed.

  (* ---------- a container / vector view: [n] positions at depth d ---------- *)
  Fixpoint index_path (d : nat) (i : nat) : path :=
    match d with
    | O => []
    | S d' => Nat.leb (Nat.pow 2 d') i :: index_path d' (if Nat.leb (Nat.pow 2 d') i then i - Nat.pow 2 d' else i)
    end.
  Lemma index_path_length d i : length (index_path d i) = d.
  Proof. revert i; induction d; intros; simpl; [reflexivity | now rewrite IHd]. Qed.
  Lemma index_path_inj : forall d i j, (i < Nat.pow 2 d)%nat -> (j < Nat.pow 2 d)%nat ->
      index_path d i = index_path d j -> i = j.
  Proof.
    induction d as [|d IH]; intros i j Hi Hj Heq; simpl in *; [lia|].
    injection Heq as Hb Hr.
    destruct (Nat.leb_spec (2 ^ d) i), (Nat.leb_spec (2 ^ d) j); try discriminate.
    - apply IH in Hr; lia.
    - apply IH in Hr; lia.
  Qed.

  Lemma get_build : forall d ns i, (i < Nat.pow 2 d)%nat ->
      get (build d ns) (index_path d i) = Some (nth i ns (Leaf zero_chunk)) \/ length ns <= i.
  Proof.
    induction d as [|d IH]; intros ns i Hi.
    - simpl in Hi. assert (i = 0)%nat by lia. subst. destruct ns; simpl; [right; lia | left; reflexivity].
    - destruct ns as [|n ns']; [right; simpl; lia|].
      cbn [build index_path]. set (ns := n :: ns') in *.
      destruct (Nat.leb_spec (2 ^ d) i) as [Hge|Hlt]; cbn [get mk].
      + destruct (IH (skipn (2 ^ d) ns) (i - 2 ^ d)) as [A|A]; [cbn [Nat.pow] in Hi; lia | |].
        * left. rewrite A. f_equal. rewrite nth_skipn'. f_equal. lia.
        * right. rewrite skipn_length in A. lia.
      + destruct (IH (firstn (2 ^ d) ns) i Hlt) as [A|A].
        * left. rewrite A. f_equal. apply nth_firstn_lt'. assumption.
        * right. rewrite firstn_length in A. lia.
  Qed.

  Definition get_field (d : nat) (t : node) (i : nat) : option node := get t (index_path d i).
  Definition set_field (d : nat) (t : node) (i : nat) (x : node) : option node := set t (index_path d i) x.

  Theorem field_get_set_same : forall d t i x t', set_field d t i x = Some t' -> get_field d t' i = Some x.
  Proof. intros. eapply get_set_same; eauto. Qed.
  Theorem field_get_set_other : forall d t i j x t', (i < Nat.pow 2 d)%nat -> (j < Nat.pow 2 d)%nat -> i <> j ->
      set_field d t i x = Some t' -> get_field d t' j = get_field d t j.
  Proof.
    intros d t i j x t' Hi Hj Hne Hs. eapply get_set_other; eauto.
    apply same_length_neq_disjoint; [now rewrite !index_path_length|].
    intro E. apply Hne. eapply index_path_inj; eauto.
  Qed.

  (* ---------- operation sequences on a store of views (copies share structure) ---------- *)
  Inductive op : Type :=
  | OSet (v : nat) (p : path) (x : node)     (* write a subtree at a position of view v *)
  | OCopy (v : nat).                         (* a new view with the same backing *)
  Definition store := list node.
  Definition step (s : store) (o : op) : option store :=
    match o with
    | OSet v p x =>
        match nth_error s v with
        | Some t => match set t p x with
                    | Some t' => Some (firstn v s ++ t' :: skipn (S v) s)
                    | None => None
                    end
        | None => None
        end
    | OCopy v => match nth_error s v with Some t => Some (s ++ [t]) | None => None end
    end.
  Fixpoint run (s : store) (ops : list op) : option store :=
    match ops with
    | [] => Some s
    | o :: ops' => match step s o with Some s' => run s' ops' | None => None end
    end.
  Definition op_ok (o : op) : Prop := match o with OSet _ _ x => cache_ok x | OCopy _ => True end.

  Lemma step_cache_ok : forall s o s', Forall cache_ok s -> op_ok o -> step s o = Some s' -> Forall cache_ok s'.
  Proof.
    intros s [v p x|v] s' Hs Ho Hst; cbn [step] in Hst; cbn [op_ok] in Ho.
    - destruct (nth_error s v) as [t|] eqn:E; [|discriminate].
      destruct (set t p x) as [t'|] eqn:E2; [|discriminate]. injection Hst as <-.
      apply Forall_app. split; [now apply Forall_firstn'|].
      constructor; [|exact (Forall_skipn' cache_ok (S v) s Hs)].
      apply (set_cache_ok t p x t'); [|assumption|assumption]. apply (proj1 (Forall_forall cache_ok s) Hs). eapply nth_error_In; eauto.
    - destruct (nth_error s v) as [t|] eqn:E; [|discriminate]. injection Hst as <-.
      apply Forall_app. split; [assumption|]. constructor; [|constructor].
      apply (proj1 (Forall_forall cache_ok s) Hs). eapply nth_error_In; eauto.
  Qed.

  (* cached roots are never stale: after ANY operation sequence every view's reported root is the root of its
     content recomputed from scratch *)
  Theorem cache_inv_preserved : forall ops s s',
      Forall cache_ok s -> Forall op_ok ops -> run s ops = Some s' ->
      Forall cache_ok s' /\ forall t, In t s' -> root t = compute t.
  Proof.
    induction ops as [|o ops IH]; intros s s' Hs Ho Hr; simpl in Hr.
    - injection Hr as <-. split; [assumption|]. intros t Ht. apply cache_ok_root. exact (proj1 (Forall_forall cache_ok s) Hs t Ht).
    - destruct (step s o) as [s1|] eqn:E; [|discriminate]. inversion Ho; subst.
      apply (IH s1 s'); [eapply step_cache_ok; eauto | assumption | assumption].
  Qed.

  (* copies are independent: an operation on view v leaves every other view exactly as it was *)
  Theorem step_other_unchanged : forall s o s' w,
      step s o = Some s' -> (match o with OSet v _ _ => w <> v | OCopy _ => True end) -> (w < length s)%nat ->
      nth_error s' w = nth_error s w.
  Proof.
    intros s [v p x|v] s' w Hst Hw Hlt; cbn [step] in Hst.
    - destruct (nth_error s v) as [t|] eqn:E; [|discriminate].
      destruct (set t p x) as [t'|]; [|discriminate]. injection Hst as <-.
      assert (Hv : (v < length s)%nat) by (apply nth_error_Some; congruence).
      destruct (Nat.lt_ge_cases w v) as [Hwv|Hwv].
      + rewrite nth_error_app1 by (rewrite firstn_length; lia). now rewrite nth_error_firstn' by assumption.
      + rewrite nth_error_app2 by (rewrite firstn_length; lia). rewrite firstn_length.
        replace (Nat.min v (length s)) with v by lia.
        destruct (w - v)%nat as [|k] eqn:Ek; [lia|]. cbn [nth_error].
        change (nth_error (skipn (S v) s) k = nth_error s w).
        rewrite (nth_error_skipn' (S v) k s). f_equal. lia.
    - destruct (nth_error s v); [|discriminate]. injection Hst as <-. now apply nth_error_app1.
  Qed.
  Theorem copy_independent : forall s v s', step s (OCopy v) = Some s' ->
      nth_error s' (length s) = nth_error s v /\ forall w, (w < length s)%nat -> nth_error s' w = nth_error s w.
  Proof.
    intros s v s' Hst. cbn [step] in Hst. destruct (nth_error s v) as [t|] eqn:E; [|discriminate]. injection Hst as <-.
    split; [rewrite nth_error_app2 by lia; now rewrite Nat.sub_diag | intros; now apply nth_error_app1].
  Qed.
End Tree.
